//! C07 correspondence + oracles: real tensor_store snapshots (v3 file plain/zstd, bytes, quantising
//! format) vs the Lean snapshot model (drv_snap), deep per-slab comparison, crash states.
use nverif::*;
use serde_json::{json, Value as J};
use std::collections::{BTreeMap, HashMap};
use std::path::{Path, PathBuf};
use tensor_compress::format::{CompressedEntry, CompressedScalar, CompressedSnapshot, CompressedValue, Header as CHeader};
use tensor_compress::{CompressionConfig, RleEncoded, TensorMode};
use tensor_store::{
    snapshot, ColumnValue, CompressedEmbedding, EntityId, ScalarValue, SlabRouter, SlabRouterConfig, SnapshotFormatError,
    SnapshotHeader, SnapshotVersion, SparseVector, TensorData, TensorStore, TensorValue, V3Snapshot, WalConfig,
};

// ------------------------------------------------------------------ encodings shared with the driver

fn nats<T: ToString>(v: &[T]) -> String {
    if v.is_empty() {
        "-".into()
    } else {
        v.iter().map(|x| x.to_string()).collect::<Vec<_>>().join(",")
    }
}
fn bits32(v: &[f32]) -> Vec<u32> {
    v.iter().map(|x| x.to_bits()).collect()
}
fn hexs(s: &str) -> String {
    hex(s.as_bytes())
}
fn strlist(ps: &[String]) -> String {
    let mut v = vec![ps.len().to_string()];
    v.extend(ps.iter().map(|p| hexs(p)));
    v.join(";")
}

fn enc_value(v: &TensorValue) -> String {
    match v {
        TensorValue::Scalar(ScalarValue::Null) => "null".into(),
        TensorValue::Scalar(ScalarValue::Bool(b)) => format!("bool:{}", u8::from(*b)),
        TensorValue::Scalar(ScalarValue::Int(i)) => format!("int:{i}"),
        TensorValue::Scalar(ScalarValue::Float(f)) => format!("float:{}", f.to_bits()),
        TensorValue::Scalar(ScalarValue::String(s)) => format!("str:{}", hexs(s)),
        TensorValue::Scalar(ScalarValue::Bytes(b)) => format!("bytes:{}", hex(b)),
        TensorValue::Vector(v) => format!("vec:{}", nats(&bits32(v))),
        TensorValue::Sparse(sv) => format!("sparse:{}:{}:{}", sv.dimension(), nats(sv.positions()), nats(&bits32(sv.values()))),
        TensorValue::Pointer(p) => format!("ptr:{}", hexs(p)),
        TensorValue::Pointers(ps) => format!("ptrs:{}", strlist(ps)),
    }
}

fn enc_cvalue(c: &CompressedValue) -> String {
    match c {
        CompressedValue::Scalar(CompressedScalar::Null) => "s.null".into(),
        CompressedValue::Scalar(CompressedScalar::Bool(b)) => format!("s.bool:{}", u8::from(*b)),
        CompressedValue::Scalar(CompressedScalar::Int(i)) => format!("s.int:{i}"),
        CompressedValue::Scalar(CompressedScalar::Float(f)) => format!("s.float:{}", f.to_bits()),
        CompressedValue::Scalar(CompressedScalar::String(s)) => format!("s.str:{}", hexs(s)),
        CompressedValue::Scalar(CompressedScalar::Bytes(b)) => format!("s.bytes:{}", hex(b)),
        CompressedValue::VectorRaw(v) => format!("raw:{}", nats(&bits32(v))),
        CompressedValue::VectorTT { .. } => "tt".into(),
        CompressedValue::VectorSparse { dimension, positions, values } => {
            format!("vsparse:{dimension}:{}:{}", hex(positions), nats(&bits32(values)))
        }
        CompressedValue::IdList(b) => format!("idlist:{}", hex(b)),
        CompressedValue::RleInt(e) => format!("rle:{}:{}", nats(&e.values), nats(&e.run_lengths)),
        CompressedValue::Pointer(p) => format!("ptr:{}", hexs(p)),
        CompressedValue::Pointers(ps) => format!("ptrs:{}", strlist(ps)),
    }
}

fn enc_data(d: &TensorData) -> String {
    let mut f: Vec<(String, String)> = d.iter().map(|(k, v)| (k.clone(), enc_value(v))).collect();
    f.sort();
    f.iter().map(|(k, v)| format!("{}={}", hexs(k), v)).collect::<Vec<_>>().join("|")
}

fn enc_colval(c: &ColumnValue) -> String {
    match c {
        ColumnValue::Null => "null".into(),
        ColumnValue::Int(i) => format!("int:{i}"),
        ColumnValue::Float(f) => format!("float:{}", f.to_bits()),
        ColumnValue::String(s) => format!("str:{}", hexs(s)),
        ColumnValue::Bool(b) => format!("bool:{}", u8::from(*b)),
        ColumnValue::Bytes(b) => format!("bytes:{}", hex(b)),
        ColumnValue::Json(s) => format!("json:{}", hexs(s)),
    }
}

// ------------------------------------------------------------------ deep view of a router

#[derive(Default, Clone, PartialEq, Debug)]
struct View {
    metadata: BTreeMap<String, String>,
    index: BTreeMap<String, u64>,
    emb_dim: usize,
    embeddings: BTreeMap<u64, Vec<u32>>,
    tables: BTreeMap<String, (String, Vec<(u64, String)>)>,
    /// per table: row count, get() of the first row ids (deleted ones included), index lookups / ranges
    rel_extra: BTreeMap<String, String>,
    blobs: BTreeMap<u64, Option<Vec<u8>>>,
    blob_counts: (u64, u64),
    graph: BTreeMap<u64, Vec<(u64, u64)>>,
    graph_edges: usize,
    cache: BTreeMap<String, String>,
}

/// side information the harness keeps to enumerate slabs that have no listing API
#[derive(Default, Clone)]
struct Side {
    blob_hashes: Vec<tensor_store::ChunkHash>,
    graph_nodes: Vec<u64>,
}

fn view(r: &SlabRouter, side: &Side) -> View {
    let mut v = View::default();
    for (k, d) in r.metadata.scan("") {
        v.metadata.insert(k, enc_data(&d));
    }
    for (k, id) in r.index.scan_prefix("") {
        v.index.insert(k, id.as_u64());
    }
    v.emb_dim = r.embeddings.dimension();
    for (id, vec) in r.embeddings.entries() {
        v.embeddings.insert(id.as_u64(), bits32(&vec));
    }
    for t in r.relations.table_names() {
        let schema = r
            .relations
            .get_schema(&t)
            .map(|s| {
                format!(
                    "pk={:?};{}",
                    s.primary_key,
                    s.columns.iter().map(|c| format!("{}:{:?}:{}", hexs(&c.name), c.col_type, c.nullable)).collect::<Vec<_>>().join(",")
                )
            })
            .unwrap_or_else(|| "no-schema".into());
        let mut rows: Vec<(u64, String)> = r
            .relations
            .scan_all(&t)
            .unwrap_or_default()
            .into_iter()
            .map(|(id, row)| (id.as_u64(), row.iter().map(enc_colval).collect::<Vec<_>>().join(",")))
            .collect();
        rows.sort();
        let max_id = rows.iter().map(|x| x.0).max().unwrap_or(0);
        let probes: Vec<String> = (0..max_id + 3)
            .map(|i| match r.relations.get(&t, tensor_store::RowId::new(i)) {
                Ok(Some(row)) => row.iter().map(enc_colval).collect::<Vec<_>>().join(","),
                Ok(None) => "none".into(),
                Err(_) => "err".into(),
            })
            .collect();
        let look: Vec<String> = [i64::MIN, -1, 0, 1, 2, 3, 7]
            .iter()
            .map(|k| format!("{k}:{:?}", r.relations.index_lookup(&t, "id", *k).map(|v| v.iter().map(|x| x.as_u64()).collect::<Vec<_>>()).unwrap_or_default()))
            .collect();
        let range = format!("{:?}", r.relations.index_range(&t, "id", tensor_store::RangeOp::Ge, 2).map(|v| v.iter().map(|x| x.as_u64()).collect::<Vec<_>>()).unwrap_or_default());
        v.rel_extra.insert(t.clone(), format!("count={:?};get={};lookup={};range_ge2={range}", r.relations.row_count(&t).ok(), probes.join("|"), look.join("|")));
        v.tables.insert(t, (schema, rows));
    }
    for h in &side.blob_hashes {
        v.blobs.insert(h.as_u64(), r.blobs.get(h));
    }
    v.blob_counts = (r.blobs.chunk_count(), r.blobs.total_bytes());
    for n in &side.graph_nodes {
        let mut out: Vec<(u64, u64)> = r.graph.outgoing(EntityId::new(*n)).into_iter().map(|(t, e)| (t.as_u64(), e.as_u64())).collect();
        out.sort();
        v.graph.insert(*n, out);
    }
    v.graph_edges = r.graph.edge_count();
    for k in r.cache.scan_prefix("") {
        if let Some(d) = r.cache.get(&k) {
            v.cache.insert(k, enc_data(&d));
        }
    }
    v
}

/// user-level view: every scanned key with what `get` returns
fn keyview(r: &SlabRouter) -> BTreeMap<String, String> {
    let mut m = BTreeMap::new();
    for k in r.scan("") {
        if let Ok(d) = r.get(&k) {
            m.insert(k, enc_data(&d));
        }
    }
    m
}

fn cosine_and_rel(a: &[u32], b: &[u32]) -> (f64, f64) {
    let fa: Vec<f64> = a.iter().map(|x| f64::from(f32::from_bits(*x))).collect();
    let fb: Vec<f64> = b.iter().map(|x| f64::from(f32::from_bits(*x))).collect();
    if fa.len() != fb.len() {
        return (f64::NAN, f64::INFINITY);
    }
    let dot: f64 = fa.iter().zip(&fb).map(|(x, y)| x * y).sum();
    let na: f64 = fa.iter().map(|x| x * x).sum::<f64>().sqrt();
    let nb: f64 = fb.iter().map(|x| x * x).sum::<f64>().sqrt();
    let diff: f64 = fa.iter().zip(&fb).map(|(x, y)| (x - y) * (x - y)).sum::<f64>().sqrt();
    let cos = if na == 0.0 || nb == 0.0 { if na == nb { 1.0 } else { 0.0 } } else { dot / (na * nb) };
    let rel = if na == 0.0 { diff } else { diff / na };
    (cos, rel)
}

const TT_MIN: usize = 256;
/// documented reconstruction tolerance of the tensor-train form (docs/book tensor-compress.md,
/// "Random dense: Good (>0.9 cosine)"; TensorMode doc "<1% error" for low-rank content)
const COS_TOL: f64 = 0.9;

/// how an embedding vector changed: "same", "negzero" (only -0.0 -> +0.0), "small_zeroed",
/// "nan_zeroed", "within_tol", "outside_tol", "other"
fn emb_change(orig: &[u32], got: &[u32]) -> &'static str {
    if orig == got {
        return "same";
    }
    if orig.len() != got.len() {
        return "other";
    }
    // differences that are only "entry dropped to +0.0" by the sparse form
    let mut kind = "negzero";
    let mut only_drops = true;
    for (o, g) in orig.iter().zip(got) {
        if o == g {
            continue;
        }
        let f = f32::from_bits(*o);
        if *g != 0 {
            only_drops = false;
            break;
        }
        if *o == 0x8000_0000 {
            continue;
        }
        if f.is_nan() {
            kind = "nan_zeroed";
        } else if f.abs() <= 1e-6 {
            if kind != "nan_zeroed" {
                kind = "small_zeroed";
            }
        } else {
            only_drops = false;
            break;
        }
    }
    if only_drops {
        return kind;
    }
    if orig.len() < TT_MIN {
        return "other";
    }
    if orig.iter().any(|b| !f32::from_bits(*b).is_finite()) {
        return "nonfinite_long";
    }
    let (cos, _) = cosine_and_rel(orig, got);
    if cos >= COS_TOL {
        "within_tol"
    } else {
        "outside_tol"
    }
}

// ------------------------------------------------------------------ generators

fn gen_string(r: &mut Rng) -> String {
    match r.below(8) {
        0 => String::new(),
        1 => "héllo wörld ✓ 日本".into(),
        2 => "x".repeat(200 + r.below(2000) as usize),
        3 => "bytes:3".into(),
        4 => "with space\tand\nnewline:colon;semi|pipe=eq".into(),
        _ => {
            let n = 1 + r.below(12) as usize;
            (0..n).map(|_| (b'a' + r.below(26) as u8) as char).collect()
        }
    }
}

fn gen_f32(r: &mut Rng) -> f32 {
    match r.below(16) {
        0 => 0.0,
        1 => -0.0,
        2 => f32::NAN,
        3 => f32::from_bits(0x7fc0_0001 | (r.next_u64() as u32 & 0x3f_ffff)),
        4 => f32::INFINITY,
        5 => f32::NEG_INFINITY,
        6 => 5e-7,
        7 => -9e-7,
        8 => 1.0e-6,
        9 => f32::from_bits(0x3586_37be),
        10 => f32::from_bits(1 + r.below(100) as u32),
        11 => f32::from_bits(r.next_u64() as u32),
        12 => r.below(50) as f32,
        13 => (r.below(1u64 << 26) as f32) + 0.5,
        _ => (r.range(-1000, 1000) as f32) / 64.0,
    }
}

fn gen_vec(r: &mut Rng, len: usize) -> Vec<f32> {
    gen_vec_k(r, len).0
}

fn gen_vec_k(r: &mut Rng, len: usize) -> (Vec<f32>, &'static str) {
    let k = r.below(7);
    let name = ["anyfloat", "idlike", "mostly_zero", "ramp", "anyfloat_some_zero", "random_dense", "random_dense"][k as usize];
    (gen_vec_kind(r, len, k), name)
}

fn gen_vec_kind(r: &mut Rng, len: usize, k: u64) -> Vec<f32> {
    match k {
        0 => (0..len).map(|_| gen_f32(r)).collect(),
        1 => {
            // sorted non-negative integers: looks like an id list
            let mut cur = r.below(5);
            (0..len)
                .map(|_| {
                    cur += r.below(4) * if r.chance(1, 10) { 1 << 20 } else { 1 };
                    cur as f32
                })
                .collect()
        }
        2 => (0..len).map(|_| if r.chance(2, 3) { 0.0 } else { (r.range(-500, 500) as f32) / 32.0 }).collect(),
        3 => (0..len).map(|i| (i as f32) * 0.01).collect(),
        4 => (0..len).map(|_| if r.chance(2, 3) { gen_f32(r) } else { 0.0 }).collect(),
        _ => (0..len).map(|_| (r.range(-2000, 2000) as f32) / 1000.0 + 0.0005).collect(),
    }
}

fn gen_len(r: &mut Rng) -> usize {
    match r.below(10) {
        0 => 0,
        1 => 1,
        2 => 2,
        3 => 255,
        4 => 256,
        5 => 257,
        6 => 384,
        _ => 1 + r.below(40) as usize,
    }
}

fn gen_sparse(r: &mut Rng) -> SparseVector {
    let dim = 1 + r.below(64) as usize;
    let mut pos: Vec<u32> = (0..dim as u32).filter(|_| r.chance(1, 4)).collect();
    pos.dedup();
    let vals: Vec<f32> = pos
        .iter()
        .map(|_| {
            let x = (r.range(1, 400) as f32) / 16.0;
            if r.chance(1, 2) {
                -x
            } else {
                x
            }
        })
        .collect();
    SparseVector::from_parts(dim, pos, vals)
}

fn gen_value(r: &mut Rng) -> (TensorValue, &'static str) {
    match r.below(16) {
        0 => (TensorValue::Scalar(ScalarValue::Null), "null"),
        1 => (TensorValue::Scalar(ScalarValue::Bool(r.chance(1, 2))), "bool"),
        2 => (
            TensorValue::Scalar(ScalarValue::Int(*r.pick(&[i64::MIN, i64::MAX, 0, -1, 1, i64::MIN + 1, 1 << 53]))),
            "int",
        ),
        3 => (TensorValue::Scalar(ScalarValue::Int(r.next_u64() as i64)), "int"),
        4 => (
            TensorValue::Scalar(ScalarValue::Float(*r.pick(&[
                f64::NAN,
                f64::from_bits(0x7ff8_0000_0000_0001),
                f64::from_bits(0xfff0_0000_0000_0123),
                f64::INFINITY,
                f64::NEG_INFINITY,
                -0.0,
                0.0,
                f64::MIN_POSITIVE,
                5e-324,
                f64::MAX,
            ]))),
            "float",
        ),
        5 => (TensorValue::Scalar(ScalarValue::Float(f64::from_bits(r.next_u64()))), "float"),
        6 | 7 => (TensorValue::Scalar(ScalarValue::String(gen_string(r))), "string"),
        8 => {
            let n = *r.pick(&[0usize, 1, 3, 16, 1000]);
            (TensorValue::Scalar(ScalarValue::Bytes(r.bytes(n))), "bytes")
        }
        9 | 10 | 11 => {
            let n = gen_len(r);
            (TensorValue::Vector(gen_vec(r, n)), "vector")
        }
        12 => (TensorValue::Sparse(gen_sparse(r)), "sparse"),
        13 => (TensorValue::Pointer(gen_string(r)), "pointer"),
        _ => {
            let n = r.below(4) as usize;
            (TensorValue::Pointers((0..n).map(|_| gen_string(r)).collect()), "pointers")
        }
    }
}

fn gen_key(r: &mut Rng, i: usize) -> (String, &'static str) {
    match r.below(12) {
        0 => (format!("emb:{i}"), "emb"),
        1 => (format!("node:{i}"), "node"),
        2 => (format!("edge:{i}"), "edge"),
        3 => (format!("table:t{i}:meta"), "table"),
        4 => (format!("_cache:{i}"), "cache"),
        5 => (format!("_blob:meta:{i}"), "blobmeta"),
        6 => (format!("ключ:{i}:✓"), "unicode"),
        7 => (format!("{}:{i}", "k".repeat(300)), "long"),
        _ => (format!("user:{i}"), "plain"),
    }
}

fn gen_field(r: &mut Rng) -> String {
    match r.below(10) {
        0 => "_embedding".into(),
        1 => "vector".into(),
        2 => "ids".into(),
        3 => "member_ids".into(),
        4 => String::new(),
        5 => "поле".into(),
        _ => format!("f{}", r.below(6)),
    }
}

// ------------------------------------------------------------------ small fs helpers

struct Scratch {
    dir: tempfile::TempDir,
    n: u64,
}
impl Scratch {
    fn new() -> Self {
        Scratch { dir: tempfile::tempdir().expect("tempdir"), n: 0 }
    }
    fn fresh(&mut self, name: &str) -> PathBuf {
        self.n += 1;
        let d = self.dir.path().join(format!("d{}", self.n));
        std::fs::create_dir_all(&d).unwrap();
        d.join(name)
    }
}

fn fmt_err(e: &SnapshotFormatError) -> String {
    match e {
        SnapshotFormatError::InvalidMagic => "invalid_magic".into(),
        SnapshotFormatError::UnsupportedVersion(v) => format!("unsupported:{v}"),
        SnapshotFormatError::IoError(_) => "io".into(),
        SnapshotFormatError::SerializationError(_) => "ser".into(),
    }
}

// ------------------------------------------------------------------ stream: temp names, detection

fn stream_names(rep: &mut Report, m: &mut Model, root: &Rng, scale: u64) {
    let mut r = root.fork("tmpname");
    let fixed_names = ["snap.tmp", "snap.bin", "snap", ".hidden", ".hidden.tmp", "a.b.c", "a.", "a..", "x.tmp.bin", "data.tar.gz", "tmp"];
    for i in 0..(400 * scale) as usize {
        let name: String = if i < fixed_names.len() {
            fixed_names[i].to_string()
        } else {
            let n = 1 + r.below(8) as usize;
            (0..n).map(|_| *r.pick(&['a', 'b', '.', '.', 't', 'm', 'p', 'é'])).collect()
        };
        // `..x` names: std's with_extension returns ".." for them (a directory); not a snapshot file name
        if name == "." || name.starts_with("..") || name.is_empty() {
            continue;
        }
        // the save's temp path: the function both saves call (also observed through the trace in the crash stream)
        let real = snapshot::temp_path_for(Path::new(&name)).to_string_lossy().to_string();
        let model = m.ask(&format!("tmpname {}", hexs(&name)));
        rep.compare("tmpname", || json!({"name": name}), &hexs(&real), &model);
        rep.hit(if real == name { "tmpname.fixed_point" } else { "tmpname.distinct" });
        if real == name {
            rep.violation("tensor_store.snapshot.save/tmp_extension_path_overwritten_in_place", "temp_path_for(path) == path: the save would overwrite the snapshot in place", json!({"name": name}));
        }
        rep.case("tmpname", Some(&name));
    }
}

fn stream_detect(rep: &mut Report, m: &mut Model, root: &Rng, scale: u64, sc: &mut Scratch) {
    let mut r = root.fork("detect");
    let p = sc.fresh("probe.bin");
    for _ in 0..300 * scale {
        let n = r.below(9) as usize;
        let mut b = r.bytes(n);
        if r.chance(2, 3) {
            let magic = b"NEUM";
            let k = (r.below(5) as usize).min(b.len());
            b[..k].copy_from_slice(&magic[..k]);
        }
        std::fs::write(&p, &b).unwrap();
        let real = match snapshot::detect_version(&p) {
            Ok(SnapshotVersion::V2) => "v2",
            Ok(SnapshotVersion::V3) => "v3",
            Err(_) => "err",
        };
        let model = m.ask(&format!("detect {}", hex(&b)));
        rep.compare("detect", || json!({"bytes": hex(&b)}), real, &model);
        rep.hit(&format!("detect.{real}.len{}", b.len().min(5)));
        let hb = hex(&b);
        rep.case("detect", if b.len() >= 4 { Some(&hb) } else { None });
    }
    // missing file: an error, never a version
    let missing = p.with_file_name("nope.bin");
    if snapshot::detect_version(&missing).is_ok() || snapshot::load(&missing).is_ok() {
        rep.violation("tensor_store.snapshot.load/missing_file_accepted", "load of a missing path succeeded", json!({}));
    }
}

// ------------------------------------------------------------------ stream: embedding slab snapshot form

fn stream_emb(rep: &mut Report, m: &mut Model, root: &Rng, scale: u64) {
    let mut r = root.fork("emb");
    let mut worst_cos: f64 = 1.0;
    let mut worst_rel: f64 = 0.0;
    let mut reported: BTreeMap<String, u32> = BTreeMap::new();
    let mut by_kind: BTreeMap<&'static str, (f64, f64, u32)> = BTreeMap::new();
    for i in 0..1500 * scale {
        let len = if i % 7 == 0 { *r.pick(&[256usize, 384, 512, 768]) } else { gen_len(&mut r) };
        let (v, vk) = gen_vec_k(&mut r, len);
        let ce = CompressedEmbedding::from_dense(&v);
        let fmt = ce.format_name();
        let back = ce.to_dense();
        let ob = bits32(&v);
        let gb = bits32(&back);
        let imp = match &ce {
            CompressedEmbedding::Dense(_) => format!("dense => {}", nats(&gb)),
            CompressedEmbedding::Sparse { positions, .. } => format!("sparse {} => {}", nats(positions), nats(&gb)),
            CompressedEmbedding::TensorTrain(_) => "tt => tt".to_string(),
        };
        let ttok = u8::from(fmt == "tensor_train");
        // `ttok` is the one opaque fact (did tt_decompose succeed); for len >= 256 dense vectors where TT
        // was not chosen the model is told so.
        let model = m.ask(&format!("emb {} {}", if len >= TT_MIN && fmt == "dense" { 0 } else { 1.max(ttok) }, nats(&ob)));
        rep.compare("emb.form", || json!({"vector_bits": nats(&ob)}), &imp, &model);
        let ch = emb_change(&ob, &gb);
        rep.hit(&format!("emb.{fmt}.{}.{ch}", if len < TT_MIN { "short" } else { "long" }));
        if fmt == "tensor_train" {
            let (cos, rel) = cosine_and_rel(&ob, &gb);
            if cos.is_finite() && ob.iter().all(|b| f32::from_bits(*b).is_finite()) {
                worst_cos = worst_cos.min(cos);
                worst_rel = worst_rel.max(rel);
                let e = by_kind.entry(vk).or_insert((1.0f64, 0.0f64, 0u32));
                e.0 = e.0.min(cos);
                e.1 = e.1.max(rel);
                e.2 += 1;
            }
        }
        let class = match ch {
            "small_zeroed" if len < TT_MIN => Some("tensor_store.embedding_slab.snapshot/short_vector_small_entries_zeroed"),
            "nan_zeroed" if len < TT_MIN => Some("tensor_store.embedding_slab.snapshot/short_vector_nan_zeroed"),
            "other" => Some("tensor_store.embedding_slab.snapshot/vector_not_restored"),
            "outside_tol" => Some("tensor_store.embedding_slab.snapshot/long_vector_outside_tolerance"),
            _ => None,
        };
        if let Some(c) = class {
            let n = reported.entry(c.to_string()).or_insert(0);
            *n += 1;
            if *n <= 2 {
                rep.violation(c, "CompressedEmbedding::from_dense(v).to_dense() differs from v", json!({"len": len, "vector_bits": nats(&ob), "restored_bits": nats(&gb), "form": fmt}));
            }
        }
        let obt = nats(&ob);
        rep.case("emb", if len >= 2 { Some(&obt) } else { None });
        if i == 3 {
            rep.sample(json!({"stream":"emb","len":len,"form":fmt,"change":ch}));
        }
    }
    rep.note(&format!("tensor-train form, finite vectors, per generator kind (worst cosine, worst relative L2 error, count): {by_kind:?}"));
    rep.note(&format!("tensor-train embedding form over generated vectors: worst cosine {worst_cos:.4}, worst relative L2 error {worst_rel:.4} (oracle tolerance: cosine >= {COS_TOL})"));
}

// ------------------------------------------------------------------ stream: quantising format, per value

fn qconfig(tt_dim: Option<usize>, delta: bool) -> CompressionConfig {
    CompressionConfig {
        tensor_mode: tt_dim.and_then(|d| TensorMode::try_tensor_train(d).ok()),
        delta_encoding: delta,
        rle_encoding: true,
    }
}

/// save one (key, field, value) through the real quantising format; returns (compressed value as stored, value read back)
fn q_roundtrip(path: &Path, key: &str, field: &str, v: &TensorValue, cfg: &CompressionConfig) -> Result<(String, String), String> {
    let store = TensorStore::new();
    let mut d = TensorData::new();
    d.set(field.to_string(), v.clone());
    store.put(key, d).map_err(|e| format!("put: {e}"))?;
    store.save_snapshot_compressed(path, cfg.clone()).map_err(|e| format!("save: {e}"))?;
    let bytes = std::fs::read(path).map_err(|e| e.to_string())?;
    let snap: CompressedSnapshot = bitcode::deserialize(&bytes).map_err(|e| format!("decode: {e}"))?;
    let c = snap
        .entries
        .iter()
        .find(|e| e.key == key)
        .and_then(|e| e.fields.get(field))
        .map(enc_cvalue)
        .unwrap_or_else(|| "missing".into());
    let loaded = TensorStore::load_snapshot_compressed(path).map_err(|e| format!("load: {e}"))?;
    let t = match loaded.get(key) {
        Ok(d) => d.get(field).map(enc_value).unwrap_or_else(|| "missing-field".into()),
        Err(_) => "missing-key".into(),
    };
    Ok((c, t))
}

fn stream_values(rep: &mut Report, m: &mut Model, root: &Rng, scale: u64, sc: &mut Scratch) {
    let mut r = root.fork("values");
    let path = sc.fresh("q.bin");
    let mut reported: BTreeMap<String, u32> = BTreeMap::new();
    for i in 0..1800 * scale as usize {
        let (key, kc) = gen_key(&mut r, i);
        let field = gen_field(&mut r);
        let (v, kind) = gen_value(&mut r);
        let delta = r.chance(2, 3);
        let vlen = match &v {
            TensorValue::Vector(x) => x.len(),
            TensorValue::Sparse(s) => s.dimension(),
            _ => 0,
        };
        let is_emb = key.starts_with("emb:") || field == "_embedding" || field == "vector";
        // a TT mode only with a shape matching the vector (otherwise the whole save fails, see below)
        let tt_dim = if is_emb && vlen >= 8 && r.chance(1, 2) { Some(vlen) } else { None };
        let cfg = qconfig(tt_dim, delta);
        let tt = cfg.tensor_mode.is_some();
        let orig = enc_value(&v);
        let line = format!("cval {} {} {} {} {}", u8::from(tt), u8::from(delta), hexs(&key), hexs(&field), orig);
        let model = m.ask(&line);
        rep.hit(&format!("values.kind.{kind}"));
        rep.hit(&format!("values.key.{kc}"));
        match q_roundtrip(&path, &key, &field, &v, &cfg) {
            Err(e) => {
                rep.hit("values.real_error");
                if rep.observations.len() < 4 {
                    rep.observe(json!({"stream":"values","what":"quantising save/load returned an error for this entry","error": e, "key": key, "field": field, "value": orig.chars().take(80).collect::<String>()}));
                }
            }
            Ok((c, t)) => {
                let is_tt = c == "tt";
                let imp = if is_tt { "tt => vec:tt".to_string() } else { format!("{c} => {t}") };
                rep.compare("values.map", || json!({"line": line.chars().take(400).collect::<String>()}), &imp, &model);
                rep.hit(&format!("values.form.{}", c.split(':').next().unwrap_or("?")));
                // oracle: the value read back equals the value stored
                let class: Option<&str> = if is_tt {
                    let ob: Vec<u32> = match &v {
                        TensorValue::Vector(x) => bits32(x),
                        TensorValue::Sparse(s) => bits32(&s.to_dense()),
                        _ => vec![],
                    };
                    let gb: Vec<u32> = t.strip_prefix("vec:").map(|s| if s == "-" { vec![] } else { s.split(',').filter_map(|x| x.parse().ok()).collect() }).unwrap_or_default();
                    let (cos, _) = cosine_and_rel(&ob, &gb);
                    let finite = ob.iter().all(|b| f32::from_bits(*b).is_finite());
                    if matches!(v, TensorValue::Sparse(_)) {
                        Some("tensor_store.snapshot.compressed/sparse_becomes_dense")
                    } else if vlen < TT_MIN && ob != gb {
                        // the caller configured a TT mode whose shape fits this short vector: lossy by request
                        rep.hit("values.tt_short_not_bit_identical");
                        None
                    } else if finite && !(cos >= COS_TOL) && ob != gb {
                        Some("tensor_store.snapshot.compressed/vector_outside_tolerance")
                    } else {
                        None
                    }
                } else if t == orig {
                    None
                } else if c.starts_with("idlist") && t.replace(&format!("{}", 0x8000_0000u32), "0") == orig.replace(&format!("{}", 0x8000_0000u32), "0") {
                    // only -0.0 -> +0.0: equal values
                    rep.hit("values.idlist_negzero_only");
                    None
                } else {
                    Some(match (&v, c.split(':').next().unwrap_or("")) {
                        (TensorValue::Scalar(ScalarValue::Bytes(_)), _) => "tensor_store.snapshot.compressed/bytes_become_placeholder",
                        (TensorValue::Sparse(_), _) => "tensor_store.snapshot.compressed/sparse_becomes_dense",
                        (TensorValue::Vector(_), "idlist") => "tensor_store.snapshot.compressed/id_list_vector_not_bit_identical",
                        _ => "tensor_store.snapshot.compressed/value_not_restored",
                    })
                };
                if let Some(cl) = class {
                    rep.hit(&format!("values.violation.{}", cl.rsplit('/').next().unwrap_or("")));
                    let n = reported.entry(cl.to_string()).or_insert(0);
                    *n += 1;
                    if *n <= 2 {
                        rep.violation(cl, "value read back from the quantising snapshot differs from the value stored", json!({"key": key, "field": field, "config": {"tt_dim": tt_dim, "delta": delta}, "stored": orig.chars().take(300).collect::<String>(), "compressed_as": c.chars().take(120).collect::<String>(), "read_back": t.chars().take(300).collect::<String>()}));
                    }
                }
            }
        }
        rep.case("values", Some(&format!("{key}|{field}|{orig}")));
        if i < 2 {
            rep.sample(json!({"stream":"values","line":line.chars().take(200).collect::<String>(),"model":model.chars().take(200).collect::<String>()}));
        }
    }
    // directed: the design-time witness
    let (c, t) = q_roundtrip(&path, "user:1", "blob", &TensorValue::Scalar(ScalarValue::Bytes(vec![1, 2, 3])), &CompressionConfig::default()).unwrap_or_default();
    let model = m.ask(&format!("cval 0 0 {} {} bytes:010203", hexs("user:1"), hexs("blob")));
    rep.compare("values.map", || json!({"directed":"bytes [1,2,3]"}), &format!("{c} => {t}"), &model);
    if t != "bytes:010203" {
        rep.violation("tensor_store.snapshot.compressed/bytes_become_placeholder", "Bytes([1,2,3]) read back from the quantising snapshot", json!({"stored":"bytes:010203","read_back":t,"compressed_as":c}));
    }
    // directed: a sorted list of integral floats that does not fit u64 is taken for an id list and saturates
    let big = TensorValue::Vector(vec![1.0, 1e30]);
    let cfgd = qconfig(None, true);
    if let Ok((c, t)) = q_roundtrip(&path, "user:2", "weights", &big, &cfgd) {
        let model = m.ask(&format!("cval 0 1 {} {} {}", hexs("user:2"), hexs("weights"), enc_value(&big)));
        rep.compare("values.map", || json!({"directed":"[1.0, 1e30] in a field called weights"}), &format!("{c} => {t}"), &model);
        if t != enc_value(&big) {
            rep.violation("tensor_store.snapshot.compressed/id_list_vector_not_bit_identical", "a non-decreasing vector of integral floats beyond u64 is stored as an id list and saturates", json!({"key":"user:2","field":"weights","stored": enc_value(&big), "compressed_as": c, "read_back": t, "config": {"delta": true}}));
        }
    }
    // a TT mode whose shape does not match an embedding-classified vector makes the whole save fail
    let store = TensorStore::new();
    let mut d = TensorData::new();
    d.set("_embedding", TensorValue::Vector(vec![1.0, 2.0, 3.0]));
    store.put("emb:x", d).unwrap();
    if let Err(e) = store.save_snapshot_compressed(&path, CompressionConfig::balanced(64)) {
        rep.observe(json!({"what":"save_snapshot_compressed(balanced(64)) fails for a store holding a 3-dim embedding (TT shape mismatch); nothing is written","error": e.to_string()}));
    }
}

// ------------------------------------------------------------------ stream: load side of the quantising format on hand-built values

fn stream_c2t(rep: &mut Report, m: &mut Model, root: &Rng, scale: u64, sc: &mut Scratch) {
    let mut r = root.fork("c2t");
    let path = sc.fresh("c.bin");
    for _ in 0..250 * scale {
        let (cv, tag): (CompressedValue, &str) = match r.below(6) {
            5 => {
                let sc = match r.below(6) {
                    0 => CompressedScalar::Null,
                    1 => CompressedScalar::Bool(r.chance(1, 2)),
                    2 => CompressedScalar::Int(r.next_u64() as i64),
                    3 => CompressedScalar::Float(f64::from_bits(r.next_u64())),
                    4 => CompressedScalar::String(gen_string(&mut r)),
                    _ => {
                        let n = *r.pick(&[0usize, 1, 3, 40]);
                        CompressedScalar::Bytes(r.bytes(n))
                    }
                };
                (CompressedValue::Scalar(sc), "scalar")
            }
            0 => {
                let n = r.below(6) as usize;
                let vals: Vec<i64> = (0..n).map(|_| *r.pick(&[0i64, 1, -1, 7, 16_777_217, -16_777_219, i64::MAX, i64::MIN, 1 << 40])).collect();
                let k = r.below(6) as usize;
                let runs: Vec<u32> = (0..k).map(|_| r.below(4) as u32).collect();
                (CompressedValue::RleInt(RleEncoded { values: vals, run_lengths: runs }), "rle")
            }
            1 => {
                let n = r.below(6) as usize;
                let ids: Vec<u64> = (0..n).map(|_| *r.pick(&[0u64, 1, 5, 16_777_217, 33_554_434, u64::MAX, 1 << 40, (1 << 40) + 1, 0xffff_ff80_0000_0000])).collect();
                (CompressedValue::IdList(tensor_compress::compress_ids(&ids)), "idlist")
            }
            2 => {
                let n = r.below(10) as usize;
                (CompressedValue::IdList(r.bytes(n)), "idlist_garbage")
            }
            3 => {
                let dim = 1 + r.below(40) as usize;
                let pos: Vec<u64> = (0..dim as u64).filter(|_| r.chance(1, 3)).collect();
                let vals: Vec<f32> = pos.iter().map(|_| (1 + r.below(99)) as f32 / 8.0).collect();
                (CompressedValue::VectorSparse { dimension: dim, positions: tensor_compress::compress_ids(&pos), values: vals }, "vsparse")
            }
            _ => {
                let n = r.below(5) as usize;
                (CompressedValue::VectorRaw(gen_vec(&mut r, n)), "raw")
            }
        };
        let mut fields = BTreeMap::new();
        fields.insert("f".to_string(), cv.clone());
        let snap = CompressedSnapshot { header: CHeader::new(CompressionConfig::default(), 1), entries: vec![CompressedEntry { key: "k".into(), fields }] };
        std::fs::write(&path, bitcode::serialize(&snap).unwrap()).unwrap();
        let c = enc_cvalue(&cv);
        let real = match guarded(std::panic::AssertUnwindSafe(|| TensorStore::load_snapshot_compressed(&path))) {
            Ok(Ok(s)) => s.get("k").ok().and_then(|d| d.get("f").map(enc_value)).unwrap_or_else(|| "missing".into()),
            Ok(Err(_)) => "load-error".into(),
            Err(_) => "panic".into(),
        };
        let model = m.ask(&format!("c2t {c}"));
        rep.compare("c2t", || json!({"compressed": c}), &real, &model);
        rep.hit(&format!("c2t.{tag}"));
        rep.case("c2t", Some(&c));
    }
}

// ------------------------------------------------------------------ stream: header validation of the bytes format and of the quantising format

fn stream_validate(rep: &mut Report, m: &mut Model, root: &Rng, scale: u64, sc: &mut Scratch) {
    let mut r = root.fork("validate");
    let path = sc.fresh("h.bin");
    let router = SlabRouter::new();
    let mut d = TensorData::new();
    d.set("a", TensorValue::Scalar(ScalarValue::Int(1)));
    router.put("user:1", d).unwrap();
    for _ in 0..200 * scale {
        let mut magic = *b"NEUM";
        if r.chance(1, 3) {
            let k = r.below(32) as usize;
            magic[k / 8] ^= 1 << (k % 8);
        }
        let version: u32 = match r.below(6) {
            0 => 2,
            1 => 4,
            2 => 0,
            3 => r.next_u64() as u32,
            _ => 3,
        };
        // bytes format: bitcode(V3Snapshot) then validate
        let v3 = V3Snapshot {
            header: SnapshotHeader { magic, version, flags: r.next_u64() as u32, entry_count: r.next_u64() },
            router: router.snapshot(),
            hnsw: None,
            voronoi: None,
        };
        let bytes = bitcode::serialize(&v3).unwrap();
        let real = match SlabRouter::from_bytes(&bytes) {
            Ok(rt) => {
                if keyview(&rt) != keyview(&router) {
                    rep.violation("tensor_store.snapshot.bytes/metadata_not_restored", "from_bytes returned different content", json!({}));
                }
                "ok".to_string()
            }
            Err(e) => fmt_err(&e),
        };
        let line = format!("validate {} {} {} {} {version}", magic[0], magic[1], magic[2], magic[3]);
        rep.compare("validate.bytes", || json!({"line": line}), &real, &m.ask(&line));
        rep.hit(&format!("validate.bytes.{}", real.split(':').next().unwrap_or("")));
        // quantising format
        let cver: u16 = match r.below(6) {
            0 => 0,
            1 => 2,
            2 => 4,
            3 => r.next_u64() as u16,
            _ => 3,
        };
        let snap = CompressedSnapshot { header: CHeader { magic, version: cver, config: CompressionConfig::default(), entry_count: r.next_u64() }, entries: vec![] };
        std::fs::write(&path, bitcode::serialize(&snap).unwrap()).unwrap();
        let real = match TensorStore::load_snapshot_compressed(&path) {
            Ok(_) => "ok".to_string(),
            Err(e) => {
                let s = e.to_string();
                if s.contains("invalid magic") {
                    "invalid_magic".into()
                } else if s.contains("unsupported version") {
                    format!("unsupported:{cver}")
                } else {
                    "other".into()
                }
            }
        };
        let line = format!("validate_c {} {} {} {} {cver}", magic[0], magic[1], magic[2], magic[3]);
        rep.compare("validate.quantising", || json!({"line": line}), &real, &m.ask(&line));
        rep.hit(&format!("validate.quantising.{}", real.split(':').next().unwrap_or("")));
        rep.case("validate", Some(&line));
    }
}

// ------------------------------------------------------------------ building stores

struct Built {
    store: TensorStore,
    side: Side,
    desc: J,
}

/// a store with `n` generic entries of every key class / value kind, plus (when `engines`) data put
/// through the real engines and directly into the slabs that have no key routing
fn build_store(seed: u64, n: usize, engines: bool) -> Built {
    let mut r = Rng::new(seed).fork("store");
    let store = TensorStore::new();
    let mut side = Side::default();
    for i in 0..n {
        let (key, _) = gen_key(&mut r, i);
        let mut d = TensorData::new();
        let nf = 1 + r.below(4);
        for _ in 0..nf {
            let f = gen_field(&mut r);
            let (v, _) = gen_value(&mut r);
            // keep bulk stores light: long vectors only now and then
            let v = match v {
                TensorValue::Vector(x) if x.len() > 64 && n > 200 && !r.chance(1, 20) => TensorValue::Vector(x[..8].to_vec()),
                o => o,
            };
            d.set(f, v);
        }
        if key.starts_with("emb:") {
            let e = match r.below(5) {
                0 => gen_vec(&mut r, 384),
                1 => (0..384).map(|j| if j % 5 == 0 { (j as f32) / 7.0 } else { 0.0 }).collect(),
                2 => (0..384).map(|j| ((j * 37 % 101) as f32) / 50.0 - 1.0).collect(),
                3 => gen_vec(&mut r, 16),
                _ => (0..384).map(|j| (j as f32) * 0.01).collect(),
            };
            d.set("_embedding", TensorValue::Vector(e));
        }
        let _ = store.put(&key, d);
    }
    let mut desc = json!({"seed": seed, "generic_entries": n, "engines": engines});
    if engines {
        // relational table + schema through the real engine
        use relational_engine::{Column, ColumnType, RelationalEngine, Schema, Value};
        let rel = RelationalEngine::with_store(store.clone());
        let cols = vec![
            Column::new("id", ColumnType::Int),
            Column::new("name", ColumnType::String).nullable(),
            Column::new("score", ColumnType::Float).nullable(),
            Column::new("ok", ColumnType::Bool).nullable(),
            Column::new("raw", ColumnType::Bytes).nullable(),
        ];
        let _ = rel.create_table("people", Schema::new(cols));
        let rows = 3 + r.below(12) as i64;
        for i in 0..rows {
            let mut row = HashMap::new();
            row.insert("id".to_string(), Value::Int(if i == 0 { i64::MIN } else { i }));
            row.insert("name".to_string(), if i % 4 == 1 { Value::Null } else { Value::String(gen_string(&mut r)) });
            row.insert("score".to_string(), Value::Float(*r.pick(&[f64::NAN, -0.0, 1.5, f64::INFINITY, 1e-300])));
            row.insert("ok".to_string(), if i % 3 == 0 { Value::Null } else { Value::Bool(i % 2 == 0) });
            row.insert("raw".to_string(), Value::Bytes(r.bytes(i as usize % 5)));
            let _ = rel.insert("people", row);
        }
        let _ = rel.create_table("empty_t", Schema::new(vec![Column::new("x", ColumnType::Int)]));
        // graph nodes / edges through the real engine
        use graph_engine::{GraphEngine, PropertyValue};
        let g = GraphEngine::with_store(store.clone());
        let mut ids = vec![];
        for i in 0..4 {
            let mut p = HashMap::new();
            p.insert("n".to_string(), PropertyValue::Int(i));
            p.insert("s".to_string(), PropertyValue::String(gen_string(&mut r)));
            if let Ok(id) = g.create_node("person", p) {
                ids.push(id);
            }
        }
        for w in ids.windows(2) {
            let mut p = HashMap::new();
            p.insert("w".to_string(), PropertyValue::Float(0.25));
            let _ = g.create_edge(w[0], w[1], "knows", p, r.chance(1, 2));
        }
        // embeddings through the vector engine (default dimension 384 >= TT threshold, and a short one)
        let ve = vector_engine::VectorEngine::with_store(store.clone());
        let _ = ve.store_embedding("doc_long", (0..384).map(|j| ((j % 13) as f32) * 0.1 + 0.05).collect());
        let _ = ve.store_embedding("doc_short", vec![0.5, -1.25, 3.0, 5e-7]);
        // slabs without key routing: blob log and graph tensor
        let rt = store.router();
        for i in 0..3 {
            let data = r.bytes(10 + 500 * i);
            side.blob_hashes.push(rt.blobs.append(&data));
        }
        let e = rt.graph.add_edge(EntityId::new(1), EntityId::new(2), "links", true);
        rt.graph.add_edge(EntityId::new(2), EntityId::new(3), "links", false);
        let mut ed = TensorData::new();
        ed.set("weight", TensorValue::Scalar(ScalarValue::Float(0.5)));
        rt.graph.set_edge_data(e, ed);
        side.graph_nodes = vec![1, 2, 3];
        // a table with a history, straight on the relational slab: deleted rows (alive bitmap), an updated
        // row, an index created before and after inserts, an added and a dropped column, a dropped table
        {
            use tensor_store::{ColumnDef, ColumnType as CT, ColumnValue as CV, RowId, TableSchema};
            let rel = &rt.relations;
            let schema = TableSchema::new(vec![
                ColumnDef::new("id", CT::Int, false),
                ColumnDef::new("name", CT::String, true),
                ColumnDef::new("score", CT::Float, true),
                ColumnDef::new("ok", CT::Bool, true),
                ColumnDef::new("raw", CT::Bytes, true),
                ColumnDef::new("doc", CT::Json, true),
            ])
            .with_primary_key("id");
            let _ = rel.create_table("history_t", schema);
            let _ = rel.create_index("history_t", "id");
            let n = 4 + r.below(8) as i64;
            for i in 0..n {
                let _ = rel.insert(
                    "history_t",
                    vec![
                        CV::Int(if i == 0 { i64::MIN } else { i % 4 }),
                        if i % 3 == 0 { CV::Null } else { CV::String(gen_string(&mut r).chars().take(40).collect()) },
                        CV::Float(*r.pick(&[f64::NAN, -0.0, 2.5, f64::NEG_INFINITY])),
                        if i % 2 == 0 { CV::Bool(true) } else { CV::Null },
                        CV::Bytes(r.bytes(i as usize % 4)),
                        if i % 5 == 0 { CV::Null } else { CV::Json(format!("{{\"i\":{i}}}")) },
                    ],
                );
            }
            let _ = rel.delete("history_t", RowId::new(1));
            let _ = rel.delete("history_t", RowId::new(n as u64 - 1));
            let _ = rel.update_row("history_t", RowId::new(2), &[("name".to_string(), CV::Null), ("id".to_string(), CV::Int(7))]);
            let _ = rel.add_column("history_t", ColumnDef::new("extra", CT::Int, true), Some(&CV::Int(9)));
            let _ = rel.drop_column("history_t", "ok");
            let _ = rel.insert("history_t", vec![CV::Int(3), CV::String("late".into()), CV::Float(1.0), CV::Bytes(vec![]), CV::Null, CV::Null]);
            let _ = rel.create_table("dropped_t", TableSchema::new(vec![ColumnDef::new("x", CT::Int, false)]));
            let _ = rel.insert("dropped_t", vec![CV::Int(1)]);
            let _ = rel.drop_table("dropped_t");
        }
        desc["tables"] = json!(rt.relations.table_names());
    }
    Built { store, side, desc }
}

/// a router with a small embedding dimension holding `n` embeddings of that dimension
fn build_small_dim_router(seed: u64, dim: usize, n: usize) -> SlabRouter {
    let mut r = Rng::new(seed).fork("smalldim");
    let cfg = SlabRouterConfig { embedding_dim: dim, ..SlabRouterConfig::default() };
    let rt = SlabRouter::with_config(&cfg);
    for i in 0..n {
        let mut d = TensorData::new();
        d.set("_embedding", TensorValue::Vector(gen_vec(&mut r, dim)));
        d.set("tag", TensorValue::Scalar(ScalarValue::Int(i as i64)));
        let _ = rt.put(&format!("emb:s{i}"), d);
    }
    rt
}

// ------------------------------------------------------------------ comparing views

/// per-slab differences between the saved and the loaded router; `(slab, kind, detail)`
fn diff_views(a: &View, b: &View) -> Vec<(String, J)> {
    let mut out: Vec<(String, J)> = vec![];
    fn first_diff<K: Ord + Clone + std::fmt::Debug, V: PartialEq + std::fmt::Debug>(a: &BTreeMap<K, V>, b: &BTreeMap<K, V>) -> Option<J> {
        for (k, v) in a {
            match b.get(k) {
                None => return Some(json!({"key": format!("{k:?}"), "saved": format!("{v:?}").chars().take(300).collect::<String>(), "loaded": "absent"})),
                Some(w) if w != v => {
                    return Some(json!({"key": format!("{k:?}"), "saved": format!("{v:?}").chars().take(300).collect::<String>(), "loaded": format!("{w:?}").chars().take(300).collect::<String>()}))
                }
                _ => {}
            }
        }
        for (k, w) in b {
            if !a.contains_key(k) {
                return Some(json!({"key": format!("{k:?}"), "saved": "absent", "loaded": format!("{w:?}").chars().take(300).collect::<String>()}));
            }
        }
        None
    }
    // metadata: the `_embedding` field of emb: keys is stored in full in the metadata slab too, compared exactly
    if let Some(d) = first_diff(&a.metadata, &b.metadata) {
        out.push(("metadata_not_restored".into(), d));
    }
    if let Some(d) = first_diff(&a.index, &b.index) {
        out.push(("entity_index_not_restored".into(), d));
    }
    if a.emb_dim != b.emb_dim {
        out.push(("embedding_dimension_not_restored".into(), json!({"saved": a.emb_dim, "loaded": b.emb_dim})));
    }
    for (id, ov) in &a.embeddings {
        match b.embeddings.get(id) {
            None => out.push(("embedding_slab_not_restored".into(), json!({"entity": id, "loaded": "absent"}))),
            Some(gv) => {
                let kind = match emb_change(ov, gv) {
                    "same" | "negzero" | "within_tol" | "nonfinite_long" => continue,
                    "small_zeroed" | "nan_zeroed" if ov.len() >= TT_MIN => continue,
                    "small_zeroed" => "embedding_short_vector_small_entries_zeroed",
                    "nan_zeroed" => "embedding_short_vector_nan_zeroed",
                    "outside_tol" => "embedding_long_vector_outside_tolerance",
                    _ => "embedding_slab_not_restored",
                };
                if !out.iter().any(|(k, _)| k == kind) {
                    out.push((kind.into(), json!({"entity": id, "len": ov.len(), "saved_bits": nats(ov).chars().take(400).collect::<String>(), "loaded_bits": nats(gv).chars().take(400).collect::<String>()})));
                }
            }
        }
    }
    for id in b.embeddings.keys() {
        if !a.embeddings.contains_key(id) {
            out.push(("embedding_slab_not_restored".into(), json!({"entity": id, "saved": "absent"})));
            break;
        }
    }
    if let Some(d) = first_diff(&a.tables, &b.tables) {
        out.push(("relational_slab_not_restored".into(), d));
    } else if let Some(d) = first_diff(&a.rel_extra, &b.rel_extra) {
        out.push(("relational_slab_not_restored".into(), d));
    }
    if a.blobs != b.blobs || a.blob_counts != b.blob_counts {
        out.push(("blob_log_not_restored".into(), json!({"saved_counts": [a.blob_counts.0, a.blob_counts.1], "loaded_counts": [b.blob_counts.0, b.blob_counts.1]})));
    }
    if a.graph != b.graph || a.graph_edges != b.graph_edges {
        out.push(("graph_tensor_not_restored".into(), json!({"saved_edges": a.graph_edges, "loaded_edges": b.graph_edges})));
    }
    if let Some(d) = first_diff(&a.cache, &b.cache) {
        out.push(("cache_not_restored".into(), d));
    }
    out
}

// ------------------------------------------------------------------ stream: whole stores through every format

#[derive(Clone, Copy, PartialEq)]
enum Fmt {
    FileZstd,
    FilePlain,
    Bytes,
}
impl Fmt {
    fn name(self) -> &'static str {
        match self {
            Fmt::FileZstd => "file_zstd",
            Fmt::FilePlain => "file_plain",
            Fmt::Bytes => "bytes",
        }
    }
}

fn save_load(rt: &SlabRouter, fmt: Fmt, path: &Path) -> Result<(SlabRouter, Vec<u8>), String> {
    match fmt {
        Fmt::FileZstd => {
            snapshot::save_v3(rt, path).map_err(|e| format!("save: {e}"))?;
            let b = std::fs::read(path).map_err(|e| e.to_string())?;
            Ok((snapshot::load(path).map_err(|e| format!("load: {e}"))?, b))
        }
        Fmt::FilePlain => {
            snapshot::save_v3_uncompressed(rt, path).map_err(|e| format!("save: {e}"))?;
            let b = std::fs::read(path).map_err(|e| e.to_string())?;
            Ok((snapshot::load(path).map_err(|e| format!("load: {e}"))?, b))
        }
        Fmt::Bytes => {
            let b = rt.to_bytes().map_err(|e| format!("to_bytes: {e}"))?;
            Ok((SlabRouter::from_bytes(&b).map_err(|e| format!("from_bytes: {e}"))?, b))
        }
    }
}

/// the embedding slab's snapshot form is shared by every v3 format: one class per defect, not per format
fn class_for(site: &str, kind: &str) -> String {
    match kind {
        "embedding_short_vector_small_entries_zeroed" => "tensor_store.embedding_slab.snapshot/short_vector_small_entries_zeroed".into(),
        "embedding_short_vector_nan_zeroed" => "tensor_store.embedding_slab.snapshot/short_vector_nan_zeroed".into(),
        "embedding_long_vector_outside_tolerance" => "tensor_store.embedding_slab.snapshot/long_vector_outside_tolerance".into(),
        _ => format!("{site}/{kind}"),
    }
}

struct Seen(BTreeMap<String, u32>);
impl Seen {
    fn violation(&mut self, rep: &mut Report, class: &str, what: &str, input: J) {
        let n = self.0.entry(class.to_string()).or_insert(0);
        *n += 1;
        rep.hit(&format!("violation.{class}"));
        if *n <= 2 {
            rep.violation(class, what, input);
        }
    }
}

fn check_roundtrip(rep: &mut Report, m: &mut Model, seen: &mut Seen, rt: &SlabRouter, side: &Side, desc: &J, sc: &mut Scratch, label: &str) {
    let before = view(rt, side);
    let kv_before = keyview(rt);
    for fmt in [Fmt::FileZstd, Fmt::FilePlain, Fmt::Bytes] {
        let path = sc.fresh("snap.bin");
        rep.hit(&format!("stores.{label}.{}", fmt.name()));
        match save_load(rt, fmt, &path) {
            Err(e) => seen.violation(rep, &format!("tensor_store.snapshot.{}/save_or_load_failed", fmt.name()), &e, desc.clone()),
            Ok((loaded, bytes)) => {
                let after = view(&loaded, side);
                for (kind, detail) in diff_views(&before, &after) {
                    seen.violation(
                        rep,
                        &class_for(&format!("tensor_store.snapshot.{}", fmt.name()), &kind),
                        "a slab of the loaded store differs from the saved store",
                        json!({"store": desc, "format": fmt.name(), "difference": detail}),
                    );
                }
                // user-level: every scanned key, what `get` returns (embedding vectors come from the slab: tolerance)
                let kv_after = keyview(&loaded);
                if kv_after.len() != kv_before.len() || kv_before.keys().any(|k| !kv_after.contains_key(k)) {
                    seen.violation(rep, &format!("tensor_store.snapshot.{}/key_set_not_restored", fmt.name()), "scan(\"\") differs", json!({"store": desc, "saved_keys": kv_before.len(), "loaded_keys": kv_after.len()}));
                }
                if fmt != Fmt::Bytes {
                    // header correspondence: the first 20 bytes are the model's encoding of new/new_compressed(count)
                    let count = (rt.len() + rt.index.len()) as u64;
                    let flags = u8::from(fmt == Fmt::FileZstd);
                    let want = m.ask(&format!("hdr_enc 78 69 85 77 3 {flags} {count}"));
                    rep.compare("header.encode", || json!({"flags": flags, "count": count}), &hex(&bytes[..20.min(bytes.len())]), &want);
                    let dec = m.ask(&format!("hdr_dec {}", hex(&bytes[..24.min(bytes.len())])));
                    let imp = format!("78,69,85,77 3 {flags} {count} ok c{flags} rest={}", 24.min(bytes.len()) - 20);
                    rep.compare("header.decode", || json!({"file_prefix": hex(&bytes[..24.min(bytes.len())])}), &imp, &dec);
                    let route = m.ask(&format!("route {}", hex(&bytes[..24.min(bytes.len())])));
                    rep.compare("header.route", || json!({"fmt": fmt.name()}), if fmt == Fmt::FileZstd { "v3_zstd" } else { "v3_plain" }, &route);
                }
                rep.hit_n(&format!("stores.bytes.{}", fmt.name()), bytes.len() as u64);
            }
        }
    }
    rep.case("stores", Some(&format!("{label}|{desc}")));
}

fn stream_stores(rep: &mut Report, m: &mut Model, root: &Rng, thorough: bool, sc: &mut Scratch) {
    let mut r = root.fork("stores");
    let mut seen = Seen(BTreeMap::new());
    let sizes: Vec<usize> = if thorough { vec![0, 1, 2, 7, 40, 300, 2000, 20000, 50000] } else { vec![0, 1, 2, 7, 40, 300, 3000] };
    for (i, n) in sizes.iter().enumerate() {
        let seed = r.next_u64();
        let b = build_store(seed, *n, i % 2 == 1 || *n == 40);
        check_roundtrip(rep, m, &mut seen, b.store.router(), &b.side, &b.desc, sc, &format!("n{n}"));
        if i == 2 {
            rep.sample(json!({"stream":"stores","store": b.desc, "keys": b.store.router().scan("").len()}));
        }
    }
    // more small random stores with engines, different seeds
    for _ in 0..(if thorough { 40 } else { 8 }) {
        let seed = r.next_u64();
        let n = r.below(60) as usize;
        let b = build_store(seed, n, r.chance(1, 2));
        check_roundtrip(rep, m, &mut seen, b.store.router(), &b.side, &b.desc, sc, "random");
    }
    // routers with a small embedding dimension: the below-threshold clause
    for dim in [4usize, 8, 16, 32, 255, 256, 384] {
        let seed = r.next_u64();
        let rt = build_small_dim_router(seed, dim, if dim < 100 { 60 } else { 12 });
        let desc = json!({"router": "small embedding_dim", "embedding_dim": dim, "seed": seed});
        check_roundtrip(rep, m, &mut seen, &rt, &Side::default(), &desc, sc, &format!("dim{dim}"));
    }
    // TensorStore-level API: save_snapshot / load_snapshot and snapshot_bytes / restore_from_bytes
    let b = build_store(r.next_u64(), 30, true);
    let before = view(b.store.router(), &b.side);
    let p = sc.fresh("store.bin");
    match b.store.save_snapshot(&p).map_err(|e| e.to_string()).and_then(|()| TensorStore::load_snapshot(&p).map_err(|e| e.to_string())) {
        Err(e) => seen.violation(rep, "tensor_store.save_snapshot/save_or_load_failed", &e, b.desc.clone()),
        Ok(l) => {
            for (kind, detail) in diff_views(&before, &view(l.router(), &b.side)) {
                seen.violation(rep, &class_for("tensor_store.save_snapshot", &kind), "TensorStore::load_snapshot(save_snapshot) differs", json!({"store": b.desc, "difference": detail}));
            }
        }
    }
    match b.store.snapshot_bytes() {
        Err(e) => seen.violation(rep, "tensor_store.snapshot_bytes/failed", &e.to_string(), b.desc.clone()),
        Ok(bytes) => {
            let fresh = TensorStore::new();
            match fresh.restore_from_bytes(&bytes) {
                Err(e) => seen.violation(rep, "tensor_store.restore_from_bytes/failed", &e.to_string(), b.desc.clone()),
                Ok(()) => {
                    // entity ids are re-assigned by restore_from_bytes (it re-puts every key): compare by key
                    let mut a = before.clone();
                    let mut c = view(fresh.router(), &b.side);
                    a.index.clear();
                    c.index.clear();
                    a.embeddings.clear();
                    c.embeddings.clear();
                    for (kind, detail) in diff_views(&a, &c) {
                        seen.violation(rep, &class_for("tensor_store.restore_from_bytes", &kind), "restore_from_bytes(snapshot_bytes()) into a fresh store differs", json!({"store": b.desc, "difference": detail}));
                    }
                }
            }
        }
    }
    // whole stores through the quantising format: which slabs and keys come back
    for tt in [false, true] {
        let b = build_store(r.next_u64(), 25, true);
        let before = view(b.store.router(), &b.side);
        let kv = keyview(b.store.router());
        let p = sc.fresh("q.bin");
        let cfg = if tt { CompressionConfig::balanced(384) } else { CompressionConfig::default() };
        match b.store.save_snapshot_compressed(&p, cfg).map_err(|e| e.to_string()).and_then(|()| TensorStore::load_snapshot_compressed(&p).map_err(|e| e.to_string())) {
            Err(e) => {
                rep.hit("qstore.save_failed");
                rep.observe(json!({"what":"quantising save of an engine-populated store failed","tt": tt,"error": e}));
            }
            Ok(l) => {
                let after = view(l.router(), &b.side);
                let kv2 = keyview(l.router());
                if before.tables != after.tables {
                    seen.violation(rep, "tensor_store.snapshot.compressed/relational_slab_not_restored", "tables/rows/schemas of the relational slab are absent after load_snapshot_compressed", json!({"store": b.desc, "saved_tables": before.tables.keys().collect::<Vec<_>>(), "loaded_tables": after.tables.keys().collect::<Vec<_>>()}));
                }
                if before.blobs != after.blobs {
                    seen.violation(rep, "tensor_store.snapshot.compressed/blob_log_not_restored", "blob log chunks are absent after load_snapshot_compressed", json!({"store": b.desc, "saved_chunks": before.blob_counts.0, "loaded_chunks": after.blob_counts.0}));
                }
                if before.graph != after.graph {
                    seen.violation(rep, "tensor_store.snapshot.compressed/graph_tensor_not_restored", "graph tensor edges are absent after load_snapshot_compressed", json!({"store": b.desc, "saved_edges": before.graph_edges, "loaded_edges": after.graph_edges}));
                }
                let missing: Vec<&String> = kv.keys().filter(|k| !kv2.contains_key(*k)).collect();
                if !missing.is_empty() {
                    seen.violation(rep, "tensor_store.snapshot.compressed/key_set_not_restored", "keys missing after load_snapshot_compressed", json!({"store": b.desc, "missing": missing.iter().take(5).collect::<Vec<_>>()}));
                }
                rep.hit(if tt { "qstore.tt" } else { "qstore.plain" });
            }
        }
        rep.case("qstore", Some(&b.desc.to_string()));
    }
}

// ------------------------------------------------------------------ stream: directed reproductions (run first)

/// Minimal hand-built stores for the defects that are still in the code (known findings) and for the
/// ones that were fixed (regression cases). Independent of the seed.
fn stream_directed(rep: &mut Report, m: &mut Model, sc: &mut Scratch) {
    let mut seen = Seen(BTreeMap::new());
    // --- one table with one row, one blob chunk, one graph edge, one plain key
    let store = TensorStore::new();
    let mut side = Side::default();
    {
        use relational_engine::{Column, ColumnType, RelationalEngine, Schema, Value};
        let rel = RelationalEngine::with_store(store.clone());
        let _ = rel.create_table("t", Schema::new(vec![Column::new("id", ColumnType::Int)]));
        let mut row = HashMap::new();
        row.insert("id".to_string(), Value::Int(7));
        let _ = rel.insert("t", row);
        let rt = store.router();
        side.blob_hashes.push(rt.blobs.append(b"one chunk of blob data"));
        rt.graph.add_edge(EntityId::new(1), EntityId::new(2), "links", true);
        side.graph_nodes = vec![1, 2];
        let mut d = TensorData::new();
        d.set("a", TensorValue::Scalar(ScalarValue::Int(1)));
        store.put("user:1", d).unwrap();
    }
    let desc = json!({"directed": "one table t(id) with one row, one blob chunk, one graph-tensor edge 1->2, key user:1"});
    let before = view(store.router(), &side);
    // quantising format
    let p = sc.fresh("directed.q");
    match store.save_snapshot_compressed(&p, CompressionConfig::default()).map_err(|e| e.to_string()).and_then(|()| TensorStore::load_snapshot_compressed(&p).map_err(|e| e.to_string())) {
        Err(e) => seen.violation(rep, "tensor_store.snapshot.compressed/save_or_load_failed", &e, desc.clone()),
        Ok(l) => {
            let after = view(l.router(), &side);
            if before.tables != after.tables {
                seen.violation(rep, "tensor_store.snapshot.compressed/relational_slab_not_restored", "tables/rows/schemas of the relational slab are absent after load_snapshot_compressed", json!({"store": desc, "saved_tables": before.tables.keys().collect::<Vec<_>>(), "loaded_tables": after.tables.keys().collect::<Vec<_>>()}));
            }
            if before.blobs != after.blobs {
                seen.violation(rep, "tensor_store.snapshot.compressed/blob_log_not_restored", "blob log chunks are absent after load_snapshot_compressed", json!({"store": desc, "saved_chunks": before.blob_counts.0, "loaded_chunks": after.blob_counts.0}));
            }
            if before.graph != after.graph {
                seen.violation(rep, "tensor_store.snapshot.compressed/graph_tensor_not_restored", "graph tensor edges are absent after load_snapshot_compressed", json!({"store": desc, "saved_edges": before.graph_edges, "loaded_edges": after.graph_edges}));
            }
            if keyview(l.router()) != keyview(store.router()) {
                seen.violation(rep, "tensor_store.snapshot.compressed/key_set_not_restored", "keys or values differ after load_snapshot_compressed", desc.clone());
            }
        }
    }
    rep.case("directed", Some("quantising: table + blob + graph edge"));
    // the three v3 formats keep all of it
    check_roundtrip(rep, m, &mut seen, store.router(), &side, &desc, sc, "directed");
    // bytes path of the store API
    let restore_diff = |store: &TensorStore, side: &Side| -> Result<Vec<(String, J)>, String> {
        let bytes = store.snapshot_bytes().map_err(|e| format!("snapshot_bytes: {e}"))?;
        let fresh = TensorStore::new();
        fresh.restore_from_bytes(&bytes).map_err(|e| format!("restore_from_bytes: {e}"))?;
        // entity ids are re-assigned by restore_from_bytes (it re-puts every key): compare by key
        let mut a = view(store.router(), side);
        let mut c = view(fresh.router(), side);
        a.index.clear();
        c.index.clear();
        a.embeddings.clear();
        c.embeddings.clear();
        Ok(diff_views(&a, &c))
    };
    match restore_diff(&store, &side) {
        Err(e) => seen.violation(rep, "tensor_store.restore_from_bytes/failed", &e, desc.clone()),
        Ok(diffs) => {
            for (kind, detail) in diffs {
                seen.violation(rep, &class_for("tensor_store.restore_from_bytes", &kind), "restore_from_bytes(snapshot_bytes()) into a fresh store differs", json!({"store": desc, "difference": detail}));
            }
        }
    }
    rep.case("directed", Some("restore_from_bytes: table + blob + graph edge"));
    // --- a dense pseudo-random 384-dim embedding: tensor-train form in every v3 snapshot
    let mut r = Rng::new(0xC07).fork("directed");
    let mut outside = false;
    for attempt in 0..40 {
        if outside && attempt >= 4 {
            break;
        }
        let len = if attempt % 2 == 0 { 384 } else { 768 };
        let v = gen_vec_kind(&mut r, len, 5);
        let ce = CompressedEmbedding::from_dense(&v);
        let back = ce.to_dense();
        let (ob, gb) = (bits32(&v), bits32(&back));
        let ch = emb_change(&ob, &gb);
        rep.hit(&format!("directed.emb{len}.{}.{ch}", ce.format_name()));
        let (cos, rel) = cosine_and_rel(&ob, &gb);
        if ch == "outside_tol" && !outside {
            outside = true;
            seen.violation(rep, "tensor_store.embedding_slab.snapshot/long_vector_outside_tolerance", "CompressedEmbedding::from_dense(v).to_dense() differs from v", json!({"directed": "uniform pseudo-random dense vector, entries in [-2, 2]", "len": len, "attempt": attempt, "cosine": cos, "relative_l2_error": rel, "form": ce.format_name(), "vector_bits": nats(&ob).chars().take(400).collect::<String>()}));
        }
        // the same vector under an emb: key through restore_from_bytes: the exact metadata copy is
        // overwritten by the reconstructed vector
        if attempt == 0 {
            let st = TensorStore::new();
            let mut d = TensorData::new();
            d.set("_embedding", TensorValue::Vector(v.clone()));
            d.set("tag", TensorValue::Scalar(ScalarValue::Int(1)));
            st.put("emb:d1", d).unwrap();
            let edesc = json!({"directed": "key emb:d1 with a dense pseudo-random 384-dim _embedding and an int field"});
            match restore_diff(&st, &Side::default()) {
                Err(e) => seen.violation(rep, "tensor_store.restore_from_bytes/failed", &e, edesc.clone()),
                Ok(diffs) => {
                    for (kind, detail) in diffs {
                        seen.violation(rep, &class_for("tensor_store.restore_from_bytes", &kind), "restore_from_bytes(snapshot_bytes()) into a fresh store differs", json!({"store": edesc, "difference": detail}));
                    }
                }
            }
            check_roundtrip(rep, m, &mut seen, st.router(), &Side::default(), &edesc, sc, "directed_emb");
        }
        rep.case("directed", Some(&format!("emb{len}|{attempt}")));
    }
    // --- blob log: a chunk marked garbage (known finding: the marks are not part of the snapshot)
    {
        let rt = SlabRouter::new();
        let h = rt.blobs.append(b"abc");
        rt.blobs.mark_garbage(&h);
        let p = sc.fresh("blob.snap");
        match save_load(&rt, Fmt::Bytes, &p) {
            Err(e) => seen.violation(rep, "tensor_store.snapshot.bytes/save_or_load_failed", &e, json!({"directed": "blob log with one chunk marked garbage"})),
            Ok((l, _)) => {
                if l.blobs.get(&h) != rt.blobs.get(&h) {
                    seen.violation(rep, "tensor_store.blob_log.snapshot/blob_log_not_restored", "get() of a chunk differs after load", json!({"directed": "append(b\"abc\"), mark_garbage(h), to_bytes/from_bytes"}));
                }
                if l.blobs.contains(&h) != rt.blobs.contains(&h) {
                    seen.violation(rep, "tensor_store.blob_log.snapshot/garbage_marks_not_restored", "a chunk marked garbage is contains()=false before the save and true after the load", json!({"directed": "append(b\"abc\"), mark_garbage(h), to_bytes/from_bytes", "saved_contains": rt.blobs.contains(&h), "loaded_contains": l.blobs.contains(&h)}));
                }
            }
        }
        rep.case("directed", Some("blob log: garbage mark"));
    }
    // --- graph tensor: regression inputs of 3d29d770 (restore keeps edge ids) and ce34e58a (merge prunes incoming)
    {
        let types: Vec<String> = vec![];
        let rt = SlabRouter::new();
        let e0 = rt.graph.add_edge(EntityId::new(5), EntityId::new(1), "a", true);
        let e1 = rt.graph.add_edge(EntityId::new(2), EntityId::new(3), "b", false);
        let e2 = rt.graph.add_edge(EntityId::new(1), EntityId::new(2), "a", true);
        let mut d = TensorData::new();
        d.set("w", TensorValue::Scalar(ScalarValue::Int(50)));
        rt.graph.set_edge_data(e0, d);
        rt.graph.delete_edge(e2);
        let nodes: Vec<u64> = (0..7).collect();
        let ids = vec![e0.as_u64(), e1.as_u64(), e2.as_u64()];
        let before = real_gdump(&rt, &nodes, &ids, &types);
        let desc = json!({"directed": "add_edge(5->1)=e0 with data, add_edge(2->3)=e1, add_edge(1->2)=e2, delete_edge(e2), to_bytes/from_bytes"});
        let p = sc.fresh("graph.snap");
        match save_load(&rt, Fmt::Bytes, &p) {
            Err(e) => seen.violation(rep, "tensor_store.snapshot.bytes/save_or_load_failed", &e, desc.clone()),
            Ok((l, _)) => {
                let after = real_gdump(&l, &nodes, &ids, &types);
                let selfafter = real_gdump(&rt, &nodes, &ids, &types);
                graph_oracle(rep, &mut seen, &before, &after, &selfafter, &desc);
            }
        }
        rep.case("directed", Some("graph tensor: out-of-order sources, edge data, deleted edge"));
    }
    // --- regression inputs of the fixed defects, through the real save/load and the model
    let path = sc.fresh("reg.q");
    let cfgd = qconfig(None, true);
    let regs: Vec<(&str, &str, TensorValue, &str)> = vec![
        ("user:1", "blob", TensorValue::Scalar(ScalarValue::Bytes(vec![1, 2, 3])), "tensor_store.snapshot.compressed/bytes_become_placeholder"),
        ("user:1", "blob", TensorValue::Scalar(ScalarValue::Bytes(vec![])), "tensor_store.snapshot.compressed/bytes_become_placeholder"),
        ("user:1", "ids", TensorValue::Vector(vec![1.5]), "tensor_store.snapshot.compressed/id_list_vector_not_bit_identical"),
        ("user:1", "member_ids", TensorValue::Vector(vec![3.0, -2.0, f32::INFINITY, f32::NAN]), "tensor_store.snapshot.compressed/id_list_vector_not_bit_identical"),
        ("user:1", "ids", TensorValue::Vector(vec![9.0, 2.0, 2.0, 5.0]), "tensor_store.snapshot.compressed/id_list_vector_not_bit_identical"),
        ("user:2", "weights", TensorValue::Vector(vec![1.0, 1e30]), "tensor_store.snapshot.compressed/id_list_vector_not_bit_identical"),
        ("user:2", "weights", TensorValue::Vector(vec![1.0, 16_777_216.0, 16_777_218.0]), "tensor_store.snapshot.compressed/id_list_vector_not_bit_identical"),
        ("user:3", "sv", TensorValue::Sparse(SparseVector::from_parts(8, vec![1, 6], vec![0.5, -2.0])), "tensor_store.snapshot.compressed/sparse_becomes_dense"),
        ("user:3", "sv", TensorValue::Sparse(SparseVector::from_parts(3, vec![], vec![])), "tensor_store.snapshot.compressed/sparse_becomes_dense"),
    ];
    for (key, field, v, class) in regs {
        let orig = enc_value(&v);
        let line = format!("cval 0 1 {} {} {}", hexs(key), hexs(field), orig);
        let model = m.ask(&line);
        match q_roundtrip(&path, key, field, &v, &cfgd) {
            Err(e) => seen.violation(rep, "tensor_store.snapshot.compressed/save_or_load_failed", &e, json!({"line": line})),
            Ok((c, t)) => {
                rep.compare("values.map", || json!({"directed": line}), &format!("{c} => {t}"), &model);
                if t != orig {
                    seen.violation(rep, class, "value read back from the quantising snapshot differs from the value stored", json!({"key": key, "field": field, "stored": orig, "compressed_as": c, "read_back": t}));
                }
            }
        }
        rep.case("directed", Some(&line));
    }
    for v in [vec![5e-7f32, 0.0, 0.0, 1.0], vec![f32::NAN, 0.0, 0.0, 0.0, -0.0, 1e-6]] {
        let ce = CompressedEmbedding::from_dense(&v);
        let (ob, gb) = (bits32(&v), bits32(&ce.to_dense()));
        let imp = match &ce {
            CompressedEmbedding::Dense(_) => format!("dense => {}", nats(&gb)),
            CompressedEmbedding::Sparse { positions, .. } => format!("sparse {} => {}", nats(positions), nats(&gb)),
            CompressedEmbedding::TensorTrain(_) => "tt => tt".to_string(),
        };
        rep.compare("emb.form", || json!({"directed": nats(&ob)}), &imp, &m.ask(&format!("emb 1 {}", nats(&ob))));
        if ob != gb {
            let class = if emb_change(&ob, &gb) == "nan_zeroed" { "tensor_store.embedding_slab.snapshot/short_vector_nan_zeroed" } else { "tensor_store.embedding_slab.snapshot/short_vector_small_entries_zeroed" };
            seen.violation(rep, class, "CompressedEmbedding::from_dense(v).to_dense() differs from v", json!({"vector_bits": nats(&ob), "restored_bits": nats(&gb)}));
        }
        rep.case("directed", Some(&format!("emb|{}", nats(&ob))));
    }
}

// ------------------------------------------------------------------ stream: crafted / damaged files vs the model's routing

fn stream_route(rep: &mut Report, m: &mut Model, root: &Rng, scale: u64, sc: &mut Scratch) {
    let mut r = root.fork("route");
    let b = build_store(7, 5, false);
    let rt = b.store.router();
    let kv = keyview(rt);
    let pz = sc.fresh("z.bin");
    let pp = sc.fresh("p.bin");
    snapshot::save_v3(rt, &pz).unwrap();
    snapshot::save_v3_uncompressed(rt, &pp).unwrap();
    let fz = std::fs::read(&pz).unwrap();
    let fp = std::fs::read(&pp).unwrap();
    let probe = sc.fresh("probe.bin");
    let mut seen = Seen(BTreeMap::new());
    for i in 0..600 * scale {
        let zstd = r.chance(1, 2);
        let valid = if zstd { &fz } else { &fp };
        let mut f = valid.clone();
        let kind = match if i < 8 { i } else { r.below(9) } {
            0 => "valid",
            1 => {
                let k = r.below(160) as usize;
                f[k / 8] ^= 1 << (k % 8);
                "header_bitflip"
            }
            2 => {
                let k = r.below(20.min(f.len() as u64)) as usize;
                f.truncate(k);
                "truncated_in_header"
            }
            3 => {
                let k = 20 + r.below((f.len() - 20) as u64) as usize;
                f.truncate(k);
                "truncated_in_body"
            }
            4 => {
                let v: u32 = *r.pick(&[0u32, 1, 2, 4, 5, 0x0300_0000, u32::MAX]);
                f[4..8].copy_from_slice(&v.to_le_bytes());
                "version"
            }
            5 => {
                let v: u32 = r.next_u64() as u32;
                f[8..12].copy_from_slice(&v.to_le_bytes());
                "flags"
            }
            6 => {
                let v: u64 = *r.pick(&[0u64, u64::MAX, 1 << 63, 12345]);
                f[12..20].copy_from_slice(&v.to_le_bytes());
                "entry_count"
            }
            7 => {
                let h = r.bytes(20);
                f[..20].copy_from_slice(&h);
                "random_header"
            }
            _ => {
                let k = 20 + r.below((f.len() - 20) as u64 * 8) as usize;
                f[k / 8] ^= 1 << (k % 8);
                "body_bitflip"
            }
        };
        std::fs::write(&probe, &f).unwrap();
        let det = match snapshot::detect_version(&probe) {
            Ok(SnapshotVersion::V2) => "v2",
            Ok(SnapshotVersion::V3) => "v3",
            Err(_) => "err",
        };
        let loaded = guarded(std::panic::AssertUnwindSafe(|| snapshot::load(&probe)));
        let (outcome, same) = match &loaded {
            Err(_) => ("panic".to_string(), false),
            Ok(Err(e)) => (fmt_err(e), false),
            Ok(Ok(l)) => ("ok".to_string(), keyview(l) == kv),
        };
        let model = m.ask(&format!("route {}", hex(&f[..f.len().min(24)])));
        // allowed (opaque decoder) outcomes per route
        let allowed: &[&str] = match model.as_str() {
            "v2" => &["ok", "ser"],
            "v3_plain" => &["ok", "ser"],
            "v3_zstd" => &["ok", "io", "ser"],
            _ => &[],
        };
        // a damaged BODY that still decodes may make `restore` panic (unchecked sparse positions): outside
        // the property's quantifier, recorded as an observation below
        let body_damage_panic = outcome == "panic" && kind == "body_bitflip";
        let imp = if model.starts_with("err ") {
            format!("err {outcome}")
        } else if (allowed.contains(&outcome.as_str()) || body_damage_panic) && (det == "v2") == (model == "v2") {
            model.clone()
        } else {
            format!("{det}/{outcome}")
        };
        rep.compare("route", || json!({"kind": kind, "file_prefix": hex(&f[..f.len().min(24)]), "len": f.len()}), &imp, &model);
        rep.hit(&format!("route.{kind}.{}", model.split(':').next().unwrap_or("")));
        rep.hit(&format!("route.outcome.{kind}.{}", outcome.split(':').next().unwrap_or("")));
        if outcome == "panic" {
            rep.hit("route.load_panicked_on_damaged_body");
            rep.observe(json!({"what":"snapshot::load panics (index out of bounds in CompressedEmbedding::to_dense) on a file whose body has one flipped bit: sparse positions are not range-checked on restore. Outside C07's quantifier (no crash state produces a bit flip)","kind": kind, "len": f.len()}));
        }
        // a file the model routes like the valid one, with the valid body, must load to the same content
        let same_route = model == if zstd { "v3_zstd" } else { "v3_plain" };
        if same_route && f[20.min(f.len())..] == valid[20..] && !(outcome == "ok" && same) {
            seen.violation(rep, "tensor_store.snapshot.load/valid_file_rejected", "a file with an accepted header and an intact body did not load to the saved content", json!({"kind": kind, "outcome": outcome}));
        }
        // truncation: a strict prefix of a snapshot must not load as if it were complete
        if kind.starts_with("truncated") && outcome == "ok" {
            rep.hit("route.truncated_accepted");
            rep.observe(json!({"what":"a strict prefix of a snapshot file loads without error (not reachable through the temp-file save unless the path is *.tmp)","len": f.len(), "of": valid.len(), "same_content": same}));
        }
        rep.case("route", Some(&format!("{kind}|{}", hex(&f[..f.len().min(24)]))));
    }
    // EVERY strict prefix of both files: the three decoder hypotheses of `load_rejects_truncated`
    for (name, file) in [("zstd", &fz), ("plain", &fp)] {
        let mut accepted = 0u64;
        for k in 0..file.len() {
            std::fs::write(&probe, &file[..k]).unwrap();
            let res = guarded(std::panic::AssertUnwindSafe(|| snapshot::load(&probe)));
            if let Ok(Ok(_)) = res {
                accepted += 1;
                if accepted <= 2 {
                    rep.observe(json!({"what":"strict prefix of a snapshot accepted by load","format": name, "prefix_len": k, "file_len": file.len()}));
                }
            }
            if k < 24 {
                let model = m.ask(&format!("route {}", hex(&file[..k])));
                let want = if k < 4 { "v2" } else if k < 20 { "err io" } else if name == "zstd" { "v3_zstd" } else { "v3_plain" };
                rep.compare("route.prefix", || json!({"k": k}), want, &model);
            }
        }
        rep.hit_n(&format!("truncation.{name}.prefixes_tried"), file.len() as u64);
        rep.hit_n(&format!("truncation.{name}.prefixes_accepted"), accepted);
        if accepted > 0 {
            seen.violation(rep, "tensor_store.snapshot.load/accepts_truncated_file", "a strict prefix of a snapshot file loads without error", json!({"format": name, "accepted_prefixes": accepted, "file_len": file.len()}));
        }
        rep.case("truncation", Some(name));
    }
}

// ------------------------------------------------------------------ stream: crash states of a real save

#[derive(Clone, Debug, PartialEq)]
enum Op {
    /// open with O_TRUNC, or O_CREAT|O_EXCL (the file cannot pre-exist): the descriptor starts on an empty file
    Create(String),
    /// open for writing WITHOUT O_TRUNC / O_EXCL: an existing file keeps its content, writes overwrite in place from offset 0
    Open(String),
    Write(String, usize),
    Fsync(String),
    Rename(String, String),
    Unlink(String),
}

fn op_text(ops: &[Op]) -> String {
    let mut out: Vec<String> = vec![];
    let mut keep: std::collections::BTreeSet<&str> = Default::default();
    let mut off: BTreeMap<&str, usize> = BTreeMap::new();
    for (i, o) in ops.iter().enumerate() {
        match o {
            Op::Create(p) => {
                keep.remove(p.as_str());
                out.push(format!("create {p}"));
            }
            Op::Open(p) => {
                keep.insert(p.as_str());
                off.insert(p.as_str(), 0);
                out.push(format!("open {p}"));
            }
            // a write through a non-truncating descriptor is an in-place overwrite at its offset (the model's `writeat`)
            Op::Write(p, n) if keep.contains(p.as_str()) => {
                let o = off.entry(p.as_str()).or_insert(0);
                out.push(format!("writeat {p} {o} {n}"));
                *o += n;
            }
            Op::Write(p, n) => out.push(format!("write {p} {n}")),
            Op::Fsync(p) => out.push(format!("fsync {p}")),
            Op::Rename(a, b) => out.push(format!("rename {a} {b}")),
            // `unlink(tmp)` directly followed by an exclusive create of the same name is one truncating create
            Op::Unlink(p) if matches!(ops.get(i + 1), Some(Op::Create(q)) if q == p) => {}
            Op::Unlink(p) => out.push(format!("unlink {p}")),
        }
    }
    out.join(";")
}

/// child mode: build the store deterministically and save it (run under strace by the parent)
fn child_save(path: &str, mode: &str, seed: u64, n: usize) {
    let b = build_store(seed, n, n >= 20);
    let rt = b.store.router();
    let res = match mode {
        "zstd" => snapshot::save_v3(rt, path).map_err(|e| e.to_string()),
        "plain" => snapshot::save_v3_uncompressed(rt, path).map_err(|e| e.to_string()),
        _ => b.store.save_snapshot_compressed(path, CompressionConfig::default()).map_err(|e| e.to_string()),
    };
    if let Err(e) = res {
        eprintln!("child save failed: {e}");
        std::process::exit(3);
    }
}

/// run the save in a child under strace; returns the file operations on files of `dir`
fn traced_save(dir: &Path, path: &Path, mode: &str, seed: u64, n: usize) -> Result<Vec<Op>, String> {
    let trace = dir.join("trace.txt");
    let exe = std::env::current_exe().map_err(|e| e.to_string())?;
    let st = std::process::Command::new("strace")
        .args(["-f", "-e", "trace=openat,creat,write,pwrite64,writev,fsync,fdatasync,rename,renameat,renameat2,ftruncate,unlink,unlinkat", "-o"])
        .arg(&trace)
        .arg(&exe)
        .args(["--child-save", &path.to_string_lossy(), mode, &seed.to_string(), &n.to_string()])
        .output()
        .map_err(|e| format!("strace not runnable: {e}"))?;
    if !st.status.success() {
        return Err(format!("traced child exited {:?}: {}", st.status.code(), String::from_utf8_lossy(&st.stderr)));
    }
    let text = std::fs::read_to_string(&trace).map_err(|e| e.to_string())?;
    let _ = std::fs::remove_file(&trace);
    let dirs = dir.to_string_lossy().to_string();
    let label = |p: &str| -> String { Path::new(p).file_name().map(|f| f.to_string_lossy().to_string()).unwrap_or_default() };
    let mut fds: HashMap<(String, String), String> = HashMap::new();
    let mut ops = vec![];
    for line in text.lines() {
        let (pid, rest) = line.split_once(' ').unwrap_or(("", line));
        let rest = rest.trim_start();
        let ret = rest.rsplit_once(" = ").map(|x| x.1.trim()).unwrap_or("");
        if rest.starts_with("openat(") {
            if let Some(q1) = rest.find('"') {
                if let Some(q2) = rest[q1 + 1..].find('"') {
                    let p = &rest[q1 + 1..q1 + 1 + q2];
                    if p.starts_with(&dirs) && p != trace.to_string_lossy() {
                        if let Ok(fd) = ret.split_whitespace().next().unwrap_or("").parse::<i64>() {
                            if fd >= 0 {
                                fds.insert((pid.to_string(), fd.to_string()), label(p));
                                // the flags decide what a LEFTOVER file of that name means for this save:
                                // O_TRUNC empties it, O_CREAT|O_EXCL refuses it (so it was unlinked first);
                                // a writable open with neither keeps its old bytes under and behind the new ones
                                let writable = rest.contains("O_WRONLY") || rest.contains("O_RDWR");
                                if rest.contains("O_TRUNC") || (rest.contains("O_CREAT") && rest.contains("O_EXCL")) {
                                    ops.push(Op::Create(label(p)));
                                } else if rest.contains("O_CREAT") || (writable && !rest.contains("O_APPEND") && !rest.contains("O_DIRECTORY")) {
                                    ops.push(Op::Open(label(p)));
                                }
                            }
                        }
                    } else if let Ok(fd) = ret.split_whitespace().next().unwrap_or("").parse::<i64>() {
                        fds.remove(&(pid.to_string(), fd.to_string()));
                    }
                }
            }
        } else if rest.starts_with("write(") || rest.starts_with("pwrite64(") || rest.starts_with("writev(") {
            let fd = rest.split_once('(').map(|x| x.1).and_then(|x| x.split_once(',')).map(|x| x.0.trim().to_string()).unwrap_or_default();
            if let Some(p) = fds.get(&(pid.to_string(), fd)) {
                if let Ok(nw) = ret.split_whitespace().next().unwrap_or("").parse::<usize>() {
                    ops.push(Op::Write(p.clone(), nw));
                }
            }
        } else if rest.starts_with("fsync(") || rest.starts_with("fdatasync(") {
            let fd = rest.split_once('(').map(|x| x.1).and_then(|x| x.split_once(')')).map(|x| x.0.trim().to_string()).unwrap_or_default();
            if let Some(p) = fds.get(&(pid.to_string(), fd)) {
                ops.push(Op::Fsync(p.clone()));
            }
        } else if rest.starts_with("unlink") {
            let parts: Vec<&str> = rest.split('"').collect();
            if parts.len() >= 2 && parts[1].starts_with(&dirs) && ret.starts_with('0') {
                ops.push(Op::Unlink(label(parts[1])));
            }
        } else if rest.starts_with("rename") {
            let parts: Vec<&str> = rest.split('"').collect();
            if parts.len() >= 4 && parts[1].starts_with(&dirs) && ret.starts_with('0') {
                ops.push(Op::Rename(label(parts[1]), label(parts[3])));
            }
        }
    }
    Ok(ops)
}

#[derive(Clone, Default, Debug)]
struct SimFile {
    synced: Vec<u8>,
    pending: Vec<u8>,
}
type SimFs = BTreeMap<String, SimFile>;

/// per-descriptor state of the save in flight: write offset, and whether the file was opened without truncation
#[derive(Default, Clone)]
struct Cursor {
    off: BTreeMap<String, usize>,
    keep: std::collections::BTreeSet<String>,
}

/// `bs` written in place at `off` (the model's `overlay`): a hole reads as zeros, the tail beyond stays
fn overlay(c: &[u8], off: usize, bs: &[u8]) -> Vec<u8> {
    let mut v = c[..off.min(c.len())].to_vec();
    v.resize(off, 0);
    v.extend_from_slice(bs);
    if off + bs.len() < c.len() {
        v.extend_from_slice(&c[off + bs.len()..]);
    }
    v
}

fn apply(fs: &mut SimFs, op: &Op, data: &[u8], cur: &mut Cursor, cut: Option<usize>) {
    match op {
        Op::Create(p) => {
            fs.insert(p.clone(), SimFile::default());
            cur.off.insert(p.clone(), 0);
            cur.keep.remove(p);
        }
        Op::Open(p) => {
            fs.entry(p.clone()).or_default();
            cur.off.insert(p.clone(), 0);
            cur.keep.insert(p.clone());
        }
        Op::Write(p, n) => {
            let o = *cur.off.get(p).unwrap_or(&0);
            let take = cut.unwrap_or(*n);
            let bytes = &data[o.min(data.len())..(o + take).min(data.len())];
            if let Some(f) = fs.get_mut(p) {
                if cur.keep.contains(p) {
                    // in-place overwrite: everything counts as un-synced until the next fsync (as in the model)
                    let c = content(f);
                    f.synced.clear();
                    f.pending = overlay(&c, o, bytes);
                } else {
                    f.pending.extend_from_slice(bytes);
                }
            }
            if cut.is_none() {
                cur.off.insert(p.clone(), o + n);
            }
        }
        Op::Fsync(p) => {
            if let Some(f) = fs.get_mut(p) {
                let pend = std::mem::take(&mut f.pending);
                f.synced.extend(pend);
            }
        }
        Op::Rename(a, b) => {
            if a != b {
                if let Some(f) = fs.remove(a) {
                    fs.insert(b.clone(), f);
                }
            }
        }
        Op::Unlink(p) => {
            fs.remove(p);
        }
    }
}

/// the `i`-th crash state in the model's enumeration order (partials of each op, then the final state)
fn nth_crash_state(ops: &[Op], data: &[u8], fs0: &SimFs, mut i: usize) -> Option<SimFs> {
    let mut fs = fs0.clone();
    let mut cur = Cursor::default();
    for op in ops {
        let parts = match op {
            Op::Write(_, n) => *n,
            _ => 1,
        };
        if i < parts {
            if let Op::Write(..) = op {
                apply(&mut fs, op, data, &mut cur, Some(i));
            }
            return Some(fs);
        }
        i -= parts;
        apply(&mut fs, op, data, &mut cur, None);
    }
    if i == 0 {
        Some(fs)
    } else {
        None
    }
}

fn count_crash_states(ops: &[Op]) -> usize {
    1 + ops.iter().map(|o| if let Op::Write(_, n) = o { *n } else { 1 }).sum::<usize>()
}

fn content(f: &SimFile) -> Vec<u8> {
    let mut c = f.synced.clone();
    c.extend_from_slice(&f.pending);
    c
}

fn describe(fs: &SimFs, path: &str, tmp: &str, old: Option<&[u8]>, new: &[u8]) -> String {
    let p = match fs.get(path) {
        None => "absent".to_string(),
        Some(f) => {
            let c = content(f);
            if Some(&c[..]) == old {
                "old".into()
            } else if c == new {
                "new".into()
            } else {
                format!("torn:{}", c.len())
            }
        }
    };
    let t = if path == tmp { "same".to_string() } else { fs.get(tmp).map(|f| content(f).len().to_string()).unwrap_or_else(|| "absent".into()) };
    format!("tmp={t} path={p} unsynced={}", fs.get(path).map(|f| f.pending.len()).unwrap_or(0))
}

struct CrashCase<'a> {
    mode: &'a str,
    name: &'a str,
    n_old: usize,
    n_new: usize,
    exhaustive: bool,
}

fn load_kv(mode: &str, p: &Path) -> Result<BTreeMap<String, String>, String> {
    let res = guarded(std::panic::AssertUnwindSafe(|| {
        if mode == "quant" {
            TensorStore::load_snapshot_compressed(p).map(|s| (view(s.router(), &Side::default()), keyview(s.router()))).map_err(|e| e.to_string())
        } else {
            snapshot::load(p).map(|r| (view(&r, &Side::default()), keyview(&r))).map_err(|e| fmt_err(&e))
        }
    }));
    match res {
        Err(p) => Err(format!("panic: {p}")),
        Ok(Err(e)) => Err(e),
        Ok(Ok((v, kv))) => {
            // one comparable text: slabs + keys
            let mut m = kv;
            m.insert("\u{0}tables".into(), format!("{:?}", v.tables));
            m.insert("\u{0}index".into(), format!("{:?}", v.index));
            m.insert("\u{0}emb".into(), format!("{:?}", v.embeddings));
            Ok(m)
        }
    }
}

fn stream_crash(rep: &mut Report, m: &mut Model, root: &Rng, thorough: bool, sc: &mut Scratch) {
    let mut r = root.fork("crash");
    let mut seen = Seen(BTreeMap::new());
    let cases = [
        CrashCase { mode: "plain", name: "snap.bin", n_old: 2, n_new: 3, exhaustive: true },
        CrashCase { mode: "zstd", name: "snap.bin", n_old: 3, n_new: 2, exhaustive: true },
        CrashCase { mode: "quant", name: "snap.bin", n_old: 2, n_new: 3, exhaustive: true },
        CrashCase { mode: "zstd", name: "store", n_old: 40, n_new: 400, exhaustive: false },
        CrashCase { mode: "plain", name: "data.snapshot.v3", n_old: 60, n_new: 30, exhaustive: false },
        CrashCase { mode: "quant", name: "q.snap", n_old: 30, n_new: 60, exhaustive: false },
        CrashCase { mode: "plain", name: "snap.tmp", n_old: 2, n_new: 3, exhaustive: true },
        CrashCase { mode: "zstd", name: "backup.tmp", n_old: 30, n_new: 40, exhaustive: false },
    ];
    let mut strace_ok = true;
    for (ci, c) in cases.iter().enumerate() {
        let path = sc.fresh(c.name);
        let dir = path.parent().unwrap().to_path_buf();
        let tmp_path = snapshot::temp_path_for(&path);
        let tmp_name = tmp_path.file_name().unwrap().to_string_lossy().to_string();
        let same = tmp_path == path;
        let (seed_old, seed_new) = (r.next_u64(), r.next_u64());
        // old snapshot: saved in-process
        child_save(&path.to_string_lossy(), c.mode, seed_old, c.n_old);
        let old_bytes = std::fs::read(&path).unwrap();
        let old_kv = load_kv(c.mode, &path);
        // new snapshot: saved by a traced child
        let ops = match traced_save(&dir, &path, c.mode, seed_new, c.n_new) {
            Ok(o) => o,
            Err(e) => {
                if strace_ok {
                    rep.note(&format!("strace unavailable ({e}); crash states reconstructed from the files with the model's operation list"));
                }
                strace_ok = false;
                child_save(&path.to_string_lossy(), c.mode, seed_new, c.n_new);
                let n = std::fs::read(&path).unwrap().len();
                let t = if same { c.name.to_string() } else { tmp_name.clone() };
                if c.mode == "quant" {
                    vec![Op::Create(t.clone()), Op::Write(t.clone(), n), Op::Fsync(t.clone()), Op::Rename(t, c.name.to_string())]
                } else {
                    vec![Op::Create(t.clone()), Op::Write(t.clone(), 20), Op::Write(t.clone(), n - 20), Op::Fsync(t.clone()), Op::Rename(t, c.name.to_string())]
                }
            }
        };
        let new_bytes = std::fs::read(&path).unwrap();
        let new_kv = load_kv(c.mode, &path);
        if tmp_path.exists() && !same {
            seen.violation(rep, "tensor_store.snapshot.save/temp_file_left_behind", "temp file exists after a successful save", json!({"mode": c.mode}));
        }
        // 1. the real operation sequence is the model's
        let quant = u8::from(c.mode == "quant");
        let (hl, bl) = if c.mode == "quant" { (0, new_bytes.len()) } else { (20, new_bytes.len() - 20) };
        let model_ops = m.ask(&format!("ops {quant} {hl} {bl}"));
        let real_ops = op_text(&ops).replace(&tmp_name, "tmp").replace(c.name, if same { "tmp" } else { "path" });
        let model_ops_cmp = if same { model_ops.replace("path", "tmp") } else { model_ops.clone() };
        rep.compare("crash.ops", || json!({"mode": c.mode, "name": c.name, "strace": strace_ok}), &real_ops, &model_ops_cmp);
        rep.hit(&format!("crash.ops.{}", if strace_ok { "strace" } else { "reconstructed" }));
        if ci == 0 {
            rep.sample(json!({"stream":"crash","mode":c.mode,"real_trace":op_text(&ops),"model_ops":model_ops}));
        }
        let rename_at = ops.iter().position(|o| matches!(o, Op::Rename(..)));
        let fsync_before = rename_at.map(|k| ops[..k].iter().any(|o| matches!(o, Op::Fsync(_)))).unwrap_or(false);
        if fsync_before {
            rep.hit("crash.fsync_before_rename");
        } else {
            rep.hit("crash.no_fsync_before_rename");
            seen.violation(rep, "tensor_store.snapshot.save/no_fsync_before_rename", "save renames the temp file over the snapshot without sync_all: after a power loss the path may hold a torn file (Lean: save_power_loss_witness)", json!({"mode": c.mode, "trace": op_text(&ops)}));
        }
        // 2. crash states
        let mut fs0 = SimFs::new();
        fs0.insert(c.name.to_string(), SimFile { synced: old_bytes.clone(), pending: vec![] });
        let total = count_crash_states(&ops);
        let model_total = m.ask(&format!("crash_count {} 1 {quant} {hl} {bl}", u8::from(same)));
        if bl <= 3000 {
            rep.compare("crash.count", || json!({"mode": c.mode}), &total.to_string(), &model_total);
        }
        let idxs: Vec<usize> = if c.exhaustive && total <= 4000 {
            (0..total).collect()
        } else {
            let mut v: Vec<usize> = vec![0, 1, 2, 19, 20, 21, 22, 23, total / 2, total.saturating_sub(4), total.saturating_sub(3), total.saturating_sub(2), total.saturating_sub(1)];
            for _ in 0..(if thorough { 400 } else { 60 }) {
                v.push(r.below(total as u64) as usize);
            }
            v.retain(|i| *i < total);
            v.sort_unstable();
            v.dedup();
            v
        };
        let mut torn_loads = 0u64;
        let mut first_torn: Option<J> = None;
        let checked = idxs.len();
        for i in idxs {
            let Some(st) = nth_crash_state(&ops, &new_bytes, &fs0, i) else { continue };
            let d = describe(&st, c.name, if same { c.name } else { &tmp_name }, Some(&old_bytes), &new_bytes);
            if bl <= 3000 {
                let md = m.ask(&format!("crash_at {} 1 {quant} {hl} {bl} {i}", u8::from(same)));
                rep.compare("crash.state", || json!({"mode": c.mode, "name": c.name, "index": i}), &d, &md);
            }
            // materialise and run the real load
            let cd = sc.fresh(c.name);
            for (name, f) in &st {
                std::fs::write(cd.with_file_name(name), content(f)).unwrap();
            }
            let got = load_kv(c.mode, &cd);
            let verdict = if got.is_ok() && got == old_kv {
                "old"
            } else if got.is_ok() && got == new_kv {
                "new"
            } else if got.is_err() {
                "error"
            } else {
                "mixture"
            };
            rep.hit(&format!("crash.{}.{}.{verdict}", c.mode, if same { "tmp_ext" } else { "normal" }));
            if verdict == "error" || verdict == "mixture" {
                torn_loads += 1;
                if first_torn.is_none() {
                    first_torn = Some(json!({"crash_state": d, "index": i, "load": match &got { Err(e) => e.clone(), Ok(_) => "content that is neither old nor new".into() }}));
                }
            }
            let _ = std::fs::remove_dir_all(cd.parent().unwrap());
            // power loss on top of the crash state: the un-synced bytes of the path's file cut at any byte
            // (Lean: save_fsync_power_loss_atomic — with sync_all before the rename nothing at the path is un-synced)
            match st.get(c.name) {
                Some(f) if !f.pending.is_empty() => {
                    for k in [0usize, f.pending.len() / 2] {
                        let pd = sc.fresh(c.name);
                        let mut bytes = f.synced.clone();
                        bytes.extend_from_slice(&f.pending[..k]);
                        std::fs::write(&pd, &bytes).unwrap();
                        let got = load_kv(c.mode, &pd);
                        let ok = got.is_ok() && (got == old_kv || got == new_kv);
                        rep.hit(&format!("crash.powerloss.{}", if ok { "old_or_new" } else { "torn" }));
                        if !ok {
                            seen.violation(rep, "tensor_store.snapshot.save/power_loss_state_neither_old_nor_new", "un-synced bytes at the snapshot path: a power loss in this crash state leaves a file that loads as neither the previous nor the new snapshot", json!({"mode": c.mode, "path_name": c.name, "crash_state": d, "index": i, "surviving_bytes": bytes.len()}));
                        }
                        let _ = std::fs::remove_dir_all(pd.parent().unwrap());
                    }
                }
                _ => rep.hit("crash.powerloss.path_fully_synced"),
            }
            rep.case("crash", Some(&format!("{}|{}|{i}", c.mode, c.name)));
        }
        if torn_loads > 0 {
            let class = if same { "tensor_store.snapshot.save/tmp_extension_path_overwritten_in_place" } else { "tensor_store.snapshot.save/crash_state_neither_old_nor_new" };
            seen.violation(rep, class, "a crash state of the save loads as neither the previous nor the new snapshot", json!({"mode": c.mode, "path_name": c.name, "temp_name": tmp_name, "states_failing": torn_loads, "states_checked": checked, "states_total": total, "first": first_torn, "trace": op_text(&ops)}));
        }
    }
}

// ------------------------------------------------------------------ stream: the model's file operations against a real directory

fn fnv32(b: &[u8]) -> u32 {
    let mut h: u32 = 2_166_136_261;
    for x in b {
        h = (h ^ u32::from(*x)).wrapping_mul(16_777_619);
    }
    h
}

/// what a real directory holds under the two names, in the driver's `describeFs` form (without the un-synced counts)
fn dir_desc(dir: &Path, name: &str, tmp_name: &str) -> String {
    let one = |n: &str| match std::fs::read(dir.join(n)) {
        Ok(b) => format!("{}:{}", b.len(), fnv32(&b)),
        Err(_) => "absent".to_string(),
    };
    format!("tmp={} path={}", one(tmp_name), one(name))
}

fn sim_desc(fs: &SimFs, name: &str, tmp_name: &str) -> String {
    let one = |n: &str| match fs.get(n) {
        Some(f) => {
            let c = content(f);
            format!("{}:{}", c.len(), fnv32(&c))
        }
        None => "absent".to_string(),
    };
    let pend = |n: &str| fs.get(n).map(|f| f.pending.len()).unwrap_or(0);
    format!("tmp={} path={} unsynced={}/{}", one(tmp_name), one(name), pend(tmp_name), pend(name))
}

fn strip_unsynced(s: &str) -> String {
    s.split(" unsynced=").next().unwrap_or(s).to_string()
}

/// random sequences of create / open-without-truncate / write / fsync / rename performed with std::fs on a real
/// directory (same open flags as `File::create` and as `OpenOptions::new().write(true).create(true)`) and on the
/// model's directory: the contents must agree after every operation
fn stream_fsops(rep: &mut Report, m: &mut Model, root: &Rng, scale: u64, sc: &mut Scratch) {
    use std::io::{Seek, SeekFrom, Write};
    let mut r = root.fork("fsops");
    for case in 0..120 * scale {
        let path = sc.fresh("p");
        let dir = path.parent().unwrap().to_path_buf();
        let names = ["p", "p.tmp"];
        let model_name = |n: &str| if n == "p" { "path" } else { "tmp" };
        let mut init = vec![];
        for n in names {
            if r.chance(2, 3) {
                let len = *r.pick(&[0usize, 1, 5, 20, 33, 64]);
                let b = r.bytes(len);
                std::fs::write(dir.join(n), &b).unwrap();
                init.push(hex(&b));
            } else {
                init.push("absent".to_string());
            }
        }
        let ans = m.ask(&format!("fs_init {} {}", init[0], init[1]));
        let mut trace = vec![format!("init path={} tmp={}", init[0], init[1])];
        rep.compare("fsops", || json!({"case": case, "trace": trace}), &dir_desc(&dir, "p", "p.tmp"), &strip_unsynced(&ans));
        // open descriptors: (file, opened without truncation, offset)
        let mut fds: BTreeMap<&str, (std::fs::File, bool, usize)> = BTreeMap::new();
        let steps = 2 + r.below(8);
        for _ in 0..steps {
            let n = *r.pick(&names);
            let line = match r.below(10) {
                0 | 1 => {
                    let f = std::fs::File::create(dir.join(n)).unwrap();
                    fds.insert(n, (f, false, 0));
                    rep.hit("fsops.create");
                    format!("create {}", model_name(n))
                }
                2 | 3 => {
                    let f = std::fs::OpenOptions::new().write(true).create(true).open(dir.join(n)).unwrap();
                    fds.insert(n, (f, true, 0));
                    rep.hit("fsops.open_keep");
                    format!("open {}", model_name(n))
                }
                4 | 5 | 6 => {
                    let Some((f, keep, off)) = fds.get_mut(n) else { continue };
                    let len = 1 + r.below(30) as usize;
                    let b = r.bytes(len);
                    if *keep {
                        if r.chance(1, 6) {
                            // leave a hole: the model fills it with zeros
                            *off += r.below(6) as usize;
                            f.seek(SeekFrom::Start(*off as u64)).unwrap();
                            rep.hit("fsops.writeat_after_seek");
                        }
                        f.write_all(&b).unwrap();
                        let l = format!("writeat {} {} {}", model_name(n), *off, hex(&b));
                        *off += len;
                        rep.hit("fsops.writeat");
                        l
                    } else {
                        f.write_all(&b).unwrap();
                        rep.hit("fsops.write");
                        format!("write {} {}", model_name(n), hex(&b))
                    }
                }
                7 => {
                    let Some((f, _, _)) = fds.get_mut(n) else { continue };
                    f.sync_all().unwrap();
                    rep.hit("fsops.fsync");
                    format!("fsync {}", model_name(n))
                }
                _ => {
                    let to = *r.pick(&names);
                    // a descriptor follows its file, the model's operations name paths: close both before a rename
                    fds.remove(n);
                    fds.remove(to);
                    let ok = std::fs::rename(dir.join(n), dir.join(to)).is_ok();
                    rep.hit(if ok { "fsops.rename" } else { "fsops.rename_missing_source" });
                    format!("rename {} {}", model_name(n), model_name(to))
                }
            };
            let ans = m.ask(&format!("fs_op {line}"));
            trace.push(line.chars().take(60).collect());
            let real = dir_desc(&dir, "p", "p.tmp");
            rep.compare("fsops", || json!({"case": case, "trace": trace}), &real, &strip_unsynced(&ans));
        }
        rep.case("fsops", Some(&trace.join(";")));
        drop(fds);
        let _ = std::fs::remove_dir_all(&dir);
    }
}

// ------------------------------------------------------------------ stream: a save after an interrupted save

const STALE_CLASS: &str = "tensor_store.snapshot.save/stale_temp_file_corrupts_next_save";

/// `load_kv` for comparing the loads of two DIFFERENT saves of one store: the quantising format rebuilds the entity
/// index in file order, and two saves of one store may order their entries differently, so entity ids (and the
/// id-keyed embedding view) are left out there; every key's data (embeddings included) is still compared by key
fn load_kv_c(mode: &str, p: &Path) -> Result<BTreeMap<String, String>, String> {
    load_kv(mode, p).map(|mut kv| {
        if mode == "quant" {
            kv.remove("\u{0}index");
            kv.remove("\u{0}emb");
        }
        kv
    })
}

fn save_mode(st: &TensorStore, mode: &str, path: &Path) -> Result<(), String> {
    let res = guarded(std::panic::AssertUnwindSafe(|| match mode {
        "zstd" => snapshot::save_v3(st.router(), path).map_err(|e| e.to_string()),
        "plain" => snapshot::save_v3_uncompressed(st.router(), path).map_err(|e| e.to_string()),
        _ => st.save_snapshot_compressed(path, CompressionConfig::default()).map_err(|e| e.to_string()),
    }));
    match res {
        Ok(x) => x,
        Err(p) => Err(format!("panic: {p}")),
    }
}

/// the model's operation list for a save of `len` bytes, with the real file names
fn model_save_ops(m: &mut Model, mode: &str, len: usize, name: &str, tmp_name: &str) -> Vec<Op> {
    let quant = u8::from(mode == "quant");
    let (hl, bl) = if mode == "quant" { (0, len) } else { (20.min(len), len.saturating_sub(20)) };
    let text = m.ask(&format!("ops {quant} {hl} {bl}"));
    let nm = |x: &str| if x == "tmp" { tmp_name.to_string() } else { name.to_string() };
    text.split(';')
        .filter_map(|o| {
            let w: Vec<&str> = o.split(' ').collect();
            match w.as_slice() {
                ["create", p] => Some(Op::Create(nm(p))),
                ["open", p] => Some(Op::Open(nm(p))),
                ["write", p, n] => Some(Op::Write(nm(p), n.parse().ok()?)),
                ["fsync", p] => Some(Op::Fsync(nm(p))),
                ["rename", a, b] => Some(Op::Rename(nm(a), nm(b))),
                _ => None,
            }
        })
        .collect()
}

/// perform `ops` on the model's directory, stopping in crash state `stop` (None: run to the end); returns the
/// model's description of the directory it ends in
fn model_drive(m: &mut Model, ops: &[Op], data: &[u8], name: &str, tmp_name: &str, stop: Option<usize>) -> String {
    let nm = |x: &str| if x == tmp_name { "tmp" } else if x == name { "path" } else { "other" };
    let mut cur = Cursor::default();
    let mut i = stop;
    for op in ops {
        let parts = if let Op::Write(_, n) = op { *n } else { 1 };
        let text = |cur: &Cursor, take: usize| -> String {
            match op {
                Op::Create(p) => format!("create {}", nm(p)),
                Op::Open(p) => format!("open {}", nm(p)),
                Op::Write(p, _) => {
                    let o = *cur.off.get(p).unwrap_or(&0);
                    let b = &data[o.min(data.len())..(o + take).min(data.len())];
                    if cur.keep.contains(p) {
                        format!("writeat {} {o} {}", nm(p), hex(b))
                    } else {
                        format!("write {} {}", nm(p), hex(b))
                    }
                }
                Op::Fsync(p) => format!("fsync {}", nm(p)),
                Op::Rename(a, b) => format!("rename {} {}", nm(a), nm(b)),
                Op::Unlink(p) => format!("unlink {}", nm(p)),
            }
        };
        if let Some(k) = i {
            if k < parts {
                return m.ask(&format!("fs_cut {k} {}", text(&cur, parts)));
            }
            i = Some(k - parts);
        }
        m.ask(&format!("fs_op {}", text(&cur, parts)));
        // keep the offsets in step with `apply`
        match op {
            Op::Create(p) => {
                cur.off.insert(p.clone(), 0);
                cur.keep.remove(p);
            }
            Op::Open(p) => {
                cur.off.insert(p.clone(), 0);
                cur.keep.insert(p.clone());
            }
            Op::Write(p, n) => {
                *cur.off.entry(p.clone()).or_insert(0) += n;
            }
            _ => {}
        }
    }
    m.ask("fs_get")
}

fn model_init(m: &mut Model, fs: &SimFs, name: &str, tmp_name: &str) -> String {
    let arg = |n: &str| fs.get(n).map(|f| hex(&content(f))).unwrap_or_else(|| "absent".into());
    m.ask(&format!("fs_init {} {}", arg(name), arg(tmp_name)))
}

/// make the real directory hold exactly the files of `fs`
fn materialise(dir: &Path, fs: &SimFs, names: &[&str]) {
    for n in names {
        match fs.get(*n) {
            Some(f) => std::fs::write(dir.join(n), content(f)).unwrap(),
            None => {
                let _ = std::fs::remove_file(dir.join(n));
            }
        }
    }
}

fn read_dir_fs(dir: &Path, names: &[&str]) -> SimFs {
    let mut fs = SimFs::new();
    for n in names {
        if let Ok(b) = std::fs::read(dir.join(n)) {
            fs.insert((*n).to_string(), SimFile { synced: b, pending: vec![] });
        }
    }
    fs
}

/// index (in the model's enumeration) of the crash state in which `written` bytes of the save have reached the temp file
fn crash_index_for_written(ops: &[Op], written: usize) -> usize {
    let mut idx = 0;
    let mut acc = 0;
    for op in ops {
        match op {
            Op::Write(_, n) => {
                if written < acc + n {
                    return idx + (written - acc);
                }
                acc += n;
                idx += n;
            }
            _ => idx += 1,
        }
    }
    idx
}

/// the crash points of a first save that are interesting for the save that follows
fn pick_first_crash(r: &mut Rng, ops: &[Op], big_len: usize, next_len: usize) -> (usize, &'static str) {
    let total = count_crash_states(ops);
    let at = |w: usize| crash_index_for_written(ops, w.min(big_len.saturating_sub(1)));
    match r.below(12) {
        0 => (0, "before_create"),
        1 => (1, "temp_empty"),
        2 => (at(big_len * 9 / 10), "temp_90_percent"),
        3 => (total - 3, "temp_complete_unsynced"),
        4 => (total - 2, "temp_complete_synced"),
        5 => (total - 1, "after_rename"),
        6 => (at(next_len + 1), "temp_one_byte_longer_than_next"),
        7 => (at(next_len), "temp_as_long_as_next"),
        8 => (at(next_len.saturating_sub(1)), "temp_one_byte_shorter_than_next"),
        9 => (at(1 + r.below(24) as usize), "temp_inside_header"),
        _ => (at(r.below(big_len as u64) as usize), "temp_random_cut"),
    }
}

struct AfterCrashCtx<'a> {
    mode: &'a str,
    name: &'a str,
    tmp_name: String,
    dir: PathBuf,
    label: String,
}

/// One real, complete save of `store` on the directory as it is (with whatever an interrupted save left),
/// then the oracles of the property's crash clause for the save that FOLLOWS a crash:
/// the save succeeds, the path loads as exactly the store just saved, the file at the path is exactly the new
/// snapshot (no byte of a stale temp file behind it), no temp file is left. The real directory is compared with the
/// model's directory after the model's own save sequence.
///
/// `traced = Some((seed, n))`: the save is done by a child process under strace building the same store as `store`
/// (`build_store(seed, n, ..)`); its operation list is compared with the model's — in particular HOW the temp file is
/// opened when a leftover one exists (O_TRUNC, or O_CREAT|O_EXCL after an unlink) — and the bytes it wrote are known
/// exactly from the trace.
#[allow(clippy::too_many_arguments)]
fn save_on_leftover(rep: &mut Report, m: &mut Model, seen: &mut Seen, sc: &mut Scratch, cx: &AfterCrashCtx, before: &SimFs, store: &TensorStore, traced: Option<(u64, usize)>, history: &J) -> bool {
    let path = cx.dir.join(cx.name);
    let names = [cx.name, cx.tmp_name.as_str()];
    // what the save writes, learned from a save of the same store object into an empty directory (the bytes of two
    // saves of one store may differ in entry order; the length and the loaded content are what is compared)
    let fresh = sc.fresh(cx.name);
    if save_mode(store, cx.mode, &fresh).is_err() {
        rep.hit("save_after_crash.reference_save_failed");
        return true;
    }
    let mut expect = std::fs::read(&fresh).unwrap();
    let want_kv = load_kv_c(cx.mode, &fresh);
    let _ = std::fs::remove_dir_all(fresh.parent().unwrap());
    // the traced variant runs first: its trace tells how many bytes the new snapshot has
    let mut traced_res: Option<Result<(), String>> = None;
    if let Some((seed, n)) = traced {
        match traced_save(&cx.dir, &cx.dir.join(cx.name), cx.mode, seed, n) {
            Ok(ops) => {
                let written: usize = ops.iter().map(|o| if let Op::Write(p, k) = o { if *p == cx.tmp_name { *k } else { 0 } } else { 0 }).sum();
                let quant = u8::from(cx.mode == "quant");
                let (hl, bl) = if cx.mode == "quant" { (0, written) } else { (20.min(written), written.saturating_sub(20)) };
                let model_ops = m.ask(&format!("ops {quant} {hl} {bl}"));
                let real_ops = op_text(&ops).replace(&cx.tmp_name, "tmp").replace(cx.name, "path");
                rep.compare("save_after_crash.ops", || json!({"mode": cx.mode, "case": cx.label, "history": history, "what": "operations of a real save started on a directory with a leftover temp file (strace)"}), &real_ops, &model_ops);
                let first = ops.iter().position(|o| matches!(o, Op::Create(p) | Op::Open(p) if *p == cx.tmp_name));
                let kind = match first.map(|i| (&ops[i], i > 0 && matches!(&ops[i - 1], Op::Unlink(p) if *p == cx.tmp_name))) {
                    Some((Op::Create(_), true)) => "exclusive_or_truncating_after_unlink",
                    Some((Op::Create(_), false)) => "truncating",
                    Some((Op::Open(_), _)) => "NOT_TRUNCATING",
                    _ => "not_seen",
                };
                rep.hit(&format!("save_after_crash.temp_open_flags.{kind}"));
                expect.resize(written, 0);
                traced_res = Some(Ok(()));
            }
            Err(e) => {
                rep.hit("save_after_crash.strace_unavailable");
                if !e.starts_with("strace not runnable") {
                    traced_res = Some(Err(e));
                }
            }
        }
    }
    let stale = before.get(&cx.tmp_name).map(content);
    let stale_len = stale.as_ref().map(Vec::len);
    let input = |extra: J| {
        json!({"mode": cx.mode, "case": cx.label, "history": history, "leftover_temp_file_bytes": stale_len,
               "previous_snapshot_bytes": before.get(cx.name).map(|f| content(f).len()), "new_snapshot_bytes": expect.len(), "observed": extra})
    };
    rep.hit(&format!(
        "save_after_crash.leftover.{}",
        match stale_len {
            None => "none",
            Some(l) if l > expect.len() => "longer_than_new",
            Some(l) if l == expect.len() => "same_length_as_new",
            Some(_) => "shorter_than_new",
        }
    ));
    let class = if stale_len.is_some() { STALE_CLASS } else { "tensor_store.snapshot.save/save_after_completed_crash_not_exact" };
    let res = match traced_res {
        Some(r) => r,
        None => save_mode(store, cx.mode, &path),
    };
    let mut ok = true;
    if let Err(e) = &res {
        seen.violation(rep, class, "a save on the directory an interrupted save left behind fails: later saves do not keep working", input(json!({"save_error": e})));
        return false;
    }
    let got = load_kv_c(cx.mode, &path);
    let after = read_dir_fs(&cx.dir, &names);
    let p_bytes = after.get(cx.name).map(content).unwrap_or_default();
    let mut keep_diag: Option<bool> = None;
    // correspondence: the real directory after the real save vs the model's directory after the model's own save
    // sequence writing the new snapshot (= the first `new snapshot length` bytes the real save put at the path)
    if p_bytes.len() >= expect.len() {
        model_init(m, before, cx.name, &cx.tmp_name);
        let ops = model_save_ops(m, cx.mode, expect.len(), cx.name, &cx.tmp_name);
        let new_bytes = &p_bytes[..expect.len()];
        let md = model_drive(m, &ops, new_bytes, cx.name, &cx.tmp_name, None);
        let real = dir_desc(&cx.dir, cx.name, &cx.tmp_name);
        // the same through the model's whole-sequence functions: `saveOps`/`saveOpsQ` (the code), and the
        // non-truncating variant `saveOpsKeep`/`saveOpsQKeep` (NOT the code) as a diagnosis of a mismatch
        let quant = u8::from(cx.mode == "quant");
        let cutp = if cx.mode == "quant" { 0 } else { 20.min(new_bytes.len()) };
        model_init(m, before, cx.name, &cx.tmp_name);
        let whole = m.ask(&format!("fs_save {quant} 0 {} {}", hex(&new_bytes[..cutp]), hex(&new_bytes[cutp..])));
        rep.compare("save_after_crash.model_sequence", || json!({"mode": cx.mode, "what": "applyOps over saveOps vs the same operations sent one by one"}), &md, &whole);
        model_init(m, before, cx.name, &cx.tmp_name);
        let keep = m.ask(&format!("fs_save {quant} 1 {} {}", hex(&new_bytes[..cutp]), hex(&new_bytes[cutp..])));
        let is_keep = strip_unsynced(&keep) == real && strip_unsynced(&md) != real;
        keep_diag = Some(is_keep);
        rep.compare("save_after_crash.final", || input(json!({"real_directory": real, "model_directory": md, "model_of_a_non_truncating_open_predicts_the_real_directory": is_keep})), &real, &strip_unsynced(&md));
    } else {
        rep.hit("save_after_crash.snapshot_length_varies");
    }
    // bytes of the stale temp file that sit behind the new snapshot in the file at the path
    let tail_of_stale = match &stale {
        Some(st) if p_bytes.len() > expect.len() && p_bytes.len() == st.len() => {
            let common = p_bytes.iter().rev().zip(st.iter().rev()).take_while(|(a, b)| a == b).count();
            common.min(p_bytes.len() - expect.len())
        }
        _ => 0,
    };
    // oracle 1: load gives exactly the store that was just saved
    if got.is_err() || got != want_kv {
        ok = false;
        seen.violation(
            rep,
            class,
            "the save after an interrupted save returned Ok, but loading the path does not give the store just saved (and the previous good snapshot is gone)",
            input(json!({"load": match &got { Err(e) => e.clone(), Ok(_) => "loads, but as different content".into() },
                         "file_at_path_bytes": p_bytes.len(), "bytes_of_stale_temp_file_behind_new_snapshot": tail_of_stale,
                         "model_of_a_non_truncating_open_predicts_the_real_directory": keep_diag})),
        );
    }
    // oracle 2: nothing of the stale temp file beyond the new snapshot's length
    if ok && tail_of_stale > 0 {
        ok = false;
        seen.violation(rep, class, "the file at the path after the save carries bytes of the stale temp file behind the new snapshot", input(json!({"file_at_path_bytes": p_bytes.len(), "bytes_of_stale_temp_file_behind_new_snapshot": tail_of_stale})));
    }
    // oracle 3: no temp file left
    if after.contains_key(&cx.tmp_name) {
        ok = false;
        seen.violation(rep, "tensor_store.snapshot.save/temp_file_left_behind", "temp file exists after a successful save", input(json!({"temp_file_bytes": after.get(&cx.tmp_name).map(|f| content(f).len())})));
    }
    rep.hit(if ok { "save_after_crash.next_save.exact" } else { "save_after_crash.next_save.BROKEN" });
    ok
}

/// a crash state of a save started on `before`, as a real directory; checks old-or-new at the path and the model's state
#[allow(clippy::too_many_arguments)]
fn crash_on_leftover(rep: &mut Report, m: &mut Model, seen: &mut Seen, cx: &AfterCrashCtx, before: &SimFs, ops: &[Op], data: &[u8], idx: usize, allowed: &[&Result<BTreeMap<String, String>, String>], history: &J) -> Option<SimFs> {
    let names = [cx.name, cx.tmp_name.as_str()];
    let st = nth_crash_state(ops, data, before, idx)?;
    materialise(&cx.dir, &st, &names);
    model_init(m, before, cx.name, &cx.tmp_name);
    let md = model_drive(m, ops, data, cx.name, &cx.tmp_name, Some(idx));
    let sd = sim_desc(&st, cx.name, &cx.tmp_name);
    rep.compare("save_after_crash.state", || json!({"mode": cx.mode, "case": cx.label, "history": history, "index": idx, "trace": op_text(ops)}), &sd, &md);
    if data.len() <= 3000 && !ops.iter().any(|o| matches!(o, Op::Open(_) | Op::Unlink(_))) {
        // the model's own enumeration `crashStates` of its save sequence, started on the same directory
        let quant = u8::from(cx.mode == "quant");
        let cutp = if cx.mode == "quant" { 0 } else { 20.min(data.len()) };
        model_init(m, before, cx.name, &cx.tmp_name);
        let en = m.ask(&format!("fs_crash {quant} 0 {} {} {idx}", hex(&data[..cutp]), hex(&data[cutp..])));
        rep.compare("save_after_crash.model_enumeration", || json!({"mode": cx.mode, "index": idx, "what": "crashStates[i] vs the operations sent one by one with the i-th cut"}), &md, &en);
        rep.hit("save_after_crash.crash_state.cross_checked_with_crashStates");
    }
    let got = load_kv_c(cx.mode, &cx.dir.join(cx.name));
    let fine = match (&got, st.contains_key(cx.name)) {
        (Err(_), false) => allowed.iter().any(|a| a.is_err()), // nothing at the path before, nothing now
        _ => got.is_ok() && allowed.iter().any(|a| **a == got),
    };
    rep.hit(if fine { "save_after_crash.crash_state.old_or_new" } else { "save_after_crash.crash_state.TORN" });
    if !fine {
        seen.violation(rep, "tensor_store.snapshot.save/crash_state_neither_old_nor_new", "a crash state of a save that started on the leftovers of an interrupted save loads as neither the previous nor the new snapshot", json!({"mode": cx.mode, "case": cx.label, "history": history, "index": idx, "crash_state": sd, "load": match &got { Err(e) => e.clone(), Ok(_) => "content that is neither old nor new".into() }, "trace": op_text(ops)}));
    }
    // the next save starts from the directory as it is on disk (a process crash loses no written byte)
    Some(read_dir_fs(&cx.dir, &names))
}

fn stream_save_after_crash(rep: &mut Report, m: &mut Model, root: &Rng, thorough: bool, sc: &mut Scratch) {
    let mut r = root.fork("save_after_crash");
    let mut seen = Seen(BTreeMap::new());
    let modes = ["plain", "zstd", "quant"];
    let have_prlimit = std::process::Command::new("prlimit").arg("--version").output().map(|o| o.status.success()).unwrap_or(false);
    if !have_prlimit {
        rep.note("prlimit unavailable: the really-killed first save of the directed save_after_crash cases is replaced by a reconstructed crash state");
    }
    let random_cases = if thorough { 150 } else { 14 };
    for mode in modes {
        for case in 0..(2 + random_cases) {
            let name = if mode == "quant" { "store.cmp" } else { "store.snap" };
            let path = sc.fresh(name);
            let dir = path.parent().unwrap().to_path_buf();
            let tmp_name = snapshot::temp_path_for(&path).file_name().unwrap().to_string_lossy().to_string();
            let names = [name, tmp_name.as_str()];
            let directed = case < 2;
            let (n_old, n_big, n_next, n_last) = if directed {
                (5usize, if case == 0 { 120usize } else { 260 }, 4usize, 6usize)
            } else {
                (r.below(7) as usize, 20 + r.below(if thorough { 500 } else { 160 }) as usize, r.below(10) as usize, r.below(10) as usize)
            };
            let (s_old, s_big, s_next, s_last) = (r.next_u64(), r.next_u64(), r.next_u64(), r.next_u64());
            let cx = AfterCrashCtx { mode, name, tmp_name: tmp_name.clone(), dir: dir.clone(), label: format!("{mode}#{case}") };
            // 0. the previous complete snapshot
            let old = build_store(s_old, n_old, false);
            if save_mode(&old.store, mode, &path).is_err() {
                continue;
            }
            let old_kv = load_kv_c(mode, &path);
            let fs0 = read_dir_fs(&dir, &names);
            // the store of the save that follows the crash
            let next = build_store(s_next, n_next, false);
            let next_ref = sc.fresh(name);
            let next_len = if save_mode(&next.store, mode, &next_ref).is_ok() { std::fs::read(&next_ref).map(|b| b.len()).unwrap_or(0) } else { 0 };
            let next_kv = load_kv_c(mode, &next_ref);
            let next_bytes = std::fs::read(&next_ref).unwrap_or_default();
            let _ = std::fs::remove_dir_all(next_ref.parent().unwrap());
            // 1. a save of a LARGE store is interrupted
            let mut history = json!({"previous_snapshot": {"seed": s_old, "entries": n_old}, "interrupted_save": {"seed": s_big, "entries": n_big}, "next_save": {"seed": s_next, "entries": n_next}});
            let st1: SimFs;
            let big_kv;
            if directed && case == 1 && have_prlimit {
                // a REAL crash: the child is killed by the kernel (RLIMIT_FSIZE -> SIGXFSZ) once the temp file has `cut` bytes
                let probe = sc.fresh(name);
                child_save(&probe.to_string_lossy(), mode, s_big, n_big);
                let big_len = std::fs::read(&probe).map(|b| b.len()).unwrap_or(0);
                let _ = std::fs::remove_dir_all(probe.parent().unwrap());
                let cut = big_len * 9 / 10;
                let exe = std::env::current_exe().unwrap();
                let out = std::process::Command::new("prlimit")
                    .args([&format!("--fsize={cut}"), "--core=0"])
                    .arg(&exe)
                    .args(["--child-save", &path.to_string_lossy(), mode, &s_big.to_string(), &n_big.to_string()])
                    .output();
                let killed = matches!(&out, Ok(o) if !o.status.success());
                rep.hit(if killed { "save_after_crash.first_save.really_killed" } else { "save_after_crash.first_save.kill_did_not_happen" });
                st1 = read_dir_fs(&dir, &names);
                let left = st1.get(&tmp_name).map(|f| content(f).len());
                history["interrupted_save"]["how"] = json!(format!("child process killed by RLIMIT_FSIZE={cut} of ~{big_len} bytes; temp file left with {left:?} bytes"));
                // the model's crash state with that many bytes in the temp file (content as found on disk)
                if let (true, Some(tb)) = (killed, st1.get(&tmp_name).map(content)) {
                    let ops1 = model_save_ops(m, mode, big_len.max(tb.len() + 1), name, &tmp_name);
                    model_init(m, &fs0, name, &tmp_name);
                    let mut data = tb.clone();
                    data.resize(big_len.max(tb.len() + 1), 0);
                    let md = model_drive(m, &ops1, &data, name, &tmp_name, Some(crash_index_for_written(&ops1, tb.len())));
                    let real = dir_desc(&dir, name, &tmp_name);
                    rep.compare("save_after_crash.real_kill", || json!({"mode": mode, "history": history}), &real, &strip_unsynced(&md));
                }
                big_kv = Err("not completed".to_string());
            } else {
                let big = build_store(s_big, n_big, n_big >= 100);
                let big_ref = sc.fresh(name);
                if save_mode(&big.store, mode, &big_ref).is_err() {
                    continue;
                }
                let big_bytes = std::fs::read(&big_ref).unwrap();
                big_kv = load_kv_c(mode, &big_ref);
                let _ = std::fs::remove_dir_all(big_ref.parent().unwrap());
                let ops1 = model_save_ops(m, mode, big_bytes.len(), name, &tmp_name);
                let (i1, kind) = if directed { (crash_index_for_written(&ops1, big_bytes.len() * 9 / 10), "temp_90_percent") } else { pick_first_crash(&mut r, &ops1, big_bytes.len(), next_len) };
                rep.hit(&format!("save_after_crash.first_crash.{kind}"));
                history["interrupted_save"]["how"] = json!(format!("crash state {i1} of {} ({kind}) of the save's operations {}", count_crash_states(&ops1), op_text(&ops1)));
                let allowed = [&old_kv, &big_kv];
                let Some(s) = crash_on_leftover(rep, m, &mut seen, &cx, &fs0, &ops1, &big_bytes, i1, &allowed, &history) else { continue };
                st1 = s;
            }
            // crash atomicity of the first save, on the real directory
            let after1_kv = load_kv_c(mode, &path);
            if !(after1_kv.is_ok() && (after1_kv == old_kv || after1_kv == big_kv)) {
                seen.violation(rep, "tensor_store.snapshot.save/crash_state_neither_old_nor_new", "after the interrupted save the path loads as neither the previous nor the new snapshot", json!({"mode": mode, "history": history, "load": after1_kv.as_ref().err()}));
            }
            // 2. either the next save completes, or it is interrupted too and a third one completes
            let second_crashes = if directed { false } else { r.chance(1, 2) };
            if !second_crashes {
                if directed && case == 0 {
                    // the demo's shape: recover from the path, one more write, save again
                    let rec = if mode == "quant" { TensorStore::load_snapshot_compressed(&path).ok() } else { TensorStore::load_snapshot(&path).ok() };
                    if let Some(rec) = rec {
                        let mut d = TensorData::new();
                        d.set("id", TensorValue::Scalar(ScalarValue::Int(77)));
                        d.set("payload", TensorValue::Scalar(ScalarValue::String("after the crash".into())));
                        let _ = rec.put("user:new", d);
                        history["next_save"] = json!("the store recovered from the path after the crash, plus one key");
                        save_on_leftover(rep, m, &mut seen, sc, &cx, &st1, &rec, None, &history);
                    }
                } else {
                    save_on_leftover(rep, m, &mut seen, sc, &cx, &st1, &next.store, if directed { Some((s_next, n_next)) } else { None }, &history);
                }
            } else {
                let ops2 = model_save_ops(m, mode, next_bytes.len(), name, &tmp_name);
                let total2 = count_crash_states(&ops2);
                let i2 = match r.below(7) {
                    0 => 0,
                    1 => 1,
                    2 => crash_index_for_written(&ops2, (1 + r.below(19) as usize).min(next_bytes.len().saturating_sub(1))),
                    3 => total2 - 3,
                    4 => total2 - 2,
                    5 => total2 - 1,
                    _ => r.below(total2 as u64) as usize,
                };
                history["next_save"]["how"] = json!(format!("interrupted too: crash state {i2} of {total2}"));
                history["last_save"] = json!({"seed": s_last, "entries": n_last});
                rep.hit("save_after_crash.second_save_interrupted");
                let allowed = [&after1_kv, &next_kv];
                let Some(st2) = crash_on_leftover(rep, m, &mut seen, &cx, &st1, &ops2, &next_bytes, i2, &allowed, &history) else { continue };
                let last = build_store(s_last, n_last, false);
                save_on_leftover(rep, m, &mut seen, sc, &cx, &st2, &last.store, None, &history);
            }
            rep.case("save_after_crash", Some(&format!("{mode}|{case}|{s_big}|{n_big}|{n_next}")));
            if case == 0 && mode == "plain" {
                rep.sample(json!({"stream": "save_after_crash", "mode": mode, "history": history, "directory_before_next_save": sim_desc(&st1, name, &tmp_name), "directory_after": dir_desc(&dir, name, &tmp_name)}));
            }
            let _ = std::fs::remove_dir_all(&dir);
        }
    }
}

// ------------------------------------------------------------------ stream: op sequences on a router, then snapshot / restore of the state they reach

fn enc_data_m(d: &TensorData) -> String {
    let s = enc_data(d);
    if s.is_empty() {
        "-".into()
    } else {
        s
    }
}

fn canon_data(s: &str) -> String {
    if s == "-" || s == "notfound" {
        return s.to_string();
    }
    let mut f: Vec<&str> = s.split('|').collect();
    f.sort_unstable();
    f.join("|")
}

fn canon_entry(e: &str) -> String {
    match e.split_once('~') {
        Some((k, d)) => format!("{k}~{}", canon_data(d)),
        None => e.to_string(),
    }
}

fn canon_entries(s: &str, sort: bool) -> String {
    if s == "-" {
        return s.to_string();
    }
    let mut v: Vec<String> = s.split('&').map(canon_entry).collect();
    if sort {
        v.sort();
    }
    v.join("&")
}

/// canonical form of the driver's `rt_dump`: map-like sections sorted (cache slots keep their order)
fn canon_dump(s: &str) -> String {
    s.split('#')
        .map(|sec| {
            if let Some(x) = sec.strip_prefix("emb=") {
                if x == "-" {
                    return sec.to_string();
                }
                let mut v: Vec<(u64, &str)> = x.split('/').map(|e| (e.split(':').next().unwrap_or("0").parse().unwrap_or(0), e)).collect();
                v.sort();
                format!("emb={}", v.iter().map(|e| e.1).collect::<Vec<_>>().join("/"))
            } else if let Some(x) = sec.strip_prefix("md=") {
                format!("md={}", canon_entries(x, true))
            } else if let Some(x) = sec.strip_prefix("cache=") {
                match x.split_once(':') {
                    Some((cap, es)) => format!("cache={cap}:{}", canon_entries(es, false)),
                    None => sec.to_string(),
                }
            } else {
                sec.to_string()
            }
        })
        .collect::<Vec<_>>()
        .join("#")
}

fn join_or(sep: &str, v: &[String]) -> String {
    if v.is_empty() {
        "-".into()
    } else {
        v.join(sep)
    }
}

/// the real router in the format of the driver's `rt_dump`
fn real_dump(rt: &SlabRouter) -> String {
    let total = rt.index.total_entries();
    let vocab: Vec<String> = (0..total).map(|i| rt.index.key_for(EntityId::new(i as u64)).map_or("x".to_string(), |k| hexs(&k))).collect();
    let mut embs = rt.embeddings.entries();
    embs.sort_by_key(|e| e.0.as_u64());
    let emb: Vec<String> = embs.iter().map(|(id, v)| format!("{}:{}", id.as_u64(), nats(&bits32(v)))).collect();
    let md: Vec<String> = rt.metadata.scan("").iter().map(|(k, d)| format!("{}~{}", hexs(k), enc_data_m(d))).collect();
    let cache: Vec<String> = rt.cache.scan_prefix("").iter().map(|k| format!("{}~{}", hexs(k), rt.cache.get(k).map_or("notfound".to_string(), |d| enc_data_m(&d)))).collect();
    canon_dump(&format!(
        "idx={}#live={}#dim={}#emb={}#md={}#cache={}:{}#len={}#count={}",
        join_or(",", &vocab),
        rt.index.len(),
        rt.embeddings.dimension(),
        join_or("/", &emb),
        join_or("&", &md),
        rt.cache.capacity(),
        join_or("&", &cache),
        rt.len(),
        rt.len() + rt.index.len()
    ))
}

fn show_pairs(v: &[(u64, u64)]) -> String {
    join_or(",", &v.iter().map(|(a, b)| format!("{a}:{b}")).collect::<Vec<_>>())
}

/// the real graph tensor in the format of the driver's `g_dump` (incoming lists sorted: their order is
/// the insertion order, which a restore legitimately changes)
fn real_gdump(rt: &SlabRouter, nodes: &[u64], ids: &[u64], types: &[String]) -> String {
    let g = &rt.graph;
    let out: Vec<String> = nodes.iter().map(|n| format!("{n}>{}", show_pairs(&g.outgoing(EntityId::new(*n)).iter().map(|(t, e)| (t.as_u64(), e.as_u64())).collect::<Vec<_>>()))).collect();
    let inc: Vec<String> = nodes
        .iter()
        .map(|n| {
            let mut v: Vec<(u64, u64)> = g.incoming(EntityId::new(*n)).iter().map(|(t, e)| (t.as_u64(), e.as_u64())).collect();
            v.sort();
            format!("{n}<{}", show_pairs(&v))
        })
        .collect();
    let data: Vec<String> = ids.iter().map(|i| format!("{i}~{}", g.get_edge_data(tensor_store::EdgeId::new(*i)).map_or("notfound".to_string(), |d| enc_data_m(&d)))).collect();
    let _ = types;
    format!("out={}#in={}#data={}#pending={} edges={}", join_or("|", &out), join_or("|", &inc), join_or("&", &data), g.pending_count(), g.edge_count())
}

/// canonical form of the driver's `g_dump`: incoming lists sorted, the counters the real graph exposes
fn canon_gdump(s: &str) -> String {
    let mut out = vec![];
    for sec in s.split('#') {
        if let Some(x) = sec.strip_prefix("in=") {
            let items: Vec<String> = x
                .split('|')
                .map(|it| match it.split_once('<') {
                    Some((n, ps)) if ps != "-" => {
                        let mut v: Vec<(u64, u64)> = ps.split(',').filter_map(|p| p.split_once(':').map(|(a, b)| (a.parse().unwrap_or(0), b.parse().unwrap_or(0)))).collect();
                        v.sort();
                        format!("{n}<{}", show_pairs(&v))
                    }
                    _ => it.to_string(),
                })
                .collect();
            out.push(format!("in={}", items.join("|")));
        } else if let Some(x) = sec.strip_prefix("data=") {
            out.push(format!("data={}", canon_entries(x, false)));
        } else if sec.starts_with("next=") {
            // next= max= pending= edges= types=: keep what the real graph exposes
            let kv: BTreeMap<&str, &str> = sec.split(' ').filter_map(|p| p.split_once('=')).collect();
            out.push(format!("pending={} edges={}", kv.get("pending").unwrap_or(&"?"), kv.get("edges").unwrap_or(&"?")));
        } else {
            out.push(sec.to_string());
        }
    }
    out.join("#")
}

fn real_bdump(rt: &SlabRouter, hashes: &[tensor_store::ChunkHash]) -> String {
    let items: Vec<String> = hashes.iter().map(|h| format!("{}:{}:{}", h.as_u64(), rt.blobs.get(h).map_or("none".to_string(), |d| hex(&d)), u8::from(rt.blobs.contains(h)))).collect();
    format!("{}#chunks={} bytes={} segments={}", join_or(",", &items), rt.blobs.chunk_count(), rt.blobs.total_bytes(), rt.blobs.segment_count())
}

struct RouterCase {
    rt: SlabRouter,
    dim: usize,
    cap: usize,
    nodes: Vec<u64>,
    edge_ids: Vec<u64>,
    hashes: Vec<tensor_store::ChunkHash>,
    live: bool,
    trace: Vec<String>,
}

impl RouterCase {
    fn ask(&mut self, rep: &mut Report, m: &mut Model, stream: &str, line: &str, imp: &str, canon: fn(&str) -> String) {
        self.trace.push(line.to_string());
        if !self.live {
            return;
        }
        let ans = canon(&m.ask(line));
        let trace = &self.trace;
        if !rep.compare(stream, || json!({"ops": trace.iter().rev().take(40).rev().collect::<Vec<_>>(), "dim": self.dim, "cap": self.cap}), imp, &ans) {
            // after the first disagreement the run continues real-only: the oracles keep running
            self.live = false;
        }
    }
}

fn ident(s: &str) -> String {
    s.to_string()
}

fn gen_router_key(r: &mut Rng) -> String {
    match r.below(16) {
        0..=4 => format!("emb:{}", r.below(5)),
        5..=7 => format!("_cache:{}", r.below(7)),
        8 => format!("node:{}", r.below(3)),
        9 => format!("edge:{}", r.below(3)),
        10 => format!("table:t{}", r.below(2)),
        11 => "ключ:✓".to_string(),
        12 => String::new(),
        13 => "emb:".to_string(),
        _ => format!("user:{}", r.below(4)),
    }
}

fn gen_small_value(r: &mut Rng) -> TensorValue {
    loop {
        let (v, _) = gen_value(r);
        match &v {
            TensorValue::Vector(x) if x.len() > 48 => continue,
            TensorValue::Scalar(ScalarValue::String(s)) if s.len() > 64 => continue,
            TensorValue::Scalar(ScalarValue::Bytes(b)) if b.len() > 64 => continue,
            TensorValue::Pointer(s) if s.len() > 64 => continue,
            TensorValue::Pointers(ps) if ps.iter().any(|s| s.len() > 64) => continue,
            _ => return v,
        }
    }
}

/// a value for `key`; `emb:` keys get an `_embedding` field of the slab's dimension, of another
/// length, of another kind, or none at all
fn gen_router_data(r: &mut Rng, rep: &mut Report, key: &str, dim: usize) -> TensorData {
    let mut d = TensorData::new();
    for _ in 0..r.below(3) {
        let f = *r.pick(&["a", "b", "vector", "ids", "", "поле"]);
        d.set(f, gen_small_value(r));
    }
    if key.starts_with("emb:") || r.chance(1, 12) {
        match r.below(10) {
            0 => rep.hit("router.put.emb.no_embedding_field"),
            1 => {
                rep.hit("router.put.emb.embedding_not_a_vector");
                d.set("_embedding", TensorValue::Scalar(ScalarValue::Int(7)));
            }
            2 => {
                rep.hit("router.put.emb.wrong_dimension");
                let n = if r.chance(1, 2) { dim + 1 } else { r.below(dim as u64) as usize };
                d.set("_embedding", TensorValue::Vector(gen_vec_kind(r, n, 0)));
            }
            3 => {
                rep.hit("router.put.emb.sparse_value");
                d.set("_embedding", TensorValue::Sparse(gen_sparse(r)));
            }
            _ => {
                rep.hit("router.put.emb.right_dimension");
                // at and above the tensor-train threshold only mostly-zero vectors (sparse form: exact);
                // dense long vectors are the business of the `emb` and `stores` streams
                let k = if dim >= TT_MIN { 2 } else { *r.pick(&[0u64, 2, 4, 5]) };
                d.set("_embedding", TensorValue::Vector(gen_vec_kind(r, dim, k)));
            }
        }
    }
    d
}

fn router_sections_diff(a: &str, b: &str) -> Vec<String> {
    let sa: Vec<&str> = a.split('#').collect();
    let sb: Vec<&str> = b.split('#').collect();
    let mut out = vec![];
    for (x, y) in sa.iter().zip(sb.iter()) {
        if x != y {
            out.push(x.split('=').next().unwrap_or("?").to_string());
        }
    }
    if sa.len() != sb.len() {
        out.push("shape".into());
    }
    out
}

/// snapshot + restore of the state the case has reached, through one of the three v3 forms; model:
/// `rt_snap` (register 1 := restore(snapshot(register 0)), register 0 := what the save leaves)
fn router_snapshot_check(rep: &mut Report, m: &mut Model, seen: &mut Seen, c: &mut RouterCase, fmt: Fmt, sc: &mut Scratch, types: &[String]) -> Option<SlabRouter> {
    let before = real_dump(&c.rt);
    let gbefore = real_gdump(&c.rt, &c.nodes, &c.edge_ids, types);
    let bbefore = real_bdump(&c.rt, &c.hashes);
    let path = sc.fresh("router.snap");
    let input = |c: &RouterCase| json!({"format": fmt.name(), "embedding_dim": c.dim, "cache_capacity": c.cap, "ops": c.trace.iter().rev().take(60).rev().collect::<Vec<_>>()});
    rep.hit(&format!("router.snapshot.{}", fmt.name()));
    match save_load(&c.rt, fmt, &path) {
        Err(e) => {
            seen.violation(rep, &format!("tensor_store.snapshot.{}/save_or_load_failed", fmt.name()), &e, input(c));
            None
        }
        Ok((loaded, bytes)) => {
            let site = format!("tensor_store.snapshot.{}", fmt.name());
            // --- oracles on the real outputs
            let after = real_dump(&loaded);
            for sec in router_sections_diff(&before, &after) {
                let kind = match sec.as_str() {
                    "idx" | "live" => "entity_index_not_restored",
                    "dim" => "embedding_dimension_not_restored",
                    "emb" => "embedding_slab_not_restored",
                    "md" => "metadata_not_restored",
                    "cache" => "cache_not_restored",
                    _ => "counters_not_restored",
                };
                seen.violation(rep, &format!("{site}/{kind}"), "after an op sequence, the loaded router differs from the saved one", json!({"case": input(c), "saved": before.chars().take(1500).collect::<String>(), "loaded": after.chars().take(1500).collect::<String>()}));
            }
            let self_after = real_dump(&c.rt);
            if self_after != before {
                seen.violation(rep, &format!("{site}/save_changes_the_saved_store"), "saving changed the key-addressed content of the store being saved", json!({"case": input(c)}));
            }
            let gafter = real_gdump(&loaded, &c.nodes, &c.edge_ids, types);
            let gself = real_gdump(&c.rt, &c.nodes, &c.edge_ids, types);
            graph_oracle(rep, seen, &gbefore, &gafter, &gself, &input(c));
            let bafter = real_bdump(&loaded, &c.hashes);
            if bafter != bbefore {
                let strip = |s: &str| s.split('#').next().unwrap_or("").split(',').map(|it| it.rsplitn(2, ':').nth(1).unwrap_or("").to_string()).collect::<Vec<_>>().join(",");
                let class = if strip(&bafter) == strip(&bbefore) && bafter.split('#').nth(1) == bbefore.split('#').nth(1) {
                    "tensor_store.blob_log.snapshot/garbage_marks_not_restored"
                } else {
                    "tensor_store.blob_log.snapshot/blob_log_not_restored"
                };
                seen.violation(rep, class, "the blob log of the loaded router answers differently (hash:data:contains, counters)", json!({"case": input(c), "saved": bbefore, "loaded": bafter}));
            }
            // header of the two file forms
            if fmt != Fmt::Bytes && bytes.len() >= 20 {
                let count = u64::from_le_bytes(bytes[12..20].try_into().unwrap());
                if count != (c.rt.len() + c.rt.index.len()) as u64 {
                    rep.hit("router.snapshot.header_count_differs");
                }
            }
            // --- correspondence
            if c.live {
                let ok = m.ask("rt_snap 1");
                let want = format!("ok {}", c.rt.len() + c.rt.index.len());
                c.ask_noop(rep, "router.snapshot", "rt_snap 1", &want, &ok);
                c.ask(rep, m, "router.snapshot", "rt_dump 1", &after, canon_dump);
                c.ask(rep, m, "router.snapshot", "rt_dump 0", &self_after, canon_dump);
                let gl = format!("g_dump 1 {} {}", nats(&c.nodes), nats(&c.edge_ids));
                c.ask(rep, m, "graph.snapshot", &gl, &canon_gdump(&gafter), canon_gdump);
                let gl0 = format!("g_dump 0 {} {}", nats(&c.nodes), nats(&c.edge_ids));
                c.ask(rep, m, "graph.snapshot", &gl0, &canon_gdump(&gself), canon_gdump);
                let hs: Vec<u64> = c.hashes.iter().map(|h| h.as_u64()).collect();
                c.ask(rep, m, "blob.snapshot", &format!("b_dump 1 {}", nats(&hs)), &bafter, ident);
            }
            rep.case("router", Some(&format!("snapshot|{}|{}", fmt.name(), fnv(&c.trace.join(";")))));
            Some(loaded)
        }
    }
}

impl RouterCase {
    fn ask_noop(&mut self, rep: &mut Report, stream: &str, line: &str, imp: &str, model: &str) {
        self.trace.push(line.to_string());
        let trace = &self.trace;
        if self.live && !rep.compare(stream, || json!({"ops": trace.iter().rev().take(40).rev().collect::<Vec<_>>()}), imp, model) {
            self.live = false;
        }
    }
}

/// graph-tensor clauses on the real outputs: `before` = the saved graph before the save, `after` = the
/// loaded graph, `selfafter` = the saved graph after the save
fn graph_oracle(rep: &mut Report, seen: &mut Seen, before: &str, after: &str, selfafter: &str, input: &J) {
    let sec = |s: &str, name: &str| s.split('#').find_map(|x| x.strip_prefix(name).map(str::to_string)).unwrap_or_default();
    let targets = |s: &str| -> String {
        // out=n>dst:id,dst:id|...  ->  n>dst,dst|...
        s.split('|').map(|it| match it.split_once('>') {
            Some((n, ps)) => format!("{n}>{}", ps.split(',').map(|p| p.split(':').next().unwrap_or("")).collect::<Vec<_>>().join(",")),
            None => it.to_string(),
        }).collect::<Vec<_>>().join("|")
    };
    let (ob, oa) = (sec(before, "out="), sec(after, "out="));
    if ob != oa {
        if targets(&ob) == targets(&oa) {
            seen.violation(rep, "tensor_store.graph_tensor.restore/edge_ids_renumbered", "outgoing() of the loaded graph tensor lists the same targets under other edge ids than the saved one (restore re-adds the edges and numbers them 0, 1, 2 … in snapshot order)", json!({"case": input, "saved_outgoing": ob, "loaded_outgoing": oa}));
        } else {
            seen.violation(rep, "tensor_store.graph_tensor.restore/outgoing_not_restored", "outgoing() of the loaded graph tensor lists other targets than the saved one", json!({"case": input, "saved_outgoing": ob, "loaded_outgoing": oa}));
        }
    }
    // incoming(): entries of the SAVED graph whose edge id is not a live edge (outgoing lists every live
    // edge) are deleted edges that a merge brought back; they are judged separately
    let live_ids: std::collections::BTreeSet<String> = ob.split('|').flat_map(|it| it.split_once('>').map_or(vec![], |(_, ps)| ps.split(',').filter_map(|p| p.split_once(':').map(|x| x.1.to_string())).collect())).collect();
    let drop_stale = |s: &str| -> String {
        s.split('|').map(|it| match it.split_once('<') {
            Some((n, ps)) => {
                let v: Vec<&str> = ps.split(',').filter(|p| p.split_once(':').is_some_and(|x| live_ids.contains(x.1))).collect();
                format!("{n}<{}", if v.is_empty() { "-".to_string() } else { v.join(",") })
            }
            None => it.to_string(),
        }).collect::<Vec<_>>().join("|")
    };
    let ib_raw = sec(before, "in=");
    let (ib, ia) = (drop_stale(&ib_raw), sec(after, "in="));
    if ib != ib_raw {
        seen.violation(rep, "tensor_store.graph_tensor.merge/deleted_edges_reappear_in_incoming", "incoming() of the graph tensor being saved lists edges that were deleted (an earlier merge, automatic or by a save, emptied the deleted set without pruning the incoming index)", json!({"case": input, "incoming": ib_raw, "live_edges": ob}));
    }
    if ib != ia {
        let srcs = |s: &str| -> String {
            s.split('|').map(|it| match it.split_once('<') {
                Some((n, ps)) => { let mut v: Vec<&str> = ps.split(',').map(|p| p.split(':').next().unwrap_or("")).collect(); v.sort_unstable(); format!("{n}<{}", v.join(",")) }
                None => it.to_string(),
            }).collect::<Vec<_>>().join("|")
        };
        if srcs(&ib) == srcs(&ia) {
            seen.violation(rep, "tensor_store.graph_tensor.restore/edge_ids_renumbered", "incoming() of the loaded graph tensor lists the same sources under other edge ids", json!({"case": input, "saved_incoming": ib, "loaded_incoming": ia}));
        } else {
            seen.violation(rep, "tensor_store.graph_tensor.restore/incoming_not_restored", "incoming() of the loaded graph tensor lists other sources than the saved one", json!({"case": input, "saved_incoming": ib, "loaded_incoming": ia}));
        }
    }
    let (db, da) = (sec(before, "data="), sec(after, "data="));
    if db != da {
        seen.violation(rep, "tensor_store.graph_tensor.restore/edge_data_not_restored", "get_edge_data differs for an edge id", json!({"case": input, "saved": db, "loaded": da}));
    } else if ob != oa && db != "-" && db.split('&').any(|e| !e.ends_with("~notfound")) {
        seen.violation(rep, "tensor_store.graph_tensor.restore/edge_data_attached_to_other_edge", "edge data is keyed by edge id and came back unchanged while the edges were renumbered: the data now belongs to another edge (or to none)", json!({"case": input, "saved_outgoing": ob, "loaded_outgoing": oa, "edge_data": db}));
    }
    let cnt = |s: &str| s.split('#').last().unwrap_or("").split(' ').find_map(|p| p.strip_prefix("edges=").map(str::to_string)).unwrap_or_default();
    if cnt(before) != cnt(after) {
        seen.violation(rep, "tensor_store.graph_tensor.restore/edge_count_not_restored", "edge_count() differs", json!({"case": input, "saved": cnt(before), "loaded": cnt(after)}));
    }
    // the save itself (snapshot() merges): nothing the saved graph answers may change
    let strip_pending = |s: &str| s.rsplit_once("#pending=").map_or(s.to_string(), |(a, b)| format!("{a}#{}", b.split(' ').nth(1).unwrap_or("")));
    if strip_pending(before) != strip_pending(selfafter) {
        let only_incoming = sec(before, "out=") == sec(selfafter, "out=") && sec(before, "data=") == sec(selfafter, "data=") && cnt(before) == cnt(selfafter);
        if only_incoming {
            seen.violation(rep, "tensor_store.graph_tensor.merge/deleted_edges_reappear_in_incoming", "after the save, incoming() of the SAVED graph tensor lists deleted edges again (snapshot() merges; merge() empties the deleted set without pruning the incoming index)", json!({"case": input, "incoming_before_save": sec(before, "in="), "incoming_after_save": sec(selfafter, "in=")}));
        } else {
            seen.violation(rep, "tensor_store.graph_tensor.snapshot/save_changes_the_saved_graph", "saving changed what the saved graph tensor answers", json!({"case": input, "before": before, "after": selfafter}));
        }
    }
}

fn stream_router(rep: &mut Report, m: &mut Model, root: &Rng, thorough: bool, sc: &mut Scratch) {
    let mut r = root.fork("router");
    let mut seen = Seen(BTreeMap::new());
    for b in [
        "router.put.emb.right_dimension", "router.put.emb.wrong_dimension", "router.put.emb.no_embedding_field", "router.put.emb.embedding_not_a_vector",
        "router.put.emb.readd_after_delete", "router.put.emb.overwrite", "router.put.cache.evicts", "router.put.cache.update_in_place", "router.delete.emb", "router.delete.cache",
        "router.delete.notfound", "router.graph.auto_merge", "router.graph.delete_edge", "router.graph.delete_then_snapshot", "router.graph.out_of_order_sources",
        "router.blob.sealed_segment", "router.blob.duplicate_append", "router.blob.garbage_then_snapshot", "router.snapshot.bytes", "router.snapshot.file_plain", "router.snapshot.file_zstd",
        "router.snapshot.then_more_ops", "router.snapshot.loaded_router_adopted", "router.cache.evict",
    ] {
        rep.expected_branches.push(b.to_string());
    }
    let types: Vec<String> = vec!["".into(), "a".into(), "b".into(), "default".into(), "знает".into()];
    let n_cases = if thorough { 400 } else { 40 };
    for case_no in 0..n_cases {
        // directed shapes first: the shortest histories in which one guard is all that stands
        // between the op sequence and a wrong restore
        let dim = *r.pick(&[2usize, 3, 4, 8, 16, 255, 384]);
        let cap = *r.pick(&[1usize, 2, 3, 5, 10_000]);
        let threshold = *r.pick(&[1usize, 2, 3, 10_000]);
        let seg = *r.pick(&[16usize, 64, 1 << 20]);
        let cfg = SlabRouterConfig { embedding_dim: dim, cache_capacity: cap, graph_merge_threshold: threshold, blob_segment_size: seg, ..SlabRouterConfig::default() };
        let mut c = RouterCase { rt: SlabRouter::with_config(&cfg), dim, cap, nodes: (0..7).collect(), edge_ids: vec![], hashes: vec![], live: true, trace: vec![] };
        let first = format!("rt_new {dim} {cap} {threshold} {seg}");
        let ans = m.ask(&first);
        c.ask_noop(rep, "router.ops", &first, "ok", &ans);
        let n_ops = if case_no < 6 { 0 } else { 10 + r.below(if thorough { 120 } else { 50 }) };
        let mut script: Vec<(u8, String)> = vec![];
        match case_no {
            // emb key deleted and re-added: the vocabulary keeps the tombstoned entry, the slab the new id
            0 => script = vec![(0, "emb:a".into()), (0, "emb:b".into()), (1, "emb:a".into()), (0, "emb:a".into()), (9, String::new())],
            // graph: sources out of order, edge data on the first edge, then one edge deleted
            1 => script = vec![(20, "5 1 a 1".into()), (20, "2 3 b 0".into()), (23, "0".into()), (9, String::new()), (21, "0".into()), (9, String::new())],
            // blob: garbage mark, duplicate append, sealed segment
            2 => script = vec![(30, "8".into()), (30, "8".into()), (30, "40".into()), (30, "40".into()), (31, "0".into()), (9, String::new())],
            // cache fuller than its capacity, then an update in place
            3 => script = vec![(0, "_cache:0".into()), (0, "_cache:1".into()), (0, "_cache:2".into()), (0, "_cache:3".into()), (0, "_cache:4".into()), (0, "_cache:5".into()), (0, "_cache:1".into()), (9, String::new())],
            // wrong-dimension embedding over a right one: the slab entry must go, metadata keeps the value
            4 => script = vec![(0, "emb:a".into()), (40, "emb:a".into()), (9, String::new()), (41, "emb:a".into()), (9, String::new())],
            // graph: delete, snapshot (merges), then more edges and another snapshot
            5 => script = vec![(20, "1 2 a 1".into()), (20, "2 3 a 1".into()), (20, "1 3 b 0".into()), (21, "1".into()), (9, String::new()), (20, "6 0 a 1".into()), (20, "0 6  1".into()), (9, String::new())],
            _ => {}
        }
        let mut i = 0u64;
        let mut snaps = 0;
        loop {
            let (op, arg) = if (i as usize) < script.len() {
                script[i as usize].clone()
            } else if case_no < 6 || i >= script.len() as u64 + n_ops {
                break;
            } else {
                let k = r.below(100);
                let op = match k {
                    0..=37 => 0u8,
                    38..=47 => 1,
                    48..=55 => 2,
                    56..=58 => 3,
                    59..=61 => 4,
                    62..=66 => 9,
                    67 => 5,
                    68 => 6,
                    69..=79 => 20,
                    80..=83 => 21,
                    84 => 22,
                    85..=87 => 23,
                    88..=93 => 30,
                    94..=95 => 31,
                    _ => 2,
                };
                (op, String::new())
            };
            i += 1;
            match op {
                0 | 40 | 41 => {
                    // put
                    let key = if arg.is_empty() { gen_router_key(&mut r) } else { arg.clone() };
                    let d = if op == 40 {
                        let mut d = TensorData::new();
                        d.set("_embedding", TensorValue::Vector(vec![1.0; c.dim + 1]));
                        d
                    } else if op == 41 {
                        TensorData::new()
                    } else {
                        gen_router_data(&mut r, rep, &key, c.dim)
                    };
                    let is_cache = key.starts_with("_cache:");
                    let cache_before = if is_cache { c.rt.cache.scan_prefix("") } else { vec![] };
                    if key.starts_with("emb:") {
                        if c.rt.index.contains(&key) {
                            rep.hit("router.put.emb.overwrite");
                        } else if (0..c.rt.index.total_entries()).any(|j| c.rt.index.key_for(EntityId::new(j as u64)).is_none()) {
                            rep.hit("router.put.emb.readd_after_delete");
                        }
                    }
                    let res = c.rt.put(&key, d.clone());
                    let mut victim = 0usize;
                    if is_cache {
                        let after = c.rt.cache.scan_prefix("");
                        if cache_before.contains(&key) {
                            rep.hit("router.put.cache.update_in_place");
                        } else if cache_before.len() == c.cap {
                            rep.hit("router.put.cache.evicts");
                            victim = cache_before.iter().zip(after.iter()).position(|(a, b)| a != b).unwrap_or(0);
                        }
                    }
                    let line = format!("rt_put 0 {} {} {victim}", hexs(&key), enc_data_m(&d));
                    c.ask(rep, m, "router.ops", &line, if res.is_ok() { "ok" } else { "err" }, ident);
                }
                1 => {
                    let key = if arg.is_empty() { gen_router_key(&mut r) } else { arg.clone() };
                    let res = c.rt.delete(&key);
                    rep.hit(if res.is_err() { "router.delete.notfound" } else if key.starts_with("emb:") { "router.delete.emb" } else if key.starts_with("_cache:") { "router.delete.cache" } else { "router.delete.other" });
                    c.ask(rep, m, "router.ops", &format!("rt_del 0 {}", hexs(&key)), if res.is_ok() { "ok" } else { "notfound" }, ident);
                }
                2 => {
                    let key = gen_router_key(&mut r);
                    let res = c.rt.get(&key).map_or("notfound".to_string(), |d| enc_data_m(&d));
                    c.ask(rep, m, "router.ops", &format!("rt_get 0 {}", hexs(&key)), &res, canon_data);
                }
                3 => {
                    let key = gen_router_key(&mut r);
                    let res = u8::from(c.rt.exists(&key)).to_string();
                    c.ask(rep, m, "router.ops", &format!("rt_exists 0 {}", hexs(&key)), &res, ident);
                }
                4 => {
                    let pre = *r.pick(&["", "emb:", "_cache:", "user:", "e", "node:", "x"]);
                    let mut keys: Vec<String> = c.rt.scan(pre).iter().map(|k| hexs(k)).collect();
                    keys.sort();
                    fn canon_keys(s: &str) -> String {
                        if s == "-" {
                            return s.to_string();
                        }
                        let mut v: Vec<&str> = s.split(',').collect();
                        v.sort_unstable();
                        v.join(",")
                    }
                    c.ask(rep, m, "router.ops", &format!("rt_scan 0 {}", hexs(pre)), &join_or(",", &keys), canon_keys);
                }
                5 => {
                    c.rt.clear();
                    c.edge_ids.clear();
                    c.hashes.clear();
                    rep.hit("router.clear");
                    c.ask(rep, m, "router.ops", "rt_clear 0", "ok", ident);
                }
                6 => {
                    // evict_cache: which entries go depends on scores (wall clock); the vanished keys are told to the model
                    let before = c.rt.cache.scan_prefix("");
                    let n = c.rt.evict_cache(1 + r.below(2) as usize);
                    let after = c.rt.cache.scan_prefix("");
                    let gone: Vec<String> = before.iter().filter(|k| !after.contains(k)).map(|k| hexs(k)).collect();
                    if n > 0 {
                        rep.hit("router.cache.evict");
                    }
                    c.ask(rep, m, "router.ops", &format!("rt_evict 0 {}", join_or(",", &gone)), "ok", ident);
                }
                20 => {
                    // graph: add_edge
                    let (src, dst, ty, directed) = if arg.is_empty() {
                        (r.below(7), r.below(7), r.pick(&types).clone(), r.chance(1, 2))
                    } else {
                        let p: Vec<&str> = arg.split(' ').collect();
                        (p[0].parse().unwrap(), p[1].parse().unwrap(), p[2].to_string(), p[3] == "1")
                    };
                    let pending_before = c.rt.graph.pending_count();
                    let last_src = c.trace.iter().rev().find_map(|l| l.strip_prefix("g_add 0 ").and_then(|x| x.split(' ').next().and_then(|s| s.parse::<u64>().ok())));
                    if last_src.is_some_and(|s| s > src) {
                        rep.hit("router.graph.out_of_order_sources");
                    }
                    let id = c.rt.graph.add_edge(EntityId::new(src), EntityId::new(dst), &ty, directed);
                    if c.rt.graph.pending_count() <= pending_before {
                        rep.hit("router.graph.auto_merge");
                    }
                    c.edge_ids.push(id.as_u64());
                    c.ask(rep, m, "graph.ops", &format!("g_add 0 {src} {dst} {} {}", hexs(&ty), u8::from(directed)), &id.as_u64().to_string(), ident);
                }
                21 => {
                    let id = if arg.is_empty() { r.below(c.edge_ids.len() as u64 + 2) } else { arg.parse().unwrap() };
                    let res = c.rt.graph.delete_edge(tensor_store::EdgeId::new(id));
                    if res {
                        rep.hit("router.graph.delete_edge");
                    }
                    c.ask(rep, m, "graph.ops", &format!("g_del 0 {id}"), &u8::from(res).to_string(), ident);
                }
                22 => {
                    c.rt.graph.merge();
                    c.ask(rep, m, "graph.ops", "g_merge 0", "ok", ident);
                }
                23 => {
                    let id = if arg.is_empty() { r.below(c.edge_ids.len() as u64 + 1) } else { arg.parse().unwrap() };
                    let mut d = TensorData::new();
                    d.set("w", TensorValue::Scalar(ScalarValue::Int(id as i64 * 10 + 1)));
                    c.rt.graph.set_edge_data(tensor_store::EdgeId::new(id), d.clone());
                    if !c.edge_ids.contains(&id) {
                        c.edge_ids.push(id);
                    }
                    c.ask(rep, m, "graph.ops", &format!("g_setdata 0 {id} {}", enc_data_m(&d)), "ok", ident);
                }
                30 => {
                    let n = if arg.is_empty() { *r.pick(&[0usize, 1, 8, 15, 16, 17, 40, 100]) } else { arg.parse().unwrap() };
                    let data: Vec<u8> = if arg.is_empty() && !r.chance(1, 4) { r.bytes(n) } else { vec![n as u8; n] };
                    let chunks_before = c.rt.blobs.chunk_count();
                    let segs_before = c.rt.blobs.segment_count();
                    let h = c.rt.blobs.append(&data);
                    if c.rt.blobs.chunk_count() == chunks_before {
                        rep.hit("router.blob.duplicate_append");
                    }
                    if c.rt.blobs.segment_count() > segs_before {
                        rep.hit("router.blob.sealed_segment");
                    }
                    if !c.hashes.contains(&h) {
                        c.hashes.push(h);
                    }
                    c.ask(rep, m, "blob.ops", &format!("b_append 0 {} {}", h.as_u64(), hex(&data)), "ok", ident);
                }
                31 => {
                    if !c.hashes.is_empty() {
                        let h = if arg.is_empty() { *r.pick(&c.hashes) } else { c.hashes[arg.parse::<usize>().unwrap().min(c.hashes.len() - 1)] };
                        c.rt.blobs.mark_garbage(&h);
                        rep.hit("router.blob.mark_garbage");
                        c.ask(rep, m, "blob.ops", &format!("b_mark 0 {}", h.as_u64()), "ok", ident);
                    }
                }
                _ => {
                    // snapshot + restore of the state reached so far
                    if c.trace.iter().any(|l| l.starts_with("g_del 0")) {
                        rep.hit("router.graph.delete_then_snapshot");
                    }
                    if c.trace.iter().any(|l| l.starts_with("b_mark 0")) {
                        rep.hit("router.blob.garbage_then_snapshot");
                    }
                    if snaps > 0 {
                        rep.hit("router.snapshot.then_more_ops");
                    }
                    let fmt = *r.pick(&[Fmt::Bytes, Fmt::Bytes, Fmt::FilePlain, Fmt::FileZstd]);
                    let loaded = router_snapshot_check(rep, m, &mut seen, &mut c, fmt, sc, &types);
                    snaps += 1;
                    // the loaded router keeps working: now and then it becomes the subject of the following ops
                    if let Some(l) = loaded {
                        if r.chance(1, 3) {
                            rep.hit("router.snapshot.loaded_router_adopted");
                            c.rt = l;
                            c.ask(rep, m, "router.ops", "rt_adopt", "ok", ident);
                        }
                    }
                }
            }
            // state after every few ops
            if i % 8 == 0 || (i as usize) == script.len() {
                let d = real_dump(&c.rt);
                c.ask(rep, m, "router.state", "rt_dump 0", &d, canon_dump);
                let g = canon_gdump(&real_gdump(&c.rt, &c.nodes, &c.edge_ids, &types));
                let line = format!("g_dump 0 {} {}", nats(&c.nodes), nats(&c.edge_ids));
                c.ask(rep, m, "graph.state", &line, &g, canon_gdump);
                let hs: Vec<u64> = c.hashes.iter().map(|h| h.as_u64()).collect();
                let b = real_bdump(&c.rt, &c.hashes);
                c.ask(rep, m, "blob.state", &format!("b_dump 0 {}", nats(&hs)), &b, ident);
            }
        }
        // every case ends with a snapshot through each form
        for fmt in [Fmt::Bytes, Fmt::FilePlain, Fmt::FileZstd] {
            let _ = router_snapshot_check(rep, m, &mut seen, &mut c, fmt, sc, &types);
        }
        if case_no == 1 {
            rep.sample(json!({"stream": "router", "ops": c.trace.iter().take(12).collect::<Vec<_>>()}));
        }
        rep.case("router", Some(&format!("{case_no}|{}", fnv(&c.trace.join(";")))));
    }
}

// ------------------------------------------------------------------ stream: the store-level loops (restore_from_bytes, quantising save/load, v2 loader)

fn real_kv(rt: &SlabRouter) -> String {
    let mut keys = rt.scan("");
    keys.sort();
    let v: Vec<String> = keys.iter().map(|k| format!("{}~{}", hexs(k), rt.get(k).map_or("notfound".to_string(), |d| enc_data_m(&d)))).collect();
    canon_entries(&join_or("&", &v), true)
}

fn canon_kv(s: &str) -> String {
    canon_entries(s, true)
}

/// keys of every class; embeddings are 384-dim mostly-zero vectors (sparse snapshot form: exact), vectors
/// of another length (metadata only), or absent
fn gen_loop_entry(r: &mut Rng, rep: &mut Report, i: usize) -> (String, TensorData) {
    let key = match r.below(10) {
        0..=2 => format!("emb:{}", i % 5),
        3 => format!("_cache:{}", i % 4),
        4 => format!("node:{}", i % 3),
        5 => format!("table:t{}:row:{}", i % 2, i),
        6 => "ключ:✓".to_string(),
        _ => format!("user:{}", i % 6),
    };
    let mut d = TensorData::new();
    for _ in 0..r.below(3) {
        let f = *r.pick(&["a", "b", "vector", "ids", "member_ids", "", "поле"]);
        d.set(f, gen_small_value(r));
    }
    if key.starts_with("emb:") {
        match r.below(6) {
            0 => rep.hit("store_loops.emb.none"),
            1 => {
                rep.hit("store_loops.emb.short");
                d.set("_embedding", TensorValue::Vector(gen_vec_kind(r, 5, 0)));
            }
            _ => {
                rep.hit("store_loops.emb.slab_dimension");
                d.set("_embedding", TensorValue::Vector(gen_vec_kind(r, 384, 2)));
            }
        }
    }
    (key, d)
}

fn stream_store_loops(rep: &mut Report, m: &mut Model, root: &Rng, thorough: bool, sc: &mut Scratch) {
    let mut r = root.fork("store_loops");
    let mut seen = Seen(BTreeMap::new());
    let n_cases = if thorough { 120 } else { 14 };
    for case_no in 0..n_cases {
        let store = TensorStore::new();
        let mut trace: Vec<String> = vec!["rt_new 384 10000 10000 67108864".to_string()];
        let mut live = true;
        let ans = m.ask(&trace[0]);
        live &= rep.compare("store_loops.ops", || json!({"line": trace[0]}), "ok", &ans);
        let n_ops = if case_no == 0 { 0 } else { 1 + r.below(if thorough { 60 } else { 25 }) };
        for i in 0..n_ops as usize {
            let (key, d) = gen_loop_entry(&mut r, rep, i);
            let (line, imp) = if r.chance(1, 6) {
                let res = store.delete(&key);
                (format!("rt_del 0 {}", hexs(&key)), if res.is_ok() { "ok" } else { "notfound" })
            } else {
                let _ = store.put(&key, d.clone());
                (format!("rt_put 0 {} {} 0", hexs(&key), enc_data_m(&d)), "ok")
            };
            trace.push(line.clone());
            if live {
                let ans = m.ask(&line);
                live &= rep.compare("store_loops.ops", || json!({"ops": trace}), imp, &ans);
            }
        }
        let kv = real_kv(store.router());
        if live {
            let ans = canon_kv(&m.ask("rt_kv 0"));
            live &= rep.compare("store_loops.state", || json!({"ops": trace}), &kv, &ans);
        }
        let input = |what: &str| json!({"loop": what, "ops": trace.iter().take(80).collect::<Vec<_>>()});
        // --- restore_from_bytes into a store that already holds something
        match store.snapshot_bytes() {
            Err(e) => seen.violation(rep, "tensor_store.snapshot_bytes/failed", &e.to_string(), input("restore_from_bytes")),
            Ok(bytes) => {
                let target = TensorStore::new();
                let mut junk = TensorData::new();
                junk.set("old", TensorValue::Scalar(ScalarValue::Int(1)));
                let _ = target.put("user:0", junk.clone());
                let _ = target.put("emb:0", junk.clone());
                let _ = target.put("stale:key", junk.clone());
                if live {
                    m.ask("rt_clear 1");
                    for k in ["user:0", "emb:0", "stale:key"] {
                        m.ask(&format!("rt_put 1 {} {} 0", hexs(k), enc_data_m(&junk)));
                    }
                }
                match target.restore_from_bytes(&bytes) {
                    Err(e) => seen.violation(rep, "tensor_store.restore_from_bytes/failed", &e.to_string(), input("restore_from_bytes")),
                    Ok(()) => {
                        let got = real_kv(target.router());
                        rep.hit("store_loops.restore_from_bytes");
                        if got != kv {
                            seen.violation(rep, "tensor_store.restore_from_bytes/key_content_not_restored", "scan + get of the restored store differ from the saved store (key-addressed content)", json!({"case": input("restore_from_bytes"), "saved": kv.chars().take(1200).collect::<String>(), "restored": got.chars().take(1200).collect::<String>()}));
                        }
                        if live {
                            m.ask("rt_rfb 1");
                            let ans = canon_kv(&m.ask("rt_kv 1"));
                            live &= rep.compare("store_loops.restore_from_bytes", || input("restore_from_bytes"), &got, &ans);
                        }
                    }
                }
            }
        }
        // --- the file form through the TensorStore API, plain load and load with a rebuilt Bloom filter
        // (a key the rebuilt filter does not hold would read as NotFound)
        {
            let p = sc.fresh("loops.v3");
            match store.save_snapshot(&p) {
                Err(e) => seen.violation(rep, "tensor_store.save_snapshot/save_or_load_failed", &e.to_string(), input("save_snapshot")),
                Ok(()) => {
                    for bloom in [false, true] {
                        let l = if bloom { TensorStore::load_snapshot_with_bloom_filter(&p, 64, 0.01) } else { TensorStore::load_snapshot(&p) };
                        match l {
                            Err(e) => seen.violation(rep, "tensor_store.save_snapshot/save_or_load_failed", &e.to_string(), input("load_snapshot")),
                            Ok(l) => {
                                rep.hit(if bloom { "store_loops.load_with_bloom_filter" } else { "store_loops.load_snapshot" });
                                let mut keys = l.scan("");
                                keys.sort();
                                let got = canon_entries(&join_or("&", &keys.iter().map(|k| format!("{}~{}", hexs(k), l.get(k).map_or("notfound".to_string(), |d| enc_data_m(&d)))).collect::<Vec<_>>()), true);
                                if got != kv {
                                    seen.violation(rep, if bloom { "tensor_store.load_snapshot_with_bloom_filter/key_content_not_restored" } else { "tensor_store.save_snapshot/key_content_not_restored" }, "scan + get through the TensorStore API differ after save_snapshot + load", json!({"case": input("load_snapshot"), "bloom": bloom, "saved": kv.chars().take(1200).collect::<String>(), "loaded": got.chars().take(1200).collect::<String>()}));
                                }
                            }
                        }
                    }
                }
            }
        }
        // --- the same restore into targets BUILT WITH A BLOOM FILTER (every constructor that takes one; empty, or
        // holding other keys of which some were deleted again, or cleared), read back through the TensorStore API
        // (get / exists ask the filter first) and followed by a further history that runs on a store without a
        // filter as well; then the loaders that build a filter from scan("") on the file form
        {
            let desc = json!({"ops": trace.iter().take(80).collect::<Vec<_>>()});
            let more = if case_no == 0 { 0 } else { 2 + r.below(if thorough { 14 } else { 8 }) as usize };
            let f1 = Flt::BLOOMS[case_no % 5];
            let f2 = Flt::BLOOMS[(case_no + 2) % 5];
            live = restore_into(rep, m, &mut seen, sc, &mut r, live, "store_loops.filter", &store, f1, &[], &[], false, more, &desc);
            let mut junk = TensorData::new();
            junk.set("old", TensorValue::Scalar(ScalarValue::Int(1)));
            let mut pre: Vec<(String, TensorData)> = ["user:0", "emb:0", "stale:key"].iter().map(|k| ((*k).to_string(), junk.clone())).collect();
            for i in 0..r.below(8) as usize {
                pre.push(gen_loop_entry(&mut r, rep, i));
            }
            let pre_del: Vec<String> = pre.iter().filter(|_| r.chance(1, 4)).map(|p| p.0.clone()).collect();
            let clear_first = r.chance(1, 8);
            live = restore_into(rep, m, &mut seen, sc, &mut r, live, "store_loops.filter", &store, f2, &pre, &pre_del, clear_first, more, &desc);
            if thorough || case_no % 4 == 1 {
                live = restore_into(rep, m, &mut seen, sc, &mut r, live, "store_loops.filter", &store, Flt::Plain, &pre, &pre_del, false, more, &desc);
            }
            let p = sc.fresh("loops.filter.v3");
            match store.save_snapshot(&p) {
                Err(e) => seen.violation(rep, "tensor_store.save_snapshot/save_or_load_failed", &e.to_string(), input("save_snapshot")),
                Ok(()) => {
                    let loaders: Vec<Loader> = if thorough { vec![Loader::Bloom, Loader::BloomTiny, Loader::RecoverBloom, Loader::Recover] } else { vec![Loader::BLOOMS[case_no % 3]] };
                    for loader in loaders {
                        live = load_into(rep, m, &mut seen, sc, &mut r, live, "store_loops.filter", &store, &p, loader, more, &desc);
                    }
                }
            }
        }
        // --- the quantising format (no tensor-train configured): every key-addressed entry
        for delta in [true, false] {
            let p = sc.fresh("loops.q");
            match store.save_snapshot_compressed(&p, qconfig(None, delta)).map_err(|e| e.to_string()).and_then(|()| TensorStore::load_snapshot_compressed(&p).map_err(|e| e.to_string())) {
                Err(e) => seen.violation(rep, "tensor_store.snapshot.compressed/save_or_load_failed", &e, input("quantising")),
                Ok(l) => {
                    let got = real_kv(l.router());
                    rep.hit("store_loops.quantising");
                    if got != kv {
                        seen.violation(rep, "tensor_store.snapshot.compressed/key_content_not_restored", "scan + get of the store loaded from the quantising format differ from the saved store", json!({"case": input("quantising"), "delta": delta, "saved": kv.chars().take(1200).collect::<String>(), "loaded": got.chars().take(1200).collect::<String>()}));
                    }
                    if live {
                        m.ask(&format!("rt_quant 0 {}", u8::from(delta)));
                        let ans = canon_kv(&m.ask("rt_kv 1"));
                        live &= rep.compare("store_loops.quantising", || input("quantising"), &got, &ans);
                    }
                }
            }
        }
        // --- the legacy v2 file: a key -> value map, put key by key by the loader
        let mut map: HashMap<String, TensorData> = HashMap::new();
        for i in 0..(if case_no == 0 { 0 } else { 1 + r.below(20) as usize }) {
            let (key, d) = gen_loop_entry(&mut r, rep, i);
            map.insert(key, d);
        }
        let p = sc.fresh("legacy.v2");
        let v2bytes = bitcode::serialize(&map).expect("bitcode");
        std::fs::write(&p, &v2bytes).unwrap();
        if v2bytes.len() >= 4 && &v2bytes[..4] == b"NEUM" {
            rep.hit("store_loops.v2.looks_like_v3");
        } else {
            match snapshot::load(&p) {
                Err(e) => seen.violation(rep, "tensor_store.snapshot.load_v2/load_failed", &fmt_err(&e), json!({"entries": map.len()})),
                Ok(l) => {
                    rep.hit("store_loops.v2");
                    let got = real_kv(&l);
                    let mut es: Vec<(String, String)> = map.iter().map(|(k, d)| (hexs(k), enc_data_m(d))).collect();
                    es.sort();
                    let want = canon_entries(&join_or("&", &es.iter().map(|(k, d)| format!("{k}~{d}")).collect::<Vec<_>>()), true);
                    if got != want {
                        seen.violation(rep, "tensor_store.snapshot.load_v2/key_content_not_restored", "scan + get of a store loaded from a v2 file differ from the file's map", json!({"map": want.chars().take(1200).collect::<String>(), "loaded": got.chars().take(1200).collect::<String>()}));
                    }
                    // migrate_v2_to_v3 = the v2 loader followed by the v3 save
                    let p3 = sc.fresh("migrated.v3");
                    match snapshot::migrate_v2_to_v3(&p, &p3).map_err(|e| fmt_err(&e)).and_then(|()| snapshot::load(&p3).map_err(|e| fmt_err(&e))) {
                        Err(e) => seen.violation(rep, "tensor_store.snapshot.migrate_v2_to_v3/failed", &e, json!({"entries": map.len()})),
                        Ok(l3) => {
                            rep.hit("store_loops.migrate_v2_to_v3");
                            if real_kv(&l3) != want {
                                seen.violation(rep, "tensor_store.snapshot.migrate_v2_to_v3/key_content_not_restored", "scan + get of the migrated file differ from the v2 map", json!({"map": want.chars().take(1200).collect::<String>()}));
                            }
                        }
                    }
                    if live {
                        let line = format!("rt_loadv2 {}", join_or("&", &es.iter().map(|(k, d)| format!("{k}~{d}")).collect::<Vec<_>>()));
                        m.ask(&line);
                        let ans = canon_kv(&m.ask("rt_kv 1"));
                        let _ = rep.compare("store_loops.v2", || json!({"line": line.chars().take(1500).collect::<String>()}), &got, &ans);
                    }
                }
            }
        }
        rep.case("store_loops", Some(&format!("{case_no}|{}", fnv(&trace.join(";")))));
    }
}

// ------------------------------------------------------------------ load paths INTO A STORE BUILT WITH A BLOOM FILTER
//
// TensorStore::get / exists ask the store's Bloom filter before the router; scan does not. A load path that
// fills the router without telling the filter leaves a store in which scan lists the saved keys while get /
// exists deny them (restore_from_bytes before cb3c5db0). Everything here reads THROUGH THE TensorStore API.

/// kind of the class `tensor_store.restore_from_bytes/restored_key_denied_by_bloom_filter` (fixed cb3c5db0)
const BLOOM_DENIED: &str = "restored_key_denied_by_bloom_filter";
const BLOOM_DENIED_LOAD: &str = "loaded_key_denied_by_bloom_filter";

#[derive(Clone, Copy, PartialEq, Debug)]
enum Flt {
    Plain,
    Small,
    /// 64 bits, 16 hash functions: saturated after a few keys (false positives are the rule)
    Tiny,
    Default,
    Instr,
    Durable,
}

impl Flt {
    const BLOOMS: [Flt; 5] = [Flt::Small, Flt::Tiny, Flt::Default, Flt::Instr, Flt::Durable];
    fn build(self, sc: &mut Scratch) -> TensorStore {
        match self {
            Flt::Plain => TensorStore::new(),
            Flt::Small => TensorStore::with_bloom_filter(64, 0.01),
            Flt::Tiny => TensorStore::with_bloom_filter(1, 0.5),
            Flt::Default => TensorStore::with_default_bloom_filter(),
            Flt::Instr => TensorStore::with_bloom_and_instrumentation(64, 0.01, 1),
            Flt::Durable => TensorStore::open_durable_with_bloom(sc.fresh("target.wal"), WalConfig::default(), 64, 0.01).expect("open_durable_with_bloom"),
        }
    }
    fn name(self) -> &'static str {
        match self {
            Flt::Plain => "new",
            Flt::Small => "with_bloom_filter(64,0.01)",
            Flt::Tiny => "with_bloom_filter(1,0.5)",
            Flt::Default => "with_default_bloom_filter",
            Flt::Instr => "with_bloom_and_instrumentation(64,0.01,1)",
            Flt::Durable => "open_durable_with_bloom(64,0.01)",
        }
    }
}

#[derive(Clone, Copy, PartialEq, Debug)]
enum Loader {
    Plain,
    Bloom,
    BloomTiny,
    Recover,
    RecoverBloom,
}

impl Loader {
    const BLOOMS: [Loader; 3] = [Loader::Bloom, Loader::BloomTiny, Loader::RecoverBloom];
    fn load(self, p: &Path, sc: &mut Scratch) -> Result<TensorStore, String> {
        match self {
            Loader::Plain => TensorStore::load_snapshot(p).map_err(|e| e.to_string()),
            Loader::Bloom => TensorStore::load_snapshot_with_bloom_filter(p, 64, 0.01).map_err(|e| e.to_string()),
            Loader::BloomTiny => TensorStore::load_snapshot_with_bloom_filter(p, 1, 0.5).map_err(|e| e.to_string()),
            Loader::Recover => TensorStore::recover(sc.fresh("recover.wal"), &WalConfig::default(), Some(p)).map_err(|e| e.to_string()),
            Loader::RecoverBloom => TensorStore::recover_with_bloom(sc.fresh("recover.wal"), &WalConfig::default(), Some(p), 64, 0.01).map_err(|e| e.to_string()),
        }
    }
    fn site(self) -> &'static str {
        match self {
            Loader::Plain => "tensor_store.load_snapshot",
            Loader::Bloom | Loader::BloomTiny => "tensor_store.load_snapshot_with_bloom_filter",
            Loader::Recover => "tensor_store.recover",
            Loader::RecoverBloom => "tensor_store.recover_with_bloom",
        }
    }
    fn name(self) -> &'static str {
        match self {
            Loader::Plain => "load_snapshot",
            Loader::Bloom => "load_snapshot_with_bloom_filter(64,0.01)",
            Loader::BloomTiny => "load_snapshot_with_bloom_filter(1,0.5)",
            Loader::Recover => "recover(snapshot, new wal)",
            Loader::RecoverBloom => "recover_with_bloom(snapshot, new wal, 64, 0.01)",
        }
    }
    fn bloom(self) -> bool {
        !matches!(self, Loader::Plain | Loader::Recover)
    }
}

fn api_get(st: &TensorStore, k: &str) -> String {
    st.get(k).map_or("notfound".to_string(), |d| canon_data(&enc_data_m(&d)))
}

/// `listed`, `exists`, `get` of every listed key and every probe, through the TensorStore API; the format of the driver's `ts_kv`
fn store_kv(st: &TensorStore, probes: &[String]) -> String {
    let listed: std::collections::BTreeSet<String> = st.scan("").into_iter().collect();
    let mut keys = listed.clone();
    keys.extend(probes.iter().cloned());
    let v: Vec<String> = keys.iter().map(|k| format!("{}:{}{}~{}", hexs(k), u8::from(listed.contains(k)), u8::from(st.exists(k)), api_get(st, k))).collect();
    canon_entries(&join_or("&", &v), true)
}

/// key -> canonical value of everything `scan("")` lists and `get` finds in the saved store
fn saved_map(src: &TensorStore) -> BTreeMap<String, String> {
    src.scan("").into_iter().filter_map(|k| src.router().get(&k).ok().map(|d| (k, canon_data(&enc_data_m(&d))))).collect()
}

#[derive(Clone, Copy, PartialEq)]
enum Canon {
    Raw,
    Data,
    Entries,
}

/// the model side of a `TStore` history: one driver line, compared with the implementation's answer while the
/// model still follows; the history itself goes on on the real stores whatever the model says
struct TsRun {
    live: bool,
    trace: Vec<String>,
    stream: String,
}

impl TsRun {
    fn ask(&mut self, rep: &mut Report, m: &mut Model, line: String, imp: &str, canon: Canon) {
        self.trace.push(line.clone());
        if self.live {
            let ans = m.ask(&line);
            let ans = match canon {
                Canon::Raw => ans,
                Canon::Data => canon_data(&ans),
                Canon::Entries => canon_entries(&ans, true),
            };
            let t = &self.trace;
            self.live &= rep.compare(&self.stream, || json!({"ops": t.iter().rev().take(60).rev().map(|l| l.chars().take(300).collect::<String>()).collect::<Vec<_>>()}), imp, &ans);
        }
    }
    fn tail(&self) -> Vec<String> {
        self.trace.iter().rev().take(40).rev().map(|l| l.chars().take(200).collect::<String>()).collect()
    }
}

/// Oracle on the real store only. `st` was filled by a load path from a store whose key-addressed content
/// is `saved`: through the TensorStore API every saved key must read like in the saved store (`get` the same
/// value, `exists` true), scan must list exactly the saved keys, and none of the `earlier` keys (held by the
/// target before the load) may be readable. A saved key that scan lists and the ROUTER holds while get /
/// exists through the store deny it is the Bloom-filter defect (`site/denied`); anything else is a
/// different class.
#[allow(clippy::too_many_arguments)]
fn loaded_store_oracle(rep: &mut Report, seen: &mut Seen, site: &str, denied: &str, st: &TensorStore, saved: &BTreeMap<String, String>, earlier: &[String], input: &dyn Fn() -> J) -> bool {
    let mut clean = true;
    for (k, want) in saved {
        let g = st.get(k);
        let e = st.exists(k);
        if g.is_err() || !e {
            clean = false;
            let below_get = st.router().get(k).is_ok();
            let below_exists = st.router().exists(k);
            let listed = st.scan("").contains(k);
            if st.has_bloom_filter() && below_get && below_exists && listed {
                seen.violation(rep, &format!("{site}/{denied}"), "scan lists the key and the router holds it, but get / exists through the store deny it: the store's Bloom filter was never told about the key", json!({"case": input(), "key": k, "store.get": if g.is_ok() { "ok" } else { "NotFound" }, "store.exists": e, "router.get": "ok", "router.exists": true, "scan_lists_it": true}));
            } else {
                seen.violation(rep, &format!("{site}/key_content_not_restored"), "a saved key is not readable through the store after the load", json!({"case": input(), "key": k, "store.get_ok": g.is_ok(), "store.exists": e, "router.get_ok": below_get, "router.exists": below_exists, "scan_lists_it": listed, "bloom_filter": st.has_bloom_filter()}));
            }
        } else {
            let got = g.map_or(String::new(), |d| canon_data(&enc_data_m(&d)));
            if &got != want {
                clean = false;
                seen.violation(rep, &format!("{site}/key_content_not_restored"), "get through the store returns another value than the saved store held", json!({"case": input(), "key": k, "saved": want.chars().take(400).collect::<String>(), "loaded": got.chars().take(400).collect::<String>()}));
            }
        }
    }
    for k in earlier {
        if !saved.contains_key(k) && (st.get(k).is_ok() || st.exists(k)) {
            clean = false;
            seen.violation(rep, &format!("{site}/earlier_key_survives"), "a key the target held before the load (and the saved store does not hold) is still readable", json!({"case": input(), "key": k}));
        }
    }
    let mut listed = st.scan("");
    listed.sort();
    if listed != saved.keys().cloned().collect::<Vec<_>>() {
        clean = false;
        seen.violation(rep, &format!("{site}/key_set_not_restored"), "scan of the loaded store does not list exactly the saved keys", json!({"case": input(), "saved": saved.keys().take(40).collect::<Vec<_>>(), "listed": listed.iter().take(40).collect::<Vec<_>>()}));
    }
    clean
}

/// the theorem filter_store_equals_plain_store as an oracle on the real stores: the same history on a store
/// without a filter answers every read alike
fn twin_oracle(rep: &mut Report, seen: &mut Seen, site: &str, target: &TensorStore, twin: &TensorStore, pool: &[String], input: &dyn Fn() -> J) {
    let a = store_kv(target, pool);
    let b = store_kv(twin, pool);
    if a != b {
        seen.violation(rep, &format!("{site}/reads_differ_from_store_without_filter"), "scan / get / exists of the store differ from those of a store without a Bloom filter that went through the same history", json!({"case": input(), "store": a.chars().take(1200).collect::<String>(), "without_filter": b.chars().take(1200).collect::<String>()}));
    }
}

/// further history on a loaded / restored store: put / delete / get / exists / clear / restore_from_bytes
/// again, each on the target, on its twin without a filter and (while it follows) on the model
#[allow(clippy::too_many_arguments)]
fn ts_history(rep: &mut Report, m: &mut Model, seen: &mut Seen, r: &mut Rng, run: &mut TsRun, site: &str, target: &TensorStore, twin: &TensorStore, again: Option<(&[u8], &BTreeMap<String, String>)>, pool: &mut Vec<String>, n: usize, desc: &J) {
    for i in 0..n {
        let roll = r.below(12);
        let key = if r.chance(2, 3) && !pool.is_empty() { r.pick(pool).clone() } else { gen_loop_entry(r, rep, i).0 };
        if !pool.contains(&key) {
            pool.push(key.clone());
        }
        match roll {
            0..=3 => {
                let (_, d) = gen_loop_entry(r, rep, i);
                let _ = target.put(&key, d.clone());
                let _ = twin.put(&key, d.clone());
                rep.hit("filter.op.put");
                run.ask(rep, m, format!("ts_put {} {} 0", hexs(&key), enc_data_m(&d)), "ok", Canon::Raw);
            }
            4 | 5 => {
                let a = target.delete(&key).is_ok();
                let b = twin.delete(&key).is_ok();
                rep.hit(if a { "filter.op.delete.ok" } else { "filter.op.delete.notfound" });
                if a != b {
                    let tail = run.tail();
                    seen.violation(rep, &format!("{site}/reads_differ_from_store_without_filter"), "delete answers differ between the store and a store without a Bloom filter after the same history", json!({"case": desc, "ops": tail, "key": key, "store": a, "without_filter": b}));
                }
                run.ask(rep, m, format!("ts_del {}", hexs(&key)), if a { "ok" } else { "notfound" }, Canon::Raw);
            }
            6..=8 => {
                let a = api_get(target, &key);
                let b = api_get(twin, &key);
                let ea = target.exists(&key);
                let eb = twin.exists(&key);
                rep.hit(if a == "notfound" { "filter.op.get.notfound" } else { "filter.op.get.found" });
                if a != b || ea != eb {
                    let tail = run.tail();
                    seen.violation(rep, &format!("{site}/reads_differ_from_store_without_filter"), "get / exists answers differ between the store and a store without a Bloom filter after the same history", json!({"case": desc, "ops": tail, "key": key, "store.get": a.chars().take(300).collect::<String>(), "without_filter.get": b.chars().take(300).collect::<String>(), "store.exists": ea, "without_filter.exists": eb}));
                }
                run.ask(rep, m, format!("ts_get {}", hexs(&key)), &a, Canon::Data);
                run.ask(rep, m, format!("ts_exists {}", hexs(&key)), if ea { "1" } else { "0" }, Canon::Raw);
            }
            9 if r.chance(1, 3) => {
                target.clear();
                twin.clear();
                rep.hit("filter.op.clear");
                run.ask(rep, m, "ts_clear".to_string(), "ok", Canon::Raw);
            }
            _ => {
                if let Some((bytes, saved)) = again {
                    let a = target.restore_from_bytes(bytes);
                    let b = twin.restore_from_bytes(bytes);
                    rep.hit("filter.op.restore_again");
                    if let (Err(e), _) | (_, Err(e)) = (&a, &b) {
                        seen.violation(rep, "tensor_store.restore_from_bytes/failed", &e.to_string(), desc.clone());
                    }
                    run.ask(rep, m, "ts_rfb 1".to_string(), "ok", Canon::Raw);
                    let tail = run.tail();
                    loaded_store_oracle(rep, seen, "tensor_store.restore_from_bytes", BLOOM_DENIED, target, saved, pool, &|| json!({"case": desc, "ops": tail}));
                }
            }
        }
    }
    let tail = run.tail();
    twin_oracle(rep, seen, site, target, twin, pool, &|| json!({"case": desc, "ops": tail}));
    run.ask(rep, m, format!("ts_kv {}", join_or(",", &pool.iter().map(|k| hexs(k)).collect::<Vec<_>>())), &store_kv(target, pool), Canon::Entries);
}

/// `target.restore_from_bytes(src.snapshot_bytes())` with the target built by `flt`, holding `pre` (of which
/// `pre_del` deleted again) before; register 0 of the model holds `src` when `live`. Returns whether the
/// model still follows.
#[allow(clippy::too_many_arguments)]
fn restore_into(rep: &mut Report, m: &mut Model, seen: &mut Seen, sc: &mut Scratch, r: &mut Rng, live: bool, stream: &str, src: &TensorStore, flt: Flt, pre: &[(String, TensorData)], pre_del: &[String], clear_first: bool, more: usize, desc: &J) -> bool {
    let saved = saved_map(src);
    let bytes = match src.snapshot_bytes() {
        Ok(b) => b,
        Err(e) => {
            seen.violation(rep, "tensor_store.snapshot_bytes/failed", &e.to_string(), desc.clone());
            return live;
        }
    };
    let target = flt.build(sc);
    let twin = TensorStore::new();
    rep.hit(&format!("filter.target.{}", flt.name()));
    rep.hit(if pre.is_empty() { "filter.target.empty" } else { "filter.target.holds_other_keys" });
    let mut run = TsRun { live, trace: Vec::new(), stream: stream.to_string() };
    let desc = json!({"case": desc, "target": flt.name(), "loop": "restore_from_bytes"});
    run.ask(rep, m, format!("ts_new {}", u8::from(flt != Flt::Plain)), "ok", Canon::Raw);
    let mut pool: Vec<String> = saved.keys().cloned().collect();
    for (k, d) in pre {
        let _ = target.put(k, d.clone());
        let _ = twin.put(k, d.clone());
        if !pool.contains(k) {
            pool.push(k.clone());
        }
        run.ask(rep, m, format!("ts_put {} {} 0", hexs(k), enc_data_m(d)), "ok", Canon::Raw);
    }
    for k in pre_del {
        let a = target.delete(k).is_ok();
        let _ = twin.delete(k);
        run.ask(rep, m, format!("ts_del {}", hexs(k)), if a { "ok" } else { "notfound" }, Canon::Raw);
    }
    if clear_first {
        target.clear();
        twin.clear();
        run.ask(rep, m, "ts_clear".to_string(), "ok", Canon::Raw);
    }
    for k in ["never:put", "emb:never", "_cache:never"] {
        pool.push(k.to_string());
    }
    let earlier: Vec<String> = pre.iter().map(|p| p.0.clone()).collect();
    let a = target.restore_from_bytes(&bytes);
    let b = twin.restore_from_bytes(&bytes);
    if let (Err(e), _) | (_, Err(e)) = (&a, &b) {
        seen.violation(rep, "tensor_store.restore_from_bytes/failed", &e.to_string(), desc.clone());
        return run.live;
    }
    run.ask(rep, m, "ts_rfb 1".to_string(), "ok", Canon::Raw);
    let tail = run.tail();
    let clean = loaded_store_oracle(rep, seen, "tensor_store.restore_from_bytes", BLOOM_DENIED, &target, &saved, &earlier, &|| json!({"case": desc, "ops": tail}));
    rep.hit(if clean { "filter.restore.reads_like_saved" } else { "filter.restore.differs" });
    twin_oracle(rep, seen, "tensor_store.restore_from_bytes", &target, &twin, &pool, &|| json!({"case": desc, "ops": tail}));
    run.ask(rep, m, format!("ts_kv {}", join_or(",", &pool.iter().map(|k| hexs(k)).collect::<Vec<_>>())), &store_kv(&target, &pool), Canon::Entries);
    ts_history(rep, m, seen, r, &mut run, "tensor_store.restore_from_bytes", &target, &twin, Some((&bytes, &saved)), &mut pool, more, &desc);
    rep.case("filter_restore", Some(&format!("{}|{}", flt.name(), fnv(&format!("{}#{}", saved.len(), run.trace.join(";"))))));
    run.live
}

/// a loader on the file `save_snapshot(src)` wrote, then a further history on the loaded store
#[allow(clippy::too_many_arguments)]
fn load_into(rep: &mut Report, m: &mut Model, seen: &mut Seen, sc: &mut Scratch, r: &mut Rng, live: bool, stream: &str, src: &TensorStore, file: &Path, loader: Loader, more: usize, desc: &J) -> bool {
    let saved = saved_map(src);
    let desc = json!({"case": desc, "loader": loader.name()});
    let (target, twin) = match (loader.load(file, sc), TensorStore::load_snapshot(file).map_err(|e| e.to_string())) {
        (Ok(a), Ok(b)) => (a, b),
        (Err(e), _) | (_, Err(e)) => {
            seen.violation(rep, &format!("{}/load_failed", loader.site()), &e, desc.clone());
            return live;
        }
    };
    rep.hit(&format!("filter.loader.{}", loader.name()));
    if target.has_bloom_filter() != loader.bloom() {
        seen.violation(rep, &format!("{}/filter_not_built", loader.site()), "has_bloom_filter() of the loaded store is not what the loader promises", desc.clone());
    }
    let mut run = TsRun { live, trace: Vec::new(), stream: stream.to_string() };
    run.ask(rep, m, format!("ts_load 1 {}", u8::from(loader.bloom())), "ok", Canon::Raw);
    let mut pool: Vec<String> = saved.keys().cloned().collect();
    for k in ["never:put", "emb:never", "_cache:never"] {
        pool.push(k.to_string());
    }
    let tail = run.tail();
    let clean = loaded_store_oracle(rep, seen, loader.site(), BLOOM_DENIED_LOAD, &target, &saved, &[], &|| json!({"case": desc, "ops": tail}));
    rep.hit(if clean { "filter.load.reads_like_saved" } else { "filter.load.differs" });
    twin_oracle(rep, seen, loader.site(), &target, &twin, &pool, &|| json!({"case": desc, "ops": tail}));
    run.ask(rep, m, format!("ts_kv {}", join_or(",", &pool.iter().map(|k| hexs(k)).collect::<Vec<_>>())), &store_kv(&target, &pool), Canon::Entries);
    let bytes = src.snapshot_bytes().ok();
    ts_history(rep, m, seen, r, &mut run, loader.site(), &target, &twin, bytes.as_deref().map(|b| (b, &saved)), &mut pool, more, &desc);
    rep.case("filter_load", Some(&format!("{}|{}", loader.name(), fnv(&format!("{}#{}", saved.len(), run.trace.join(";"))))));
    run.live
}

fn tdata(fields: &[(&str, TensorValue)]) -> TensorData {
    let mut d = TensorData::new();
    for (f, v) in fields {
        d.set(*f, v.clone());
    }
    d
}

/// a source store from entries, mirrored into register 0 of the model (a fresh pair of registers)
fn directed_source(rep: &mut Report, m: &mut Model, entries: &[(String, TensorData)]) -> (TensorStore, bool) {
    let src = TensorStore::new();
    let mut live = rep.compare("filter.directed", || json!({"line": "rt_new"}), "ok", &m.ask("rt_new 384 10000 10000 67108864"));
    for (k, d) in entries {
        let _ = src.put(k, d.clone());
        let line = format!("rt_put 0 {} {} 0", hexs(k), enc_data_m(d));
        let ans = m.ask(&line);
        live &= rep.compare("filter.directed", || json!({"line": line}), "ok", &ans);
    }
    (src, live)
}

/// Directed cases, first on every run and independent of the seed: the regression input of cb3c5db0 on
/// every constructor that takes a filter, then the shortest histories in which telling the filter is the
/// only thing between the restore and a denied key.
fn stream_filter_directed(rep: &mut Report, m: &mut Model, sc: &mut Scratch) {
    let mut seen = Seen(BTreeMap::new());
    let mut r = Rng::new(0xC07).fork("filter_directed");
    let int = |i: i64| TensorValue::Scalar(ScalarValue::Int(i));
    let restored = vec![("user:restored".to_string(), tdata(&[("n", int(7))]))];
    // 1. src = TensorStore::new(); src.put("user:restored", v); dst = with_bloom_filter(..); dst.restore_from_bytes(..)
    for flt in Flt::BLOOMS {
        let (src, live) = directed_source(rep, m, &restored);
        restore_into(rep, m, &mut seen, sc, &mut r, live, "filter.directed", &src, flt, &[], &[], false, 0, &json!({"directed": "src.put(user:restored); dst = a new store with a Bloom filter; dst.restore_from_bytes(src.snapshot_bytes())"}));
    }
    // 2. the target already holds other keys (one of them the restored key with another value, one deleted again)
    let pre = vec![
        ("user:old".to_string(), tdata(&[("old", int(1))])),
        ("user:restored".to_string(), tdata(&[("old", int(2))])),
        ("emb:old".to_string(), tdata(&[("old", int(3))])),
        ("user:gone".to_string(), tdata(&[])),
    ];
    for flt in [Flt::Small, Flt::Default, Flt::Tiny] {
        let (src, live) = directed_source(rep, m, &restored);
        restore_into(rep, m, &mut seen, sc, &mut r, live, "filter.directed", &src, flt, &pre, &["user:gone".to_string()], false, 0, &json!({"directed": "dst with a Bloom filter holds user:old, user:restored (other value), emb:old and a deleted key before the restore"}));
    }
    // 3. keys of every class in the saved store
    let mut sparse384 = vec![0.0_f32; 384];
    sparse384[3] = 1.5;
    sparse384[200] = -2.0;
    let classes = vec![
        ("emb:a".to_string(), tdata(&[("_embedding", TensorValue::Vector(sparse384)), ("t", int(1))])),
        ("emb:short".to_string(), tdata(&[("_embedding", TensorValue::Vector(vec![1.0, 2.0, 3.0]))])),
        ("node:1".to_string(), tdata(&[("label", TensorValue::Scalar(ScalarValue::String("n".into())))])),
        ("edge:1".to_string(), tdata(&[("w", TensorValue::Scalar(ScalarValue::Float(0.5)))])),
        ("table:t:row:1".to_string(), tdata(&[("id", int(1))])),
        ("_cache:1".to_string(), tdata(&[("c", int(9))])),
        ("ключ:✓".to_string(), tdata(&[("поле", TensorValue::Scalar(ScalarValue::Bytes(vec![0, 255])))])),
        ("user:1".to_string(), tdata(&[])),
        (String::new(), tdata(&[("empty_key", int(0))])),
    ];
    for (flt, with_pre) in [(Flt::Small, false), (Flt::Instr, true), (Flt::Durable, true)] {
        let (src, live) = directed_source(rep, m, &classes);
        restore_into(rep, m, &mut seen, sc, &mut r, live, "filter.directed", &src, flt, if with_pre { &pre } else { &[] }, &[], false, 0, &json!({"directed": "saved store with a key of every class (emb: with a slab-dimension and a short embedding, node:, edge:, table:, _cache:, non-ASCII, empty key)"}));
    }
    // 4. restore, delete a restored key, restore again / clear before the restore / an empty saved store
    {
        let (src, live) = directed_source(rep, m, &restored);
        restore_into(rep, m, &mut seen, sc, &mut r, live, "filter.directed", &src, Flt::Small, &pre, &[], true, 0, &json!({"directed": "dst.put(..); dst.clear() (clears the filter too); dst.restore_from_bytes(..)"}));
        let (src, live) = directed_source(rep, m, &[]);
        restore_into(rep, m, &mut seen, sc, &mut r, live, "filter.directed", &src, Flt::Small, &pre, &[], false, 0, &json!({"directed": "an empty saved store into a target that holds keys: every earlier key is gone for scan, get and exists; the filter still holds them"}));
        let (src, live) = directed_source(rep, m, &restored);
        let saved = saved_map(&src);
        let bytes = src.snapshot_bytes().expect("snapshot_bytes");
        let target = Flt::Small.build(sc);
        let twin = TensorStore::new();
        let desc = json!({"directed": "restore; delete(user:restored); get; restore again; get", "target": Flt::Small.name()});
        let mut run = TsRun { live, trace: Vec::new(), stream: "filter.directed".to_string() };
        let pool = vec!["user:restored".to_string(), "user:other".to_string()];
        run.ask(rep, m, "ts_new 1".to_string(), "ok", Canon::Raw);
        for round in 0..2 {
            let _ = target.restore_from_bytes(&bytes);
            let _ = twin.restore_from_bytes(&bytes);
            run.ask(rep, m, "ts_rfb 1".to_string(), "ok", Canon::Raw);
            let tail = run.tail();
            loaded_store_oracle(rep, &mut seen, "tensor_store.restore_from_bytes", BLOOM_DENIED, &target, &saved, &[], &|| json!({"case": desc, "round": round, "ops": tail}));
            run.ask(rep, m, format!("ts_get {}", hexs("user:restored")), &api_get(&target, "user:restored"), Canon::Data);
            let a = target.delete("user:restored").is_ok();
            let _ = twin.delete("user:restored");
            run.ask(rep, m, format!("ts_del {}", hexs("user:restored")), if a { "ok" } else { "notfound" }, Canon::Raw);
            run.ask(rep, m, format!("ts_get {}", hexs("user:restored")), &api_get(&target, "user:restored"), Canon::Data);
            if target.exists("user:restored") || target.get("user:restored").is_ok() {
                seen.violation(rep, "tensor_store.restore_from_bytes/deleted_key_readable", "a restored key is still readable after delete", json!({"case": desc, "round": round}));
            }
            let tail = run.tail();
            twin_oracle(rep, &mut seen, "tensor_store.restore_from_bytes", &target, &twin, &pool, &|| json!({"case": desc, "round": round, "ops": tail}));
        }
        rep.case("filter_restore", Some("directed: restore / delete / restore again"));
    }
    // 5. the loaders that build a filter (and their siblings without one) on the file form of the same stores
    for (what, entries) in [("user:restored only", &restored), ("a key of every class", &classes)] {
        for loader in [Loader::Bloom, Loader::BloomTiny, Loader::RecoverBloom, Loader::Plain, Loader::Recover] {
            let (src, live) = directed_source(rep, m, entries);
            let p = sc.fresh("directed.filter.v3");
            match src.save_snapshot(&p) {
                Err(e) => seen.violation(rep, "tensor_store.save_snapshot/save_or_load_failed", &e.to_string(), json!({"directed": what})),
                Ok(()) => {
                    load_into(rep, m, &mut seen, sc, &mut r, live, "filter.directed", &src, &p, loader, 0, &json!({"directed": what}));
                }
            }
        }
    }
    // 6. a store a filter-building loader returned is itself the target of a restore from ANOTHER store
    {
        let (a_src, live) = directed_source(rep, m, &classes);
        let p = sc.fresh("directed.filter.a.v3");
        if a_src.save_snapshot(&p).is_ok() {
            if let (Ok(target), Ok(twin)) = (TensorStore::load_snapshot_with_bloom_filter(&p, 64, 0.01), TensorStore::load_snapshot(&p)) {
                let desc = json!({"directed": "target = load_snapshot_with_bloom_filter(file of store A); target.restore_from_bytes(bytes of store B)"});
                let mut run = TsRun { live, trace: Vec::new(), stream: "filter.directed".to_string() };
                run.ask(rep, m, "ts_load 1 1".to_string(), "ok", Canon::Raw);
                // register 0 := store B
                let b_src = TensorStore::new();
                run.ask(rep, m, "rt_clear 0".to_string(), "ok", Canon::Raw);
                for (k, d) in &restored {
                    let _ = b_src.put(k, d.clone());
                    run.ask(rep, m, format!("rt_put 0 {} {} 0", hexs(k), enc_data_m(d)), "ok", Canon::Raw);
                }
                let saved = saved_map(&b_src);
                let bytes = b_src.snapshot_bytes().expect("snapshot_bytes");
                let _ = target.restore_from_bytes(&bytes);
                let _ = twin.restore_from_bytes(&bytes);
                run.ask(rep, m, "ts_rfb 1".to_string(), "ok", Canon::Raw);
                let earlier: Vec<String> = classes.iter().map(|c| c.0.clone()).collect();
                let tail = run.tail();
                loaded_store_oracle(rep, &mut seen, "tensor_store.restore_from_bytes", BLOOM_DENIED, &target, &saved, &earlier, &|| json!({"case": desc, "ops": tail}));
                let mut pool = earlier.clone();
                pool.push("user:restored".to_string());
                twin_oracle(rep, &mut seen, "tensor_store.restore_from_bytes", &target, &twin, &pool, &|| json!({"case": desc, "ops": tail}));
                run.ask(rep, m, format!("ts_kv {}", join_or(",", &pool.iter().map(|k| hexs(k)).collect::<Vec<_>>())), &store_kv(&target, &pool), Canon::Entries);
                rep.case("filter_restore", Some("directed: loaded with a filter, then restored from another store"));
            }
        }
    }
}

// ------------------------------------------------------------------ main

fn main() {
    let args = parse_args();
    if args.extra.first().map(String::as_str) == Some("--child-save") {
        let e = &args.extra;
        child_save(&e[1], &e[2], e[3].parse().unwrap_or(1), e[4].parse().unwrap_or(1));
        return;
    }
    let mut rep = Report::new(
        "seeded generation of stores / values / damaged files / crash points; a case is non-trivial when it \
         carries content (>= 4 header bytes, a non-empty value, a store with entries, a crash point inside the save); \
         distinct = distinct canonical input text",
    );
    let mut m = Model::spawn(&args.driver);
    let root = Rng::new(args.seed);
    let scale: u64 = if args.thorough { 10 } else { 1 };
    let mut sc = Scratch::new();
    // development aid: CORR_SNAP_ONLY=router,stores runs only the named streams (never set by `check`)
    let only = std::env::var("CORR_SNAP_ONLY").ok();
    let on = |name: &str| only.as_ref().map_or(true, |o| o.split(',').any(|x| x == name));
    if on("directed") {
        stream_filter_directed(&mut rep, &mut m, &mut sc);
        stream_directed(&mut rep, &mut m, &mut sc);
    }
    if on("router") {
        stream_router(&mut rep, &mut m, &root, args.thorough, &mut sc);
    }
    if on("store_loops") {
        stream_store_loops(&mut rep, &mut m, &root, args.thorough, &mut sc);
    }
    if on("names") {
        stream_names(&mut rep, &mut m, &root, scale);
    }
    if on("detect") {
        stream_detect(&mut rep, &mut m, &root, scale, &mut sc);
    }
    if on("emb") {
        stream_emb(&mut rep, &mut m, &root, scale);
    }
    if on("values") {
        stream_values(&mut rep, &mut m, &root, scale, &mut sc);
    }
    if on("c2t") {
        stream_c2t(&mut rep, &mut m, &root, scale, &mut sc);
    }
    if on("validate") {
        stream_validate(&mut rep, &mut m, &root, scale, &mut sc);
    }
    if on("stores") {
        stream_stores(&mut rep, &mut m, &root, args.thorough, &mut sc);
    }
    if on("route") {
        stream_route(&mut rep, &mut m, &root, scale, &mut sc);
    }
    if on("crash") {
        stream_crash(&mut rep, &mut m, &root, args.thorough, &mut sc);
    }
    if on("fsops") {
        stream_fsops(&mut rep, &mut m, &root, scale, &mut sc);
    }
    if on("save_after_crash") {
        stream_save_after_crash(&mut rep, &mut m, &root, args.thorough, &mut sc);
    }
    rep.note("bitcode, zstd and the tensor-train kernels are opaque: the model frames and routes their bytes, the harness checks their round-trip and their rejection of truncated input on the real crates");
    rep.note("crash model of the property: any prefix of the save's file operations (create temp, write header, write body, sync_all, rename), the write in flight cut at any byte, rename atomic; on top of each crash state, power loss = un-synced bytes of the path's file cut at any byte (none exist with sync_all before the rename); durability of the directory entry is not modelled");
    rep.note("crash clause over a SEQUENCE of saves: an interrupted save leaves its temp file (any prefix of the snapshot, or all of it) in a real directory, then the real save runs on that directory (in process, and once per format in a strace'd child after a first save really killed by RLIMIT_FSIZE): it must succeed, the path must load as exactly the store just saved, carry no byte of the stale temp file, and no temp file may remain; chains crash / crash / save are covered; the model's file operations (create = truncate, open-without-truncate, write, write-at-offset, fsync, rename) are run against std::fs on a real directory");
    rep.write(&args.out);
}
