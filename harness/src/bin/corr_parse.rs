//! C15 correspondence + oracles: real `neumann_parser` (ExprParser in expr.rs, statement parser in
//! parser.rs) and `query_router::QueryRouter` vs the Lean Pratt model (`drv_parse`).
//!
//! streams
//!   print.*      harness printer built from the DOCUMENTED precedence levels vs the model's printMin
//!   expr.*       generated trees, printed by the model (min / full / all parens), rendered to text,
//!                parsed by the real `parse_expr`; AST canonicalised and compared with the model's
//!                parse of the same token list.  Oracle: min-print and full-print give the same real
//!                AST and it equals the generated tree.
//!   stmt.*       the same text inside `SELECT * FROM t WHERE <expr>` through the real statement
//!                parser (its own copy of the Pratt loop; since /repo 59c7cb56 with the same
//!                MAX_DEPTH = 64 counter) vs the same model op `parse`.  A start-up probe checks that
//!                the limit is there (`stmt.depth_limit_probe`); if it is not, that is a
//!                correspondence failure, never a silent switch to the pre-fix model.
//!   select.*     the SELECT skeleton (`* [FROM t | FROM ( SELECT … )] [WHERE EXISTS ( SELECT … )]`) through
//!                the real `parse` vs the model op `sel` (Parse/Select.lean): both counters of the
//!                statement parser (`select_depth`, `depth`), chains of 58..70 bodies, truncations,
//!                mutants, soups; inputs that leave the fragment (`outside`) are counted, not compared.
//!   nest.*       expression nesting × subquery nesting (`SELECT expr [FROM t | ( SELECT … )] [WHERE expr]` with
//!                EXISTS ( SELECT … ) / [NOT] IN ( SELECT … ) / IN lists inside expressions) through the real
//!                `parse` vs the model op `nest` (Parse/Nest.lean): the expression-nesting budget is ONE per
//!                statement.  nest.directed (levels × prefix operators: 2 × 40, 60 × 60, … — first),
//!                nest.mixed (seeded spines mixing prefix operators / parentheses / right operands / IN lists
//!                with IN / EXISTS / FROM subqueries, live frames 50..80; far above the limit in the child
//!                process), nest.tree / nest.mutant / nest.soup.  Oracles: an accepted statement never needs
//!                more than 64 live expression frames across subquery boundaries (generator count and AST),
//!                the child never dies.
//!   cmt.*        ORACLE ONLY (metamorphic, real lexer + parser, the model is not asked): comments and whitespace
//!                are not part of the meaning.  S = comment-free statement text, S' = S with well-nested block
//!                comments (star runs before closing marks, `/` runs before nested openers, nesting, banners) or
//!                blank + `--` comment + newline in front of tokens: tokenize(S') = tokenize(S) with spans moved
//!                by the inserted bytes, parse / parse_all equal up to spans.  cmt.directed runs first (the four
//!                demonstrations of seeded C15_3, every shape in front of every token); cmt.random[.line].
//!                Failures are shrunk to the fewest insertion points and the shortest comment.
//!                cmt.reference_scanner_vs_model: the harness's notion of "well nested" against the model's.
//!   strlit.*     ORACLE ONLY (real lexer + parser + router): a string literal means what was written.  For a string
//!                VALUE v and each delimiter q the canonical literal (delimiter doubled, backslash doubled, newline as
//!                `\n`, every other character — the quote of the other kind included, alone or in runs — as it is) must
//!                lex to ONE String token with value v (alone and inside a statement), the parsed statement must carry
//!                v, and INSERT / SELECT … WHERE v = literal / UPDATE / NODE CREATE through the text path must store,
//!                find and read back what the direct engine call with v stores (third clause).  strlit.directed (the
//!                shortest values that need "only the DELIMITER is un-doubled": `""` in '…', `''` in "…", JSON with an
//!                empty string, and their neighbours) and strlit.exhaustive (every value over {a ' " \} up to length 4,
//!                both delimiters) run FIRST; strlit.random (0..6 pieces rich in runs of both quotes and backslashes,
//!                JSON / prose shapes); strlit.body (arbitrary bodies, every escape spelling, meaning by the reference
//!                function written from the model's `litValue`).  Class = the first layer that fails; failing values
//!                are shrunk.  strlit.reference_vs_model: the harness's renderer / meaning against Lex.litRender /
//!                Lex.litValue (ops `strrender`, `strval`); lex.strings: the literals through the lexer model.
//!   known.*      directed reproduction of the listed KNOWN finding and directed regression inputs of
//!                the two FIXED ones, before any random stream.
//!   soup         random token lists over the model alphabet (mostly ill-formed): Ok/Err, error kind
//!                and error token index compared.
//!   boundary     prefix / paren / right-nesting chains of 60..70 levels around MAX_DEPTH.
//!   adv.*        ORACLE ONLY: adversarial byte strings through the real top-level entry points in a
//!                child process, in a thread with a small stack, under catch_unwind, with a timeout,
//!                twice: must be Ok or Err with span inside the input, deterministic; and
//!                `format_with_source` (what the router calls on every parse error) must not panic.
//!   exec.*       ORACLE ONLY: statement text through `QueryRouter::execute` / `execute_parsed` vs the
//!                direct engine calls on a twin database.
//!   xsel.*       the clauses the router evaluates ITSELF on the engine's answer (Parse/Exec.lean, ops `xsel` `xlist`
//!                `xtake`): SELECT [columns] FROM t [JOIN u …] [WHERE …] [ORDER BY items] [LIMIT k] [OFFSET o] on small
//!                tables with ties and NULLs, k and o at the boundaries 0, 1, m-1, m, m+1 of the result size m.
//!                Executed clause by clause, every step judged on the real outputs against the step before it
//!                (rows = direct engine call; ORDER BY = sorted permutation; OFFSET o = minus the first o rows;
//!                LIMIT k = first k rows), the statement's answer compared with the model run on the direct call's
//!                rows (xsel.model, every row list).  xsel.directed.regression runs FIRST (/repo 1133d8d8: ORDER BY
//!                over outer-join rows with a sort column missing in one row and NULL in another — 21 rows, the
//!                statement of the fixed finding, then every outer join × sort column × direction × NULLS clause;
//!                oracle class …exec_select_with_joins/order_by_panics_on_outer_join_rows), then xsel.directed
//!                (every shape × every boundary pair on 0..5 rows; one row + LIMIT 0 is the first table), then
//!                aggregates / GROUP BY / HAVING vs the engine's aggregate calls, INSERT / UPDATE / DELETE results and
//!                table states on twins, NODE LIST / EDGE LIST / FIND / SHOW EMBEDDINGS / SIMILAR windows, NEIGHBORS,
//!                PATH (xsel.family.*); xsel.random after exec.  Failing statements are shrunk (rows, clauses, numbers).
//!                xsel.candidate.*: clauses that are parsed and not (or not as written) applied on the unchanged tree —
//!                SQL-feature gaps outside the property's quantifier: observations, re-established at every run.
//!   xsel.insert.* INSERT … VALUES with several tuples of DIFFERENT lengths (Parse/Insert.lean, op `insrows`): shorter after
//!                longer, longer after shorter, mixed; no column list / listed in schema order / permuted / two of three
//!                columns; every omitted trailing column nullable; explicit NULLs.  Text on database A, on the twin B one
//!                RelationalEngine::insert per tuple with the row `ins_row(columns, tuple)` (the tuple's own values, nothing
//!                else); ids, the table state ROW BY ROW and the model's rows are compared (classes
//!                …exec_insert/values_row_differs_from_direct_call, …/values_result_differs_from_direct_call).
//!                xsel.insert.directed runs before every other xsel stream (first case: `VALUES (1, 10, 'x'), (2)`, then its
//!                neighbours and every triple of lengths × every column order), xsel.insert.random after xsel.random.
//!                Failing statements are shrunk (table, tuples, trailing values, column list).
//!   Errors on a compared line are variant + position + expected token, never message wording (see `canon_err`).
use nverif::*;
use serde_json::json;
use std::io::{BufRead, BufReader, Write};
use std::process::{Child, ChildStdin, Command, Stdio};
use std::sync::mpsc::{channel, Receiver};
use std::time::{Duration, Instant};

use neumann_parser as np;
use np::{BinaryOp, ExprKind, Literal, ParseErrorKind, StatementKind, UnaryOp};

// ------------------------------------------------------------------ operator tables

/// (model name, texts, real op, documented precedence level of expr.rs's module doc)
const BIN: [(&str, &[&str], BinaryOp, u8); 19] = [
    ("add", &["+"], BinaryOp::Add, 8),
    ("sub", &["-"], BinaryOp::Sub, 8),
    ("mul", &["*"], BinaryOp::Mul, 9),
    ("div", &["/"], BinaryOp::Div, 9),
    ("mod", &["%"], BinaryOp::Mod, 9),
    ("eq", &["="], BinaryOp::Eq, 3),
    ("ne", &["!=", "<>"], BinaryOp::Ne, 3),
    ("lt", &["<"], BinaryOp::Lt, 3),
    ("le", &["<="], BinaryOp::Le, 3),
    ("gt", &[">"], BinaryOp::Gt, 3),
    ("ge", &[">="], BinaryOp::Ge, 3),
    ("and", &["AND", "and", "And"], BinaryOp::And, 2),
    ("or", &["OR", "or"], BinaryOp::Or, 1),
    ("concat", &["||"], BinaryOp::Concat, 8),
    ("bitand", &["&"], BinaryOp::BitAnd, 6),
    ("bitor", &["|"], BinaryOp::BitOr, 4),
    ("bitxor", &["^"], BinaryOp::BitXor, 5),
    ("shl", &["<<"], BinaryOp::Shl, 7),
    ("shr", &[">>"], BinaryOp::Shr, 7),
];
const UN: [&str; 3] = ["neg", "not", "bitnot"];
const UNARY_LEVEL: u8 = 10;
const PRIMARY_LEVEL: u8 = 11;

fn bin_name(op: BinaryOp) -> &'static str {
    BIN.iter().find(|b| b.2 == op).map(|b| b.0).unwrap_or("?")
}
fn un_name(op: UnaryOp) -> &'static str {
    match op {
        UnaryOp::Neg => "neg",
        UnaryOp::Not => "not",
        UnaryOp::BitNot => "bitnot",
    }
}

// ------------------------------------------------------------------ generated trees

#[derive(Clone, Debug)]
enum T {
    Atom(usize),
    Wild,
    Unit,
    Un(usize, Box<T>),
    Bin(Box<T>, usize, Box<T>),
}

impl T {
    fn polish(&self, out: &mut String) {
        match self {
            T::Atom(n) => out.push_str(&format!("a{n} ")),
            T::Wild => out.push_str("wild "),
            T::Unit => out.push_str("unit "),
            T::Un(u, x) => {
                out.push_str(&format!("un {} ", UN[*u]));
                x.polish(out);
            }
            T::Bin(l, o, r) => {
                out.push_str(&format!("bin {} ", BIN[*o].0));
                l.polish(out);
                r.polish(out);
            }
        }
    }
    /// expected S-expression; atoms as `a<n>` (expanded later)
    fn sexp(&self) -> String {
        match self {
            T::Atom(n) => format!("a{n}"),
            T::Wild => "*".into(),
            T::Unit => "()".into(),
            T::Un(u, x) => format!("({} {})", UN[*u], x.sexp()),
            T::Bin(l, o, r) => format!("({} {} {})", BIN[*o].0, l.sexp(), r.sexp()),
        }
    }
    fn depth(&self) -> usize {
        match self {
            T::Un(_, x) => 1 + x.depth(),
            T::Bin(l, _, r) => 1 + l.depth().max(r.depth()),
            _ => 1,
        }
    }
    fn level(&self) -> u8 {
        match self {
            T::Bin(_, o, _) => BIN[*o].3,
            T::Un(..) => UNARY_LEVEL,
            _ => PRIMARY_LEVEL,
        }
    }
    /// Printer written from the documented rules only: levels 1..11, every binary operator
    /// left-associative, unary binds tighter than every binary, primaries tightest.
    fn print_doc(&self, out: &mut Vec<String>) {
        fn wrapped(t: &T, need: bool, out: &mut Vec<String>) {
            if need {
                out.push("(".into());
            }
            t.print_doc(out);
            if need {
                out.push(")".into());
            }
        }
        match self {
            T::Atom(n) => out.push(format!("a{n}")),
            T::Wild => out.push("mul".into()),
            T::Unit => {
                out.push("(".into());
                out.push(")".into());
            }
            T::Un(u, x) => {
                out.push(match *u {
                    0 => "sub".into(),
                    1 => "not".into(),
                    _ => "tilde".into(),
                });
                wrapped(x, x.level() < UNARY_LEVEL, out);
            }
            T::Bin(l, o, r) => {
                let lv = BIN[*o].3;
                wrapped(l, l.level() < lv, out);
                out.push(BIN[*o].0.into());
                wrapped(r, r.level() <= lv, out);
            }
        }
    }
    fn count_ops(&self, rep: &mut Report) {
        match self {
            T::Atom(_) => rep.hit("tree.atom"),
            T::Wild => rep.hit("tree.wildcard"),
            T::Unit => rep.hit("tree.unit"),
            T::Un(u, x) => {
                rep.hit(&format!("tree.un.{}", UN[*u]));
                x.count_ops(rep);
            }
            T::Bin(l, o, r) => {
                rep.hit(&format!("tree.bin.{}", BIN[*o].0));
                l.count_ops(rep);
                r.count_ops(rep);
            }
        }
    }
}

struct Gen {
    next_atom: usize,
}
impl Gen {
    fn leaf(&mut self, r: &mut Rng) -> T {
        match r.below(20) {
            0 => T::Wild,
            1 => T::Unit,
            _ => {
                self.next_atom += 1;
                T::Atom(self.next_atom - 1)
            }
        }
    }
    /// shape: 0 random, 1 left-deep, 2 right-deep, 3 same-level operators only, 4 unary heavy
    fn tree(&mut self, r: &mut Rng, depth: usize, shape: u8, level_ops: &[usize]) -> T {
        if depth <= 1 || (shape == 0 && r.chance(1, 6)) {
            return self.leaf(r);
        }
        let unary_p = if shape == 4 { 2 } else { 6 };
        if r.chance(1, unary_p) {
            let u = r.below(3) as usize;
            return T::Un(u, Box::new(self.tree(r, depth - 1, shape, level_ops)));
        }
        let o = if shape == 3 {
            *r.pick(level_ops)
        } else {
            r.below(19) as usize
        };
        let (dl, dr) = match shape {
            1 => (depth - 1, 1 + r.below(2) as usize),
            2 => (1 + r.below(2) as usize, depth - 1),
            _ => {
                if r.chance(1, 2) {
                    (depth - 1, 1 + r.below(depth as u64 - 1) as usize)
                } else {
                    (1 + r.below(depth as u64 - 1) as usize, depth - 1)
                }
            }
        };
        let l = self.tree(r, dl, shape, level_ops);
        let rr = self.tree(r, dr, shape, level_ops);
        T::Bin(Box::new(l), o, Box::new(rr))
    }
}

// ------------------------------------------------------------------ atoms & rendering

/// text of atom `n`; `plain_only` = no bare identifier (used when a `(` could follow).
fn atom_text(r: &mut Rng, n: usize, rich: bool, no_ident: bool) -> (String, &'static str) {
    let k = if rich { r.below(24) } else { r.below(8) };
    match k {
        0 | 1 if !no_ident => (format!("c{n}"), "ident"),
        0 | 1 | 2 => (format!("{n}"), "int"),
        3 => (format!("'s{n}'"), "string"),
        4 => (format!("{n}.5"), "float"),
        5 => ((*r.pick(&["TRUE", "FALSE", "NULL", "true", "null"])).to_string(), "keyword_literal"),
        6 if !no_ident => (format!("status"), "contextual_keyword"),
        6 | 7 => (format!("\"q{n}\""), "dq_string"),
        8 => (format!("c{n} IS NULL"), "is_null"),
        9 => (format!("c{n} IS NOT NULL"), "is_not_null"),
        10 => (format!("c{n} IN (1, c2, 3 + 4)"), "in"),
        11 => (format!("c{n} NOT IN ('x')"), "not_in"),
        12 => (format!("c{n} BETWEEN 1 AND 10"), "between"),
        13 => (format!("c{n} NOT BETWEEN - 1 AND (2 + 3)"), "not_between"),
        14 => (format!("c{n} LIKE 'p%'"), "like"),
        15 => (format!("c{n} NOT LIKE 'q'"), "not_like"),
        16 => (format!("f{n}(c1, 2 + 3 * 4)"), "call"),
        17 => ("COUNT(*)".to_string(), "aggregate"),
        18 => (format!("[1, c{n}, 3 - 1]"), "array"),
        19 => (format!("CASE WHEN c{n} > 2 THEN 'a' ELSE 'b' END"), "case"),
        20 => (format!("t.c{n}"), "qualified"),
        21 => (format!("SUM(DISTINCT c{n})"), "aggregate_distinct"),
        22 => (format!("(1, c{n})"), "tuple"),
        _ => (format!("CASE c{n} WHEN 1 THEN 2 END IS NULL"), "case_is_null"),
    }
}

struct Rendered {
    text: String,
    /// byte offset of the start of every token
    starts: Vec<usize>,
}

fn sep(r: &mut Rng, fancy: bool) -> &'static str {
    if !fancy {
        return " ";
    }
    match r.below(12) {
        0 => "  ",
        1 => "\t",
        2 => "\n",
        3 => " /* c */ ",
        4 => " -- x\n",
        5 => " /* a /* nested */ b */ ",
        _ => " ",
    }
}

/// model token words -> query text
fn render(words: &[String], atoms: &[String], r: &mut Rng, fancy: bool) -> Rendered {
    let mut text = String::new();
    let mut starts = Vec::new();
    if fancy && r.chance(1, 8) {
        text.push_str(sep(r, true));
    }
    for (i, w) in words.iter().enumerate() {
        if i > 0 {
            text.push_str(sep(r, fancy));
        }
        starts.push(text.len());
        let t: String = match w.as_str() {
            "(" => "(".into(),
            ")" => ")".into(),
            "not" => (*r.pick(&["NOT", "not", "Not"])).into(),
            "bang" => "!".into(),
            "tilde" => "~".into(),
            "other" => (*r.pick(&[";", "]", "}", ":", "@", "THEN", "?"])).into(),
            _ => {
                if let Some(b) = BIN.iter().find(|b| b.0 == w) {
                    (*r.pick(b.1)).into()
                } else {
                    let n: usize = w[1..].parse().unwrap();
                    atoms[n].clone()
                }
            }
        };
        text.push_str(&t);
    }
    if fancy && r.chance(1, 8) {
        text.push_str(sep(r, true));
    }
    Rendered { text, starts }
}

fn tok_index(rd: &Rendered, off: usize) -> String {
    match rd.starts.iter().position(|s| *s == off) {
        Some(i) => i.to_string(),
        None => {
            if rd.starts.last().map_or(true, |l| off > *l) {
                rd.starts.len().to_string()
            } else {
                format!("?off{off}")
            }
        }
    }
}

// ------------------------------------------------------------------ canonical real AST

fn sx(e: &np::Expr) -> String {
    match &e.kind {
        ExprKind::Literal(Literal::Integer(n)) => format!("int:{n}"),
        ExprKind::Literal(Literal::Float(f)) => format!("f64:{:016x}", f.to_bits()),
        ExprKind::Literal(Literal::String(s)) => format!("str:{s:?}"),
        ExprKind::Literal(Literal::Boolean(b)) => format!("bool:{b}"),
        ExprKind::Literal(Literal::Null) => "null".into(),
        ExprKind::Ident(i) => format!("id:{}", i.name),
        ExprKind::Qualified(b, i) => format!("(qual {} {})", sx(b), i.name),
        ExprKind::Binary(l, op, r) => format!("({} {} {})", bin_name(*op), sx(l), sx(r)),
        ExprKind::Unary(op, x) => format!("({} {})", un_name(*op), sx(x)),
        ExprKind::Call(c) => format!(
            "(call {}{}{})",
            c.name.name,
            if c.distinct { " distinct" } else { "" },
            c.args.iter().map(|a| format!(" {}", sx(a))).collect::<String>()
        ),
        ExprKind::Case(c) => format!(
            "(case {}{} else={})",
            c.operand.as_ref().map_or("-".to_string(), |o| sx(o)),
            c.when_clauses
                .iter()
                .map(|w| format!(" (when {} {})", sx(&w.condition), sx(&w.result)))
                .collect::<String>(),
            c.else_clause.as_ref().map_or("-".to_string(), |o| sx(o))
        ),
        ExprKind::Subquery(_) => "(subquery)".into(),
        ExprKind::Exists(_) => "(exists)".into(),
        ExprKind::In { expr, list, negated } => format!(
            "({} {}{})",
            if *negated { "notin" } else { "in" },
            sx(expr),
            match list {
                np::InList::Values(v) => v.iter().map(|a| format!(" {}", sx(a))).collect::<String>(),
                np::InList::Subquery(_) => " (subquery)".into(),
            }
        ),
        ExprKind::Between { expr, low, high, negated } => format!(
            "({} {} {} {})",
            if *negated { "notbetween" } else { "between" },
            sx(expr),
            sx(low),
            sx(high)
        ),
        ExprKind::Like { expr, pattern, negated } => {
            format!("({} {} {})", if *negated { "notlike" } else { "like" }, sx(expr), sx(pattern))
        }
        ExprKind::IsNull { expr, negated } => {
            format!("({} {})", if *negated { "isnotnull" } else { "isnull" }, sx(expr))
        }
        ExprKind::Array(v) => format!("(array{})", v.iter().map(|a| format!(" {}", sx(a))).collect::<String>()),
        ExprKind::Tuple(v) => {
            if v.is_empty() {
                "()".into()
            } else {
                format!("(tuple{})", v.iter().map(|a| format!(" {}", sx(a))).collect::<String>())
            }
        }
        ExprKind::Cast(x, ty) => format!("(cast {} {:?})", sx(x), ty),
        ExprKind::Wildcard => "*".into(),
        ExprKind::QualifiedWildcard(i) => format!("(qualwild {})", i.name),
    }
}

// ---- errors on a compared line: variant, position, expected TOKEN — never message wording (DESIGN I.2)
//
// `ParseErrorKind` carries two kinds of free text: the `expected` description of UnexpectedToken / UnexpectedEof and
// the message of InvalidSyntax.  Neither reaches a compared line:
//  * `expected` is either the spelling of a token kind (`expect(&kind)` passes `kind.as_str()`; recognised by
//    comparing with `as_str()` of the SAME `TokenKind` values here, or by lexing it back into exactly that one
//    token) — that is structure and is compared — or a description written out in the parser ("expression",
//    "identifier", "end of expression", …), which is wording: ONE token `desc` on both sides.
//  * InvalidSyntax has no discriminator besides its message: `err invalid <position>` on both sides.
// The model's answer keeps the finer reason (which description, which InvalidSyntax reason); it is what the
// distribution keys (`….result.err_unexpected_expression`, `….err_invalid_qualwild`, …) are computed from when
// implementation and model agree (`cmp_parse`), so that the statistics do not depend on wording either.

/// the token kinds the models name in an `expected` position, with the models' names
fn expected_token_table() -> Vec<(np::TokenKind, &'static str)> {
    use np::TokenKind as TK;
    vec![
        (TK::RParen, ")"), (TK::RBracket, "]"), (TK::LParen, "("), (TK::Null, "NULL"), (TK::And, "AND"), (TK::Then, "THEN"),
        (TK::End, "END"), (TK::Select, "SELECT"), (TK::Join, "JOIN"), (TK::By, "BY"), (TK::Last, "LAST"),
    ]
}

fn exp_word(expected: &str) -> String {
    for (k, name) in expected_token_table() {
        if k.as_str() == expected {
            return name.to_string();
        }
    }
    // any other token kind: its spelling lexes back into exactly that token
    let toks = np::tokenize(expected);
    if toks.len() == 2 {
        use np::TokenKind as TK;
        let k = &toks[0].kind;
        if !matches!(k, TK::Ident(_) | TK::Integer(_) | TK::Float(_) | TK::String(_) | TK::Error(_) | TK::Eof) && k.as_str() == expected {
            return expected.replace(' ', "_");
        }
    }
    "desc".to_string()
}

/// the descriptions the models name (Driver.lean showExpect / showSExpect / showFExpect / showCExpect)
const MODEL_DESCRIPTIONS: [&str; 3] = ["expression", "identifier", "end_of_expression"];

/// a model answer as it is compared: `err eof|unexpected <description> …` → `… desc …`, `err invalid <reason> <p>` →
/// `err invalid <p>`; everything else unchanged
fn collapse_err(ans: &str) -> String {
    if !ans.starts_with("err ") {
        return ans.to_string();
    }
    let mut w: Vec<&str> = ans.split(' ').collect();
    match w[1] {
        "eof" | "unexpected" if w.len() >= 3 && MODEL_DESCRIPTIONS.contains(&w[2]) => w[2] = "desc",
        "invalid" if w.len() >= 4 => {
            w.remove(2);
        }
        _ => {}
    }
    w.join(" ")
}

/// compare the implementation's line with the collapsed model answer; returns the line the distribution keys are
/// computed from: the model's own (finer) answer when the two agree, the implementation's otherwise
fn cmp_parse(rep: &mut Report, stream: &str, input: impl FnOnce() -> serde_json::Value, imp: String, model: &str) -> String {
    if rep.compare(stream, input, &imp, &collapse_err(model)) {
        model.to_string()
    } else {
        imp
    }
}

fn canon_err(e: &np::ParseError, rd: &Rendered) -> String {
    let at = tok_index(rd, e.span.start.0 as usize);
    match &e.kind {
        ParseErrorKind::TooDeep => format!("err too_deep {at}"),
        ParseErrorKind::UnexpectedEof { expected } => format!("err eof {}", exp_word(expected)),
        ParseErrorKind::UnexpectedToken { expected, .. } => format!("err unexpected {} {at}", exp_word(expected)),
        other => format!("err other:{} {at}", kind_tag(other)),
    }
}

fn real_parse_expr(rd: &Rendered) -> String {
    let text = rd.text.clone();
    match guarded(move || np::parse_expr(&text)) {
        Ok(Ok(e)) => format!("ok {}", sx(&e)),
        Ok(Err(e)) => canon_err(&e, rd),
        Err(p) => format!("panic {p}"),
    }
}

const STMT_PREFIX: &str = "SELECT * FROM t WHERE ";

/// The statement parser's Pratt copy has the same depth counter as ExprParser (/repo 59c7cb56), so
/// the model op is `parse` for both.  `parse_nolimit` (the pre-fix code) is asked only by the
/// start-up probe, to show that the probe inputs do distinguish the two.
const STMT_MODEL_OP: &str = "parse";
fn stmt_model_op() -> &'static str {
    STMT_MODEL_OP
}

/// Start-up probe: nesting chains around the limit through the real statement parser against the
/// model op `parse`.  Before the fix the real parser accepted them (model op `parse_nolimit`); a
/// parser without the limit therefore shows up here as correspondence disagreements.
fn probe_stmt_depth_limit(m: &mut Model, rep: &mut Report, rng: &Rng) {
    let mut r = rng.fork("probe");
    let atoms = vec!["1".to_string()];
    let atom_sx = vec![np::parse_expr("1").map(|e| sx(&e)).unwrap_or_default()];
    for (name, opener, closer) in [("neg", "sub", ""), ("not", "not", ""), ("paren", "(", ")"), ("tilde", "tilde", "")] {
        for n in [63usize, 64, 70, 200] {
            let mut words: Vec<String> = (0..n).map(|_| opener.to_string()).collect();
            words.push("a0".into());
            if !closer.is_empty() {
                words.extend((0..n).map(|_| closer.to_string()));
            }
            let rd = render(&words, &atoms, &mut r, false);
            let imp = real_parse_where(&rd);
            let line = words.join(" ");
            let model = collapse_err(&expand(&m.ask(&format!("parse {line}")), &atom_sx));
            let old = collapse_err(&expand(&m.ask(&format!("parse_nolimit {line}")), &atom_sx));
            rep.case("stmt.depth_limit_probe", Some(&format!("{name}{n}")));
            rep.compare(
                "stmt.depth_limit_probe",
                || json!({"text_head": &rd.text[..rd.text.len().min(80)], "construct": name, "levels": n,
                          "pre_fix_model_answer": &old[..old.len().min(60)]}),
                &imp,
                &model,
            );
            rep.hit(if model == old { "probe.below_limit" } else { "probe.distinguishes_prefix_code" });
            rep.hit(&format!("probe.real.{}", imp.split(' ').take(2).collect::<Vec<_>>().join("_")));
        }
    }
}

/// WHERE clause of `SELECT * FROM t WHERE <text>` through the statement parser.
/// Returns (answer, whole statement consumed?)
fn real_parse_where(rd: &Rendered) -> String {
    let text = format!("{STMT_PREFIX}{}", rd.text);
    match guarded(move || np::parse(&text)) {
        Ok(Ok(st)) => match st.kind {
            StatementKind::Select(s) => match s.where_clause {
                Some(w) => format!("ok {}", sx(&w)),
                None => "ok <no-where>".into(),
            },
            _ => "ok <not-select>".into(),
        },
        Ok(Err(e)) => {
            let shifted = Rendered {
                text: String::new(),
                starts: rd.starts.iter().map(|s| s + STMT_PREFIX.len()).collect(),
            };
            canon_err(&e, &shifted)
        }
        Err(p) => format!("panic {p}"),
    }
}

/// replace `a<n>` in a model answer by the canonical form of atom n
fn expand(ans: &str, atom_sx: &[String]) -> String {
    let b = ans.as_bytes();
    let mut out = String::new();
    let mut i = 0;
    while i < b.len() {
        let word_start = i == 0 || b[i - 1] == b' ' || b[i - 1] == b'(';
        if b[i] == b'a' && word_start && i + 1 < b.len() && b[i + 1].is_ascii_digit() {
            let mut j = i + 1;
            while j < b.len() && b[j].is_ascii_digit() {
                j += 1;
            }
            let n: usize = ans[i + 1..j].parse().unwrap();
            out.push_str(atom_sx.get(n).map_or("?", |s| s.as_str()));
            i = j;
        } else {
            out.push(b[i] as char);
            i += 1;
        }
    }
    out
}

fn words_of(line: &str) -> Vec<String> {
    line.split_whitespace().map(|s| s.to_string()).collect()
}

// ------------------------------------------------------------------ stream (i): trees

fn make_atoms(r: &mut Rng, n: usize, rich: bool, no_ident: bool, rep: &mut Report) -> (Vec<String>, Vec<String>) {
    let mut texts = Vec::new();
    let mut sxs = Vec::new();
    for i in 0..n {
        let (t, kind) = atom_text(r, i, rich, no_ident);
        rep.hit(&format!("atom.{kind}"));
        let s = match np::parse_expr(&t) {
            Ok(e) => sx(&e),
            Err(e) => format!("<atom-does-not-parse:{e}>"),
        };
        texts.push(t);
        sxs.push(s);
    }
    (texts, sxs)
}

thread_local! {
    static REPORTED: std::cell::RefCell<std::collections::BTreeMap<String, u32>> = Default::default();
}
/// at most three witnesses per violation class; all are counted in the distribution
fn viol_once(rep: &mut Report, class: &str, what: &str, input: serde_json::Value) {
    rep.hit(&format!("violation.{class}"));
    let n = REPORTED.with(|r| {
        let mut r = r.borrow_mut();
        let e = r.entry(class.to_string()).or_insert(0);
        *e += 1;
        *e
    });
    if n <= 3 {
        rep.violation(class, what, input);
    }
}

fn tree_case(m: &mut Model, rep: &mut Report, r: &mut Rng, t: &T, natoms: usize, stream: &str) {
    let rich = r.chance(1, 3);
    let fancy = r.chance(1, 4);
    let (atoms, atom_sx) = make_atoms(r, natoms, rich, false, rep);
    let mut pol = String::new();
    t.polish(&mut pol);
    let expected = expand(&format!("ok {}", t.sexp()), &atom_sx);
    t.count_ops(rep);
    rep.hit(&format!("tree.depth.{:02}", t.depth()));

    // documented-precedence printer vs the model's printMin
    let min_words = words_of(&m.ask(&format!("print min {pol}")));
    let mut doc = Vec::new();
    t.print_doc(&mut doc);
    rep.case("print.min_vs_documented_levels", None);
    rep.compare(
        "print.min_vs_documented_levels",
        || json!({"tree": pol}),
        &doc.join(" "),
        &min_words.join(" "),
    );
    let frames: usize = m.ask(&format!("frames min {pol}")).parse().unwrap_or(0);
    rep.hit(&format!("frames.min.{:02}", frames.min(70)));

    let mut impl_answers: Vec<(String, String)> = Vec::new();
    for mode in ["min", "full", "all"] {
        if mode == "all" && !r.chance(1, 3) {
            continue;
        }
        let words = if mode == "min" { min_words.clone() } else { words_of(&m.ask(&format!("print {mode} {pol}"))) };
        let parens = words.iter().filter(|w| *w == "(").count();
        rep.hit_n(&format!("parens.{mode}"), parens as u64);
        let rd = render(&words, &atoms, r, fancy);
        // --- ExprParser
        let imp = real_parse_expr(&rd);
        let model = expand(&m.ask(&format!("parse {}", words.join(" "))), &atom_sx);
        let key = format!("{mode}|{}", rd.text);
        let nontrivial = imp.starts_with("ok (") && t.depth() >= 2;
        let s = format!("{stream}.{mode}");
        rep.case(&s, if nontrivial { Some(&key) } else { None });
        let imp = cmp_parse(rep, &s, || json!({"text": rd.text, "tokens": words.join(" ")}), imp, &model);
        rep.hit(&format!("expr.result.{}", imp.split(' ').take(2).collect::<Vec<_>>().join("_").replace(|c: char| !c.is_ascii_alphanumeric() && c != '_', "")));
        // --- statement parser (own Pratt copy)
        let simp = real_parse_where(&rd);
        let smodel = expand(&m.ask(&format!("{} {}", stmt_model_op(), words.join(" "))), &atom_sx);
        let s2 = format!("stmt.{mode}");
        rep.case(&s2, if nontrivial { Some(&key) } else { None });
        rep.compare(&s2, || json!({"text": format!("{STMT_PREFIX}{}", rd.text), "tokens": words.join(" ")}), &simp, &collapse_err(&smodel));
        // --- oracle on the implementation: the parse IS the generated tree
        let frames_mode: usize = m.ask(&format!("frames {mode} {pol}")).parse().unwrap_or(0);
        if frames_mode <= 64 && imp != expected {
            viol_once(rep, 
                "neumann_parser::parse_expr/precedence",
                &format!("{mode}-parenthesised print of a tree does not parse back to the tree: got {imp}, want {expected}"),
                json!({"text": rd.text, "tree": pol}),
            );
        }
        if frames_mode <= 64 && simp != expected {
            viol_once(rep, 
                "neumann_parser::parse/precedence",
                &format!("statement parser: {mode}-parenthesised print does not parse back to the tree: got {simp}, want {expected}"),
                json!({"text": format!("{STMT_PREFIX}{}", rd.text), "tree": pol}),
            );
        }
        if rep.samples.len() < 4 && t.depth() >= 4 && mode != "all" {
            rep.sample(json!({"stream": s, "text": rd.text, "real_ast": imp, "model": model}));
        }
        impl_answers.push((mode.to_string(), imp));
    }
    // paren invariance on the implementation itself
    if let Some((_, first)) = impl_answers.first() {
        for (mode, a) in &impl_answers[1..] {
            if a != first {
                viol_once(rep, 
                    "neumann_parser::parse_expr/paren_invariance",
                    &format!("min-print and {mode}-print parse differently: {first} vs {a}"),
                    json!({"tree": pol}),
                );
            }
        }
    }
}

fn stream_trees(m: &mut Model, rep: &mut Report, rng: &Rng, thorough: bool) {
    let mut r = rng.fork("trees");
    // exhaustive: every ordered pair of binary operators in both shapes, every unary over/under every binary
    for o1 in 0..19 {
        for o2 in 0..19 {
            let a = || Box::new(T::Atom(0));
            let b = || Box::new(T::Atom(1));
            let c = || Box::new(T::Atom(2));
            let left = T::Bin(Box::new(T::Bin(a(), o1, b())), o2, c());
            let right = T::Bin(a(), o1, Box::new(T::Bin(b(), o2, c())));
            tree_case(m, rep, &mut r, &left, 3, "expr.pairs");
            tree_case(m, rep, &mut r, &right, 3, "expr.pairs");
        }
        for u in 0..3 {
            let a = || Box::new(T::Atom(0));
            let b = || Box::new(T::Atom(1));
            tree_case(m, rep, &mut r, &T::Un(u, Box::new(T::Bin(a(), o1, b()))), 2, "expr.pairs");
            tree_case(m, rep, &mut r, &T::Bin(Box::new(T::Un(u, a())), o1, b()), 2, "expr.pairs");
            tree_case(m, rep, &mut r, &T::Bin(a(), o1, Box::new(T::Un(u, b()))), 2, "expr.pairs");
        }
    }
    let n = if thorough { 40000 } else { 4000 };
    let maxd = if thorough { 12 } else { 8 };
    let levels: Vec<Vec<usize>> = (1..=9u8)
        .map(|lv| (0..19).filter(|i| BIN[*i].3 == lv).collect())
        .collect();
    for i in 0..n {
        let shape = (i % 5) as u8;
        let depth = 2 + r.below(maxd as u64 - 1) as usize;
        let mut g = Gen { next_atom: 0 };
        let lv = r.pick(&levels).clone();
        let t = g.tree(&mut r, depth, shape, &lv);
        rep.hit(&format!("tree.shape.{}", ["random", "left_deep", "right_deep", "one_level", "unary_heavy"][shape as usize]));
        tree_case(m, rep, &mut r, &t, g.next_atom.max(1), "expr.trees");
    }
}

// ------------------------------------------------------------------ soup + boundary

fn soup_case(m: &mut Model, rep: &mut Report, r: &mut Rng, words: Vec<String>, stream: &str, rich_ok: bool) {
    let natoms = words.iter().filter(|w| w.starts_with('a') && w.len() > 1 && w.as_bytes()[1].is_ascii_digit()).count();
    // atoms are never bare identifiers here: `c1 (` would be a call, which is outside the alphabet
    let rich = rich_ok && r.chance(1, 4);
    let fancy = r.chance(1, 5);
    let (atoms, atom_sx) = make_atoms(r, natoms.max(1), rich, true, rep);
    let rd = render(&words, &atoms, r, fancy);
    let imp = real_parse_expr(&rd);
    let model = expand(&m.ask(&format!("parse {}", words.join(" "))), &atom_sx);
    let key = rd.text.clone();
    rep.case(stream, if words.len() >= 3 { Some(&key) } else { None });
    let imp = cmp_parse(rep, stream, || json!({"text": rd.text, "tokens": words.join(" ")}), imp, &model);
    let tag: String = imp.split(' ').take(3).enumerate().filter(|(i, w)| *i < 2 || !w.chars().all(|c| c.is_ascii_digit())).map(|(_, w)| w).collect::<Vec<_>>().join("_");
    let tag = if imp.starts_with("ok") { "ok".to_string() } else { tag };
    rep.hit(&format!("{stream}.result.{}", tag.replace(')', "rparen")));
    // normal form on the implementation: re-print the accepted tree minimally, parse again, same AST
    if imp.starts_with("ok") {
        let norm = m.ask(&format!("normal {}", words.join(" ")));
        if let Some(nw) = norm.strip_prefix("ok ") {
            let nwords = words_of(nw);
            let rd2 = render(&nwords, &atoms, r, false);
            let imp2 = real_parse_expr(&rd2);
            rep.hit(if nwords == words { "normal_form.already_minimal" } else { "normal_form.reprinted_differently" });
            if imp2 != imp {
                viol_once(rep, "neumann_parser::parse_expr/normal_form",
                    &format!("minimal re-print of an accepted expression parses differently: {imp} vs {imp2}"),
                    json!({"text": rd.text, "reprinted": rd2.text}));
            }
        }
    }
    // statement parser on the same tokens: compared when the model accepts or answers TooDeep (the
    // depth counter aborts the whole statement at the same token); other errors are not compared: a
    // statement ignores trailing tokens and continues with GROUP BY…, so that part of its error
    // behaviour is not the expression core's
    let smodel = expand(&m.ask(&format!("{} {}", stmt_model_op(), words.join(" "))), &atom_sx);
    if smodel.starts_with("ok") || smodel.starts_with("err too_deep") {
        rep.hit(if smodel.starts_with("ok") { "stmt.soup.ok" } else { "stmt.soup.too_deep" });
        let simp = real_parse_where(&rd);
        let s2 = format!("{stream}.stmt");
        rep.case(&s2, None);
        rep.compare(&s2, || json!({"text": format!("{STMT_PREFIX}{}", rd.text)}), &simp, &collapse_err(&smodel));
    }
    if rep.samples.len() < 8 && imp.starts_with("err") && words.len() > 4 {
        rep.sample(json!({"stream": stream, "text": rd.text, "real": imp, "model": model}));
    }
}

fn stream_soup(m: &mut Model, rep: &mut Report, rng: &Rng, thorough: bool) {
    let mut r = rng.fork("soup");
    let n = if thorough { 150000 } else { 15000 };
    for _ in 0..n {
        let len = r.below(16) as usize;
        let mut words = Vec::new();
        let mut na = 0;
        // bias: alternate operand / operator most of the time so that deep parser states are reached
        let mut want_operand = true;
        for _ in 0..len {
            let follow = r.chance(4, 5);
            let w: String = if follow && want_operand {
                match r.below(10) {
                    0 => "(".into(),
                    1 => (*r.pick(&["sub", "not", "bang", "tilde"])).into(),
                    2 => "mul".into(),
                    _ => {
                        na += 1;
                        want_operand = false;
                        format!("a{}", na - 1)
                    }
                }
            } else if follow {
                match r.below(8) {
                    0 => ")".into(),
                    _ => {
                        want_operand = true;
                        BIN[r.below(19) as usize].0.into()
                    }
                }
            } else {
                match r.below(9) {
                    0 => "(".into(),
                    1 => ")".into(),
                    2 => "other".into(),
                    3 => "not".into(),
                    4 => "bang".into(),
                    5 => "tilde".into(),
                    6 => {
                        na += 1;
                        format!("a{}", na - 1)
                    }
                    _ => BIN[r.below(19) as usize].0.into(),
                }
            };
            words.push(w);
        }
        soup_case(m, rep, &mut r, words, "soup", true);
    }
}

fn stream_boundary(m: &mut Model, rep: &mut Report, rng: &Rng) {
    let mut r = rng.fork("boundary");
    for n in 58..=70usize {
        for kind in 0..7 {
            let mut words: Vec<String> = Vec::new();
            match kind {
                0..=3 => {
                    let t = ["sub", "not", "bang", "tilde"][kind];
                    for _ in 0..n {
                        words.push(t.into());
                    }
                    words.push("a0".into());
                }
                4 => {
                    for _ in 0..n {
                        words.push("(".into());
                    }
                    words.push("a0".into());
                    for _ in 0..n {
                        words.push(")".into());
                    }
                }
                5 => {
                    // a0 + ( a0 + ( ... : right nesting with parens, 2 frames per level
                    for _ in 0..n / 2 {
                        words.push("a0".into());
                        words.push("add".into());
                        words.push("(".into());
                    }
                    words.push("a0".into());
                    for _ in 0..n / 2 {
                        words.push(")".into());
                    }
                }
                _ => {
                    // mixed nesters
                    for _ in 0..n {
                        words.push((*r.pick(&["sub", "not", "bang", "tilde", "("])).into());
                    }
                    words.push("a0".into());
                }
            }
            rep.hit(&format!("boundary.kind.{kind}"));
            soup_case(m, rep, &mut r, words, "boundary", false);
        }
    }
}

// ------------------------------------------------------------------ stream (ii): adversarial, in a child

const VALID: &[&str] = &[
    "SELECT * FROM users",
    "SELECT id, name, email FROM users",
    "SELECT name AS user_name FROM users",
    "SELECT DISTINCT name FROM users",
    "SELECT name, COUNT(*) FROM users GROUP BY name HAVING COUNT(*) > 1",
    "SELECT * FROM users WHERE age >= 18 AND (status = 'active' OR NOT banned) ORDER BY name DESC LIMIT 10 OFFSET 5",
    "SELECT u.name, o.amount FROM users u JOIN orders o ON u.id = o.user_id WHERE o.amount > 100",
    "SELECT sub.x FROM (SELECT 1 AS x) sub",
    "SELECT * FROM t WHERE x IN (SELECT id FROM u WHERE y = 1)",
    "SELECT * FROM t WHERE EXISTS (SELECT 1 FROM u)",
    "SELECT CASE x WHEN 1 THEN 'a' WHEN 2 THEN 'b' ELSE 'c' END FROM t",
    "SELECT CAST(x AS INT), [1, 2, 3], (1, 2), -x, ~x, NOT y FROM t",
    "SELECT a FROM t WHERE b BETWEEN 1 AND 2 AND c LIKE 'x%' AND d IS NOT NULL AND e NOT IN (1,2)",
    "INSERT INTO users (name, email) VALUES ('Alice', 'alice@example.com')",
    "INSERT INTO t VALUES (1, 'a', 2.5, NULL, TRUE), (2, 'b', 1e3, NULL, FALSE)",
    "UPDATE users SET name = 'Bob', age = age + 1 WHERE id = 1",
    "DELETE FROM users WHERE id = 1",
    "CREATE TABLE users (id INT PRIMARY KEY, name VARCHAR(100) NOT NULL)",
    "CREATE INDEX idx_name ON users (name)",
    "CREATE UNIQUE INDEX idx_email ON users (email)",
    "DROP TABLE users",
    "DROP INDEX IF EXISTS idx_name",
    "SHOW TABLES",
    "DESCRIBE TABLE users",
    "NODE CREATE user {name: 'Alice', age: 30}",
    "NODE GET 123",
    "NODE DELETE 123",
    "NODE LIST user",
    "EDGE CREATE 1 -> 2 : knows {since: 2020}",
    "EDGE LIST FOLLOWS",
    "NEIGHBORS 1 OUTGOING",
    "NEIGHBORS 'entity' BY SIMILAR [1.0, 0.0] LIMIT 5",
    "PATH SHORTEST 1 -> 2 LIMIT 5",
    "EMBED STORE 'doc1' [0.1, 0.2, 0.3]",
    "EMBED GET 'doc1'",
    "EMBED BATCH [('doc1', [1.0, 0.0]), ('doc2', [0.0, 1.0])]",
    "SIMILAR 'doc1' LIMIT 10 COSINE",
    "SIMILAR [0.1, 0.2] LIMIT 5",
    "SIMILAR [1.0] WHERE status = 'active' OR status = 'pending'",
    "FIND NODE user WHERE age > 18 LIMIT 10",
    "FIND EDGE FOLLOWS WHERE weight > 0.5",
    "ENTITY CREATE 'user:1' { name: 'Alice' } EMBEDDING [1.0, 0.0]",
    "ENTITY CONNECT 'from' -> 'to' : follows",
    "ENTITY BATCH CREATE [{key: 'u1', name: 'Alice'}, {key: 'u2', name: 'Bob'}]",
    "VAULT SET 'key1' 'value1'",
    "VAULT GRANT 'user123' ON 'secret/key'",
    "CACHE PUT 'mykey' 'myvalue'",
    "CACHE SEMANTIC GET 'query text'",
    "BLOB PUT 'myfile.txt' FROM '/path/to/file'",
    "BLOB LINK 'artifact123' TO 'entity456'",
    "BLOBS FOR 'myentity'",
    "CHECKPOINT 'my-checkpoint'",
    "ROLLBACK TO 'checkpoint-id'",
    "CHECKPOINTS LIMIT 5",
    "CHAIN HEIGHT",
    "BEGIN CHAIN TRANSACTION",
    "COMMIT CHAIN",
    "CLUSTER CONNECT '127.0.0.1:8080'",
    "GRAPH PAGERANK DAMPING 0.85",
    "GRAPH INDEX CREATE ON NODE PROPERTY name",
    "CONSTRAINT CREATE email_unique ON NODE User PROPERTY email UNIQUE",
    "BATCH CREATE NODES [{labels: [Person], name: 'Alice'}]",
    "BATCH DELETE NODES [1, 2, 3]",
    "AGGREGATE NODE PROPERTY age SUM",
    ";;;SELECT * FROM users;;",
    "SELECT 1; SELECT 2",
];

const SOUP_WORDS: &[&str] = &[
    "SELECT", "FROM", "WHERE", "INSERT", "INTO", "VALUES", "UPDATE", "SET", "DELETE", "CREATE", "TABLE", "INDEX",
    "DROP", "NODE", "EDGE", "NEIGHBORS", "PATH", "EMBED", "SIMILAR", "FIND", "ENTITY", "VAULT", "CACHE", "BLOB",
    "CHECKPOINT", "CHAIN", "CLUSTER", "GRAPH", "BATCH", "AGGREGATE", "CONSTRAINT", "SHOW", "DESCRIBE", "COUNT",
    "AND", "OR", "NOT", "IN", "BETWEEN", "LIKE", "IS", "NULL", "CASE", "WHEN", "THEN", "ELSE", "END", "EXISTS",
    "CAST", "AS", "JOIN", "ON", "GROUP", "BY", "HAVING", "ORDER", "LIMIT", "OFFSET", "DISTINCT", "STORE", "GET",
    "LIST", "PROPERTY", "TO", "LEFT", "INNER", "UNIQUE", "PRIMARY", "KEY", "INT", "VARCHAR", "TRUE", "FALSE",
    "(", ")", "[", "]", "{", "}", ",", ".", ";", ":", "::", "->", "=>", "=", "!=", "<>", "<", "<=", ">", ">=", "+",
    "-", "*", "/", "%", "||", "&", "|", "^", "~", "<<", ">>", "!", "&&", "?", "@", "#", "$", "--", "/*", "*/",
    "x", "t", "users", "c1", "status", "1", "42", "3.14", "1e5", "1e", "99999999999999999999", "'s'", "'it''s'",
    "\"d\"", "'unterminated", "'\\", "é", "日本", "\u{0}", "\u{feff}", "\u{2028}", "😀",
];

struct Worker {
    child: Child,
    stdin: ChildStdin,
    rx: Receiver<String>,
    stderr: std::sync::Arc<std::sync::Mutex<String>>,
    stderr_thread: Option<std::thread::JoinHandle<()>>,
}
impl Worker {
    fn spawn() -> Worker {
        let exe = std::env::current_exe().expect("current_exe");
        let mut child = Command::new(exe)
            .arg("--child")
            .stdin(Stdio::piped())
            .stdout(Stdio::piped())
            .stderr(Stdio::piped())
            .spawn()
            .expect("spawn child");
        let stdin = child.stdin.take().unwrap();
        let out = child.stdout.take().unwrap();
        let err = child.stderr.take().unwrap();
        let (tx, rx) = channel();
        std::thread::spawn(move || {
            let rd = BufReader::new(out);
            for l in rd.lines() {
                match l {
                    Ok(l) => {
                        if tx.send(l).is_err() {
                            break;
                        }
                    }
                    Err(_) => break,
                }
            }
        });
        let stderr = std::sync::Arc::new(std::sync::Mutex::new(String::new()));
        let se = stderr.clone();
        let stderr_thread = std::thread::spawn(move || {
            let rd = BufReader::new(err);
            for l in rd.lines().map_while(Result::ok) {
                let mut g = se.lock().unwrap();
                if g.len() < 4000 {
                    g.push_str(&l);
                    g.push('\n');
                }
            }
        });
        Worker { child, stdin, rx, stderr, stderr_thread: Some(stderr_thread) }
    }
    /// Ok(answer) | Err("died" | "hang")
    fn ask(&mut self, line: &str, timeout: Duration) -> Result<String, &'static str> {
        if self.stdin.write_all(line.as_bytes()).is_err()
            || self.stdin.write_all(b"\n").is_err()
            || self.stdin.flush().is_err()
        {
            return Err("died");
        }
        match self.rx.recv_timeout(timeout) {
            Ok(l) => Ok(l),
            Err(std::sync::mpsc::RecvTimeoutError::Timeout) => Err("hang"),
            Err(_) => Err("died"),
        }
    }
    /// after a death: did the runtime report a stack overflow?
    fn death_kind(&mut self) -> &'static str {
        let _ = self.child.wait();
        // the reader ends at EOF of the dead child's stderr: after the join the message, if any, is in
        if let Some(h) = self.stderr_thread.take() {
            let _ = h.join();
        }
        let g = self.stderr.lock().unwrap();
        if g.contains("overflowed its stack") {
            "stack_overflow"
        } else {
            "abort"
        }
    }
    fn kill(&mut self) {
        let _ = self.child.kill();
        let _ = self.child.wait();
    }
}
impl Drop for Worker {
    fn drop(&mut self) {
        self.kill();
    }
}

fn kind_tag(k: &ParseErrorKind) -> &'static str {
    match k {
        ParseErrorKind::UnexpectedToken { .. } => "UnexpectedToken",
        ParseErrorKind::UnexpectedEof { .. } => "UnexpectedEof",
        ParseErrorKind::InvalidSyntax(_) => "InvalidSyntax",
        ParseErrorKind::InvalidNumber(_) => "InvalidNumber",
        ParseErrorKind::UnterminatedString => "UnterminatedString",
        ParseErrorKind::UnknownCommand(_) => "UnknownCommand",
        ParseErrorKind::DuplicateColumn(_) => "DuplicateColumn",
        ParseErrorKind::InvalidEscape(_) => "InvalidEscape",
        ParseErrorKind::TooDeep => "TooDeep",
        ParseErrorKind::Custom(_) => "Custom",
    }
}

/// what an entry point returned; built on the small stack, inspected / dropped on a big one
enum Out {
    Stmt(Result<np::Statement, np::ParseError>),
    Stmts(Result<Vec<np::Statement>, np::ParseError>),
    Expr(Result<np::Expr, np::ParseError>),
    Toks(Vec<np::Token>),
}

fn run_api(api: &str, src: &str) -> Out {
    match api {
        "parse" => Out::Stmt(np::parse(src)),
        "parse_all" => Out::Stmts(np::parse_all(src)),
        "parse_expr" => Out::Expr(np::parse_expr(src)),
        _ => Out::Toks(np::tokenize(src)),
    }
}

/// canonical one-line description (runs on the control thread: Debug is recursive)
fn describe(out: &Out, src: &str) -> String {
    fn err_line(e: &np::ParseError, src: &str) -> String {
        let s = src.to_string();
        let e2 = e.clone();
        let fmt = match std::panic::catch_unwind(move || e2.format_with_source(&s).len()) {
            Ok(_) => "fmt_ok",
            Err(_) => "fmt_panic",
        };
        format!("err {} {} {} {}", e.span.start.0, e.span.end.0, kind_tag(&e.kind), fmt)
    }
    match out {
        Out::Stmt(Ok(st)) => format!("ok {:016x}", fnv(&format!("{st:?}"))),
        Out::Stmts(Ok(st)) => format!("ok {:016x}", fnv(&format!("{st:?}"))),
        Out::Expr(Ok(st)) => format!("ok {:016x}", fnv(&format!("{st:?}"))),
        Out::Stmt(Err(e)) | Out::Stmts(Err(e)) | Out::Expr(Err(e)) => err_line(e, src),
        Out::Toks(toks) => {
            let mut last = 0u32;
            let mut bad = false;
            for t in toks {
                if t.span.start.0 < last || t.span.end.0 < t.span.start.0 || t.span.end.0 as usize > src.len() {
                    bad = true;
                }
                last = t.span.start.0;
            }
            if bad {
                "badspan".into()
            } else {
                format!("ok {:016x}", fnv(&format!("{toks:?}")))
            }
        }
    }
}

/// Child process: a control thread with a huge stack reads requests; each request runs the real
/// entry point TWICE in fresh threads with the requested small stack under catch_unwind; results
/// are formatted, compared and dropped on the control thread, so a stack overflow can only come
/// from the parser itself (or, with api suffix `+drop`, from dropping its result).
fn child_main() {
    std::panic::set_hook(Box::new(|_| {}));
    let ctl = std::thread::Builder::new()
        .stack_size(2 << 30)
        .spawn(|| {
            let stdin = std::io::stdin();
            let stdout = std::io::stdout();
            for line in stdin.lock().lines() {
                let line = match line {
                    Ok(l) => l,
                    Err(_) => break,
                };
                let mut it = line.split(' ');
                let api_full = it.next().unwrap_or("").to_string();
                let (api, drop_inside) = match api_full.strip_suffix("+drop") {
                    Some(a) => (a.to_string(), true),
                    None => (api_full.clone(), false),
                };
                let stack_kb: usize = it.next().and_then(|s| s.parse().ok()).unwrap_or(2048);
                let src = String::from_utf8_lossy(&unhex(it.next().unwrap_or("-"))).into_owned();
                let mut answers = Vec::new();
                for _ in 0..2 {
                    let a = api.clone();
                    let s = src.clone();
                    let h = std::thread::Builder::new()
                        .stack_size(stack_kb * 1024)
                        .spawn(move || {
                            std::panic::catch_unwind(move || {
                                let out = run_api(&a, &s);
                                if drop_inside {
                                    let summary = match &out {
                                        Out::Stmt(Err(_)) | Out::Stmts(Err(_)) | Out::Expr(Err(_)) => "err-dropped",
                                        _ => "ok-dropped",
                                    };
                                    drop(out);
                                    Err(summary)
                                } else {
                                    Ok(out)
                                }
                            })
                        })
                        .expect("thread");
                    let ans = match h.join() {
                        Ok(Ok(Ok(out))) => describe(&out, &src),
                        Ok(Ok(Err(summary))) => format!("ok {summary}"),
                        _ => "panic".to_string(),
                    };
                    answers.push(ans);
                }
                let ans = if answers[0] == answers[1] {
                    answers[0].clone()
                } else {
                    format!("nondet {} | {}", answers[0], answers[1])
                };
                let mut o = stdout.lock();
                let _ = writeln!(o, "{ans}");
                let _ = o.flush();
            }
        })
        .expect("control thread");
    let _ = ctl.join();
}

struct Adv {
    w: Worker,
    stack_kb: usize,
    /// violation classes already reported (one witness per class; the rest are counted)
    reported: std::collections::BTreeSet<String>,
}

/// one witness per violation class; further hits are only counted
fn once(reported: &mut std::collections::BTreeSet<String>, rep: &mut Report, class: &str, what: &str, input: serde_json::Value) {
    rep.hit(&format!("violation.{class}"));
    if reported.insert(class.to_string()) {
        rep.violation(class, what, input);
    }
}

impl Adv {
    /// run `src` through `api`; record violations against `site`; returns the raw outcome
    /// ("died:<kind>" / "hang" when the process did not answer)
    fn run(&mut self, rep: &mut Report, stream: &str, site: &str, api: &str, src: &str, what: &str) -> String {
        let line = format!("{api} {} {}", self.stack_kb, hex(src.as_bytes()));
        let t0 = Instant::now();
        let stack_kb = self.stack_kb;
        let ans = self.w.ask(&line, Duration::from_secs(60));
        rep.case(stream, None);
        let short = |s: &str| -> serde_json::Value {
            if s.len() <= 300 {
                json!({"api": api, "text": s, "stack_kb": stack_kb, "gen": what})
            } else {
                let mut a = 120;
                while !s.is_char_boundary(a) {
                    a -= 1;
                }
                let mut b = s.len() - 60;
                while !s.is_char_boundary(b) {
                    b += 1;
                }
                json!({"api": api, "text_head": &s[..a], "text_tail": &s[b..], "len": s.len(), "stack_kb": stack_kb, "gen": what})
            }
        };
        let out = match ans {
            Ok(a) => a,
            Err(kind) => {
                let k = if kind == "hang" { "hang" } else { self.w.death_kind() };
                self.w.kill();
                self.w = Worker::spawn();
                once(&mut self.reported, rep, 
                    &format!("{site}/{k}"),
                    &format!(
                        "{api} on a {}-byte input ({what}) in a thread with a {} KiB stack: {}",
                        src.len(),
                        self.stack_kb,
                        match k {
                            "hang" => "no answer within 60 s",
                            "stack_overflow" => "the thread overflowed its stack and the process was killed (not catchable)",
                            _ => "the process aborted",
                        }
                    ),
                    short(src),
                );
                rep.hit(&format!("{stream}.outcome.{k}"));
                return if kind == "hang" { "hang".to_string() } else { format!("died:{k}") };
            }
        };
        let el = t0.elapsed();
        if el > Duration::from_secs(5) {
            rep.observe(json!({"slow_parse_ms": el.as_millis() as u64, "len": src.len(), "gen": what}));
        }
        let mut it = out.split(' ');
        match it.next().unwrap_or("") {
            "ok" => rep.hit(&format!("{stream}.outcome.ok")),
            "err" => {
                let s: usize = it.next().and_then(|x| x.parse().ok()).unwrap_or(usize::MAX);
                let e: usize = it.next().and_then(|x| x.parse().ok()).unwrap_or(usize::MAX);
                let kind = it.next().unwrap_or("?");
                let fmt = it.next().unwrap_or("?");
                rep.hit(&format!("{stream}.outcome.err.{kind}"));
                if !(s <= e && e <= src.len()) {
                    once(&mut self.reported, rep, 
                        &format!("{site}/span_outside_input"),
                        &format!("error span {s}..{e} not inside input of {} bytes", src.len()),
                        short(src),
                    );
                }
                if fmt != "fmt_ok" {
                    once(&mut self.reported, rep, 
                        "neumann_parser::ParseError::format_with_source/panic",
                        &format!("format_with_source panics on the error returned by {api} (span {s}..{e}); QueryRouter::execute_parsed calls it on every parse error"),
                        short(src),
                    );
                }
            }
            "panic" => {
                rep.hit(&format!("{stream}.outcome.panic"));
                once(&mut self.reported, rep, &format!("{site}/panic"), &format!("{api} panicked ({what})"), short(src));
            }
            "nondet" => {
                rep.hit(&format!("{stream}.outcome.nondet"));
                once(&mut self.reported, rep, &format!("{site}/nondeterministic"), &out, short(src));
            }
            "badspan" => {
                once(&mut self.reported, rep, &format!("{site}/span_outside_input"), "token spans not monotone / outside input", short(src));
            }
            other => {
                rep.note(&format!("child answered unknown line {other}"));
            }
        }
        out
    }
}

fn mutate(r: &mut Rng, s: &str) -> String {
    let mut b: Vec<u8> = s.as_bytes().to_vec();
    let n = 1 + r.below(4);
    for _ in 0..n {
        let len = b.len();
        match r.below(9) {
            0 if len > 0 => {
                b.remove(r.below(len as u64) as usize);
            }
            1 => {
                let c = *r.pick(b"()[]{}'\",.;:-+*/%<>=!&|^~ \n\t\\\x00\xff\xc3");
                b.insert(r.below(len as u64 + 1) as usize, c);
            }
            2 if len > 0 => {
                let i = r.below(len as u64) as usize;
                b[i] = r.next_u64() as u8;
            }
            3 if len > 0 => {
                b.truncate(r.below(len as u64) as usize);
            }
            4 if len > 1 => {
                // duplicate a slice
                let i = r.below(len as u64 - 1) as usize;
                let j = i + 1 + r.below((len - i - 1) as u64) as usize;
                let sl = b[i..j].to_vec();
                let at = r.below(len as u64) as usize;
                for (k, c) in sl.into_iter().enumerate() {
                    b.insert(at + k, c);
                }
            }
            5 => {
                let w = r.pick(SOUP_WORDS).as_bytes().to_vec();
                let at = r.below(len as u64 + 1) as usize;
                for (k, c) in w.into_iter().enumerate() {
                    b.insert(at + k, c);
                }
                b.insert(at, b' ');
            }
            6 if len > 0 => {
                // swap two bytes
                let i = r.below(len as u64) as usize;
                let j = r.below(len as u64) as usize;
                b.swap(i, j);
            }
            7 if len > 0 => {
                let i = r.below(len as u64) as usize;
                b[i] ^= 1 << r.below(8);
            }
            _ => {
                let other = r.pick(VALID).as_bytes();
                b.extend_from_slice(b" ");
                b.extend_from_slice(other);
            }
        }
    }
    String::from_utf8_lossy(&b).into_owned()
}

/// (name, opener, closer, innermost) expression-level nesting constructs
const NEST: &[(&str, &str, &str, &str)] = &[
    ("lparen", "(", ")", "1"),
    ("neg", "- ", "", "1"),
    ("not", "NOT ", "", "x"),
    ("bang", "!", "", "x"),
    ("tilde", "~", "", "1"),
    ("bracket", "[", "]", "1"),
    ("case_when", "CASE WHEN ", " THEN 1 END", "x"),
    ("case_operand", "CASE ", " WHEN 1 THEN 1 END", "x"),
    ("case_then", "CASE WHEN x THEN ", " END", "1"),
    ("call", "f(", ")", "1"),
    ("between_low", "1 BETWEEN ", " AND 2", "1"),
    ("like", "'a' LIKE ", "", "'b'"),
    ("in_list", "1 IN (", ")", "1"),
    ("binary_paren", "1 + (", ")", "1"),
    ("cast", "CAST(", " AS INT)", "1"),
];
/// statement contexts an expression can be embedded in
const CTX: &[(&str, &str, &str)] = &[
    ("select_item", "SELECT ", " FROM t"),
    ("where", "SELECT * FROM t WHERE ", ""),
    ("update_set", "UPDATE t SET a = ", " WHERE id = 1"),
    ("insert_values", "INSERT INTO t VALUES (", ")"),
    ("find_where", "FIND NODE p WHERE ", ""),
    ("delete_where", "DELETE FROM t WHERE ", ""),
];
/// statement-level nesting
const STMT_NEST: &[(&str, &str, &str, &str)] = &[
    ("from_subquery", "SELECT * FROM (", ") s", "SELECT 1"),
    ("in_subquery", "SELECT * FROM t WHERE x IN (", ")", "SELECT 1"),
    ("exists_subquery", "SELECT * FROM t WHERE EXISTS (", ")", "SELECT 1"),
    ("property_map", "NODE CREATE p {a: ", "}", "1"),
    ("batch_array", "BATCH DELETE NODES [", "]", "1"),
    ("embed_vector", "EMBED STORE 'k' [", "]", "1.0"),
    ("semicolons", ";", "", "SELECT 1"),
];

fn nested(open: &str, close: &str, inner: &str, n: usize, closed: bool) -> String {
    let mut s = String::with_capacity(n * (open.len() + close.len()) + inner.len());
    for _ in 0..n {
        s.push_str(open);
    }
    s.push_str(inner);
    if closed {
        for _ in 0..n {
            s.push_str(close);
        }
    }
    s
}

fn stream_adversarial(rep: &mut Report, rng: &Rng, thorough: bool) {
    let mut r = rng.fork("adversarial");
    // 2 MiB = Rust's default stack for spawned threads (and tokio workers, where a server runs queries)
    let mut adv = Adv { w: Worker::spawn(), stack_kb: 2048, reported: Default::default() };
    let apis = ["parse", "parse_all", "parse_expr", "tokenize"];
    let site_of = |api: &str| format!("neumann_parser::{api}");

    // (a) random bytes
    let n = if thorough { 20000 } else { 3000 };
    for i in 0..n {
        let len = match r.below(6) {
            0 => r.below(8),
            1 | 2 => r.below(64),
            3 | 4 => r.below(512),
            _ => r.below(4096),
        } as usize;
        let bytes = if i % 3 == 0 {
            (0..len).map(|_| *r.pick(b"abcXYZ019 ()[]{}'\",.;:-+*/%<>=!&|^~\n\t\\_eE")).collect::<Vec<u8>>()
        } else {
            r.bytes(len)
        };
        let s = String::from_utf8_lossy(&bytes).into_owned();
        let api = apis[i % 4];
        adv.run(rep, "adv.random_bytes", &site_of(api), api, &s, "random bytes");
    }
    // (b) token soup from the keyword / punctuation dictionary
    let n = if thorough { 60000 } else { 10000 };
    for i in 0..n {
        let k = 1 + r.below(24) as usize;
        let mut s = String::new();
        if r.chance(2, 3) {
            s.push_str(*r.pick(&[
                "SELECT", "INSERT", "UPDATE", "DELETE", "CREATE", "NODE", "EDGE", "FIND", "EMBED", "SIMILAR", "ENTITY",
                "GRAPH", "BATCH", "VAULT", "BLOB", "PATH", "NEIGHBORS", "CACHE", "CHAIN", "CLUSTER", "CHECKPOINT",
                "SHOW", "DROP", "DESCRIBE", "CONSTRAINT", "AGGREGATE", "ROLLBACK", "BEGIN", "COMMIT", "COUNT",
            ]));
            s.push(' ');
        }
        for _ in 0..k {
            s.push_str(*r.pick(SOUP_WORDS));
            if r.chance(5, 6) {
                s.push(' ');
            }
        }
        let api = apis[i % 3];
        adv.run(rep, "adv.token_soup", &site_of(api), api, &s, "keyword/punctuation soup");
    }
    // (c) valid statements and their mutations
    for s in VALID {
        let o = adv.run(rep, "adv.valid", "neumann_parser::parse_all", "parse_all", s, "valid statement");
        if !o.starts_with("ok") {
            rep.observe(json!({"corpus_statement_rejected": s, "outcome": o}));
        }
        adv.run(rep, "adv.valid", "neumann_parser::parse", "parse", s, "valid statement");
    }
    let n = if thorough { 100000 } else { 15000 };
    for i in 0..n {
        let base = *r.pick(VALID);
        let s = mutate(&mut r, base);
        let api = apis[i % 2];
        adv.run(rep, "adv.mutated", &site_of(api), api, &s, "mutated valid statement");
    }
    // (d) deep nesting
    let depths: &[usize] = if thorough { &[10, 63, 64, 65, 66, 200, 1000, 3000, 10000, 100000] } else { &[10, 63, 64, 65, 200, 1000, 3000, 10000] };
    let mut overflow_at: std::collections::BTreeMap<String, usize> = Default::default();
    for (name, open, close, inner) in NEST {
        for &d in depths {
            for closed in [true, false] {
                let e = nested(open, close, inner, d, closed);
                let tag = format!("{name} x{d}{}", if closed { "" } else { " unclosed" });
                // the expression entry point (depth-limited: must answer TooDeep, never die)
                let o = adv.run(rep, "adv.deep.parse_expr", "neumann_parser::ExprParser::parse_expr_bp", "parse_expr", &e, &tag);
                if closed && d <= 20 && *name != "cast" && !o.starts_with("ok") {
                    rep.observe(json!({"shallow_nesting_rejected_by_parse_expr": tag, "outcome": o}));
                }
                // the statement entry point, in every context (fewer contexts for the huge ones)
                for (ci, (cname, pre, post)) in CTX.iter().enumerate() {
                    if d >= 1000 && ci >= 2 && !thorough {
                        continue;
                    }
                    let s = format!("{pre}{e}{post}");
                    let o = adv.run(rep, "adv.deep.parse", "neumann_parser::Parser::parse_expr_bp", "parse", &s, &format!("{tag} in {cname}"));
                    if o.starts_with("died") {
                        let cur = overflow_at.entry(format!("expr:{name}")).or_insert(d);
                        *cur = (*cur).min(d);
                    }
                }
            }
        }
    }
    for (name, open, close, inner) in STMT_NEST {
        for &d in depths {
            for closed in [true, false] {
                let s = nested(open, close, inner, d, closed);
                let o = adv.run(rep, "adv.deep.stmt", &format!("neumann_parser::Parser::{}", if name.ends_with("_subquery") { "parse_select_body" } else { name }), "parse_all", &s, &format!("{name} x{d}{}", if closed { "" } else { " unclosed" }));
                if o.starts_with("died") {
                    let cur = overflow_at.entry(format!("stmt:{name}")).or_insert(d);
                    *cur = (*cur).min(d);
                }
            }
        }
    }
    if !overflow_at.is_empty() {
        rep.note(&format!(
            "smallest TESTED nesting depth at which the statement parser killed the process on a 2 MiB stack, per construct: {:?}",
            overflow_at
        ));
    }
    // long but flat inputs (outside the few-KB quantifier: reported as observations only)
    for (name, piece) in [("flat_or_chain", " OR x = 1"), ("flat_add_chain", " + 1"), ("flat_and_between", " AND y BETWEEN 1 AND 2")] {
        let mut s = String::from("SELECT * FROM t WHERE x = 1");
        for _ in 0..20000 {
            s.push_str(piece);
        }
        let mut outcomes = Vec::new();
        for api in ["parse", "parse+drop"] {
            let line = format!("{api} {} {}", adv.stack_kb, hex(s.as_bytes()));
            let res = adv.w.ask(&line, Duration::from_secs(30));
            if res.is_err() {
                let k = adv.w.death_kind();
                adv.w.kill();
                adv.w = Worker::spawn();
                outcomes.push(format!("{api}: died ({k})"));
            } else {
                outcomes.push(format!("{api}: {}", res.unwrap().split(' ').next().unwrap_or("")));
            }
        }
        rep.observe(json!({"flat_chain_20000_terms": name, "bytes": s.len(), "stack_kb": adv.stack_kb, "outcomes": outcomes,
            "meaning": "`parse` = parsing alone; `parse+drop` = parsing and dropping the (20000-deep, left-nested) AST on the same small stack"}));
    }
    let big_comment = format!("SELECT 1 {} FROM t", "/*".repeat(20000));
    adv.run(rep, "adv.deep.flat", "neumann_parser::Lexer::skip_whitespace_and_comments", "parse", &big_comment, "20000 nested block-comment openers");
    // the same question on an 8 MiB stack (main-thread default), informational
    adv.stack_kb = 8192;
    for (name, open, close, inner) in [NEST[0], NEST[1], NEST[5], NEST[6]] {
        for d in [1000usize, 10000, 100000] {
            let s = format!("SELECT {}", nested(open, close, inner, d, true));
            let line = format!("parse {} {}", adv.stack_kb, hex(s.as_bytes()));
            let res = adv.w.ask(&line, Duration::from_secs(30));
            let died = res.is_err();
            if died {
                adv.w.kill();
                adv.w = Worker::spawn();
            }
            rep.observe(json!({"stack_kb": 8192, "construct": name, "depth": d, "statement_parser_survives": !died}));
            if died {
                break;
            }
        }
    }
}


// ------------------------------------------------------------------ stream (iii): text vs direct engine call

use relational_engine::{Column, ColumnType, Condition, Schema, Value as RV};

#[derive(Clone, Debug)]
enum Cond {
    Leaf(&'static str, &'static str, i64),
    Name(&'static str, &'static str),
    And(Box<Cond>, Box<Cond>),
    Or(Box<Cond>, Box<Cond>),
}

impl Cond {
    fn gen(r: &mut Rng, depth: usize) -> Cond {
        if depth == 0 || r.chance(1, 4) {
            if r.chance(1, 6) {
                return Cond::Name(*r.pick(&["=", "!="]), *r.pick(&["x", "y", "z"]));
            }
            return Cond::Leaf(*r.pick(&["a", "b", "c"]), *r.pick(&["=", "!=", "<", "<=", ">", ">="]), r.below(4) as i64);
        }
        let l = Box::new(Cond::gen(r, depth - 1));
        let rr = Box::new(Cond::gen(r, depth - 1));
        if r.chance(1, 2) {
            Cond::And(l, rr)
        } else {
            Cond::Or(l, rr)
        }
    }
    fn level(&self) -> u8 {
        match self {
            Cond::Or(..) => 1,
            Cond::And(..) => 2,
            _ => 3,
        }
    }
    /// documented precedence: AND above OR, both left-associative; `full` parenthesises every compound operand
    fn print(&self, full: bool, out: &mut String) {
        fn operand(c: &Cond, need: bool, full: bool, out: &mut String) {
            let w = need || (full && c.level() < 3);
            if w {
                out.push('(');
            }
            c.print(full, out);
            if w {
                out.push(')');
            }
        }
        match self {
            Cond::Leaf(c, op, v) => out.push_str(&format!("{c} {op} {v}")),
            Cond::Name(op, v) => out.push_str(&format!("name {op} '{v}'")),
            Cond::And(l, r) => {
                operand(l, l.level() < 2, full, out);
                out.push_str(" AND ");
                operand(r, r.level() <= 2, full, out);
            }
            Cond::Or(l, r) => {
                operand(l, false, full, out);
                out.push_str(" OR ");
                operand(r, r.level() <= 1, full, out);
            }
        }
    }
    fn direct(&self) -> Condition {
        match self {
            Cond::Leaf(c, op, v) => {
                let (c, v) = (c.to_string(), RV::Int(*v));
                match *op {
                    "=" => Condition::Eq(c, v),
                    "!=" => Condition::Ne(c, v),
                    "<" => Condition::Lt(c, v),
                    "<=" => Condition::Le(c, v),
                    ">" => Condition::Gt(c, v),
                    _ => Condition::Ge(c, v),
                }
            }
            Cond::Name(op, v) => {
                let (c, v) = ("name".to_string(), RV::String(v.to_string()));
                if *op == "=" {
                    Condition::Eq(c, v)
                } else {
                    Condition::Ne(c, v)
                }
            }
            Cond::And(l, r) => l.direct().and(r.direct()),
            Cond::Or(l, r) => l.direct().or(r.direct()),
        }
    }
    fn has(&self, and: bool) -> bool {
        match self {
            Cond::And(l, r) => and || l.has(and) || r.has(and),
            Cond::Or(l, r) => !and || l.has(and) || r.has(and),
            _ => false,
        }
    }
}

fn twin() -> query_router::QueryRouter {
    let q = query_router::QueryRouter::new();
    let schema = Schema::new(vec![
        Column::new("a", ColumnType::Int),
        Column::new("b", ColumnType::Int),
        Column::new("c", ColumnType::Int),
        Column::new("name", ColumnType::String),
    ]);
    q.relational().create_table("t", schema).expect("create");
    let mut k = 0i64;
    for a in 0..4i64 {
        for b in 0..4i64 {
            for c in 0..3i64 {
                let mut m = std::collections::HashMap::new();
                m.insert("a".to_string(), RV::Int(a));
                m.insert("b".to_string(), RV::Int(b));
                m.insert("c".to_string(), RV::Int((c + k) % 4));
                m.insert("name".to_string(), RV::String(["x", "y", "z"][(k % 3) as usize].to_string()));
                q.relational().insert("t", m).expect("insert");
                k += 1;
            }
        }
    }
    q
}

fn canon_rows(rows: &[relational_engine::Row]) -> String {
    let mut v: Vec<String> = rows
        .iter()
        .map(|r| {
            let mut cols: Vec<String> = r.values.iter().filter(|(k, _)| k != "_id").map(|(k, v)| format!("{k}={v:?}")).collect();
            cols.sort();
            format!("#{} {}", r.id, cols.join(","))
        })
        .collect();
    v.sort();
    format!("{} rows: {}", v.len(), v.join(" | "))
}

fn canon_qr(r: &std::result::Result<query_router::QueryResult, query_router::RouterError>) -> String {
    match r {
        Ok(query_router::QueryResult::Rows(rows)) => canon_rows(rows),
        Ok(query_router::QueryResult::Count(n)) => format!("count {n}"),
        Ok(query_router::QueryResult::Empty) => "empty".into(),
        Ok(query_router::QueryResult::Ids(ids)) => format!("ids {ids:?}"),
        Ok(other) => format!("other {other:?}"),
        Err(e) => format!("error {}", format!("{e:?}").split('(').next().unwrap_or("?")),
    }
}

fn table_state(q: &query_router::QueryRouter) -> String {
    match q.relational().select("t", Condition::True) {
        Ok(rows) => canon_rows(&rows),
        Err(e) => format!("error {e:?}"),
    }
}

fn stream_exec(rep: &mut Report, rng: &Rng, thorough: bool) {
    let mut r = rng.fork("exec");
    let q = twin();
    let n = if thorough { 3000 } else { 400 };
    let mut reported: std::collections::BTreeSet<String> = Default::default();
    let mut viol = |rep: &mut Report, class: &str, what: String, input: serde_json::Value| {
        rep.hit(&format!("exec.violation.{class}"));
        if reported.insert(class.to_string()) {
            rep.violation(class, &what, input);
        }
    };
    // ---- SELECT: read-only, one database serves all three routes
    for i in 0..n {
        let cd = 1 + r.below(3) as usize;
        let c = Cond::gen(&mut r, cd);
        let want = match q.relational().select("t", c.direct()) {
            Ok(rows) => canon_rows(&rows),
            Err(e) => format!("error {e:?}"),
        };
        let mixed = c.has(true) && c.has(false);
        rep.hit(if mixed { "exec.select.cond.and_or_mixed" } else if c.has(true) { "exec.select.cond.and_only" } else if c.has(false) { "exec.select.cond.or_only" } else { "exec.select.cond.single" });
        for full in [false, true] {
            let mut w = String::new();
            c.print(full, &mut w);
            let text = format!("SELECT * FROM t WHERE {w}");
            let has_paren = w.contains('(');
            // AST route
            let text2 = text.clone();
            let got = guarded(std::panic::AssertUnwindSafe(|| canon_qr(&q.execute_parsed(&text2)))).unwrap_or_else(|p| format!("panic {p}"));
            rep.case("exec.select.execute_parsed", Some(&text));
            if got != want {
                viol(rep, "query_router::QueryRouter::execute_parsed/select_differs_from_direct_call",
                    format!("execute_parsed(text) returned {} but RelationalEngine::select with the documented grouping returns {}", &got[..got.len().min(60)], &want[..want.len().min(60)]),
                    json!({"text": text}));
            }
            // legacy string route: `execute` advertises `SELECT * FROM <table> [WHERE <condition>]`; it has no
            // parentheses, so only parenthesis-free prints are meaningful for it
            if !has_paren {
                let text3 = text.clone();
                let got = guarded(std::panic::AssertUnwindSafe(|| canon_qr(&q.execute(&text3)))).unwrap_or_else(|p| format!("panic {p}"));
                rep.case("exec.select.execute_legacy", Some(&text));
                if got != want {
                    let class = if mixed {
                        "query_router::QueryRouter::parse_condition/and_or_precedence"
                    } else {
                        "query_router::QueryRouter::execute/select_differs_from_direct_call"
                    };
                    viol(rep, class,
                        format!("execute(text) (legacy string parser) groups the WHERE clause differently from the documented precedence (AND above OR): got {} want {}", &got[..got.len().min(40)], &want[..want.len().min(40)]),
                        json!({"text": text, "execute_parsed_agrees_with_direct_call": true}));
                } else {
                    rep.hit("exec.select.execute_legacy.agrees");
                }
            } else if i < 40 {
                let text3 = text.clone();
                let got = guarded(std::panic::AssertUnwindSafe(|| canon_qr(&q.execute(&text3)))).unwrap_or_else(|p| format!("panic {p}"));
                if got != want {
                    rep.hit("exec.select.execute_legacy.parenthesised_text_differs");
                }
            }
        }
    }
    // ---- DELETE / UPDATE / INSERT: twin databases, text on A, direct call on B, then compare whole tables
    let m = if thorough { 300 } else { 60 };
    for i in 0..m {
        let a = twin();
        let b = twin();
        let cd = 1 + r.below(3) as usize;
        let c = Cond::gen(&mut r, cd);
        let mut w = String::new();
        let fullp = r.chance(1, 2);
        c.print(fullp, &mut w);
        let (text, got, want) = match i % 3 {
            0 => {
                let text = format!("DELETE FROM t WHERE {w}");
                let got = canon_qr(&a.execute_parsed(&text));
                let want = match b.relational().delete_rows("t", c.direct()) {
                    Ok(n) => format!("count {n}"),
                    Err(e) => format!("error {e:?}"),
                };
                rep.hit("exec.family.delete");
                (text, got, want)
            }
            1 => {
                let v = r.below(9) as i64 + 10;
                let text = format!("UPDATE t SET c = {v} WHERE {w}");
                let got = canon_qr(&a.execute_parsed(&text));
                let mut up = std::collections::HashMap::new();
                up.insert("c".to_string(), RV::Int(v));
                let want = match b.relational().update("t", c.direct(), up) {
                    Ok(n) => format!("count {n}"),
                    Err(e) => format!("error {e:?}"),
                };
                rep.hit("exec.family.update");
                (text, got, want)
            }
            _ => {
                let (x, y, z) = (r.below(50) as i64, r.below(50) as i64, r.below(50) as i64);
                let text = format!("INSERT INTO t (a, b, c, name) VALUES ({x}, {y}, {z}, 'n{i}')");
                let got = canon_qr(&a.execute_parsed(&text));
                let mut mm = std::collections::HashMap::new();
                mm.insert("a".to_string(), RV::Int(x));
                mm.insert("b".to_string(), RV::Int(y));
                mm.insert("c".to_string(), RV::Int(z));
                mm.insert("name".to_string(), RV::String(format!("n{i}")));
                let want = match b.relational().insert("t", mm) {
                    Ok(id) => format!("ids [{id}]"),
                    Err(e) => format!("error {e:?}"),
                };
                rep.hit("exec.family.insert");
                (text, got, want)
            }
        };
        rep.case("exec.effect.execute_parsed", Some(&text));
        let (sa, sb) = (table_state(&a), table_state(&b));
        if sa != sb {
            viol(rep, "query_router::QueryRouter::execute_parsed/effect_differs_from_direct_call",
                format!("after the statement the table differs from the direct call's ({} vs {})", &sa[..sa.len().min(30)], &sb[..sb.len().min(30)]),
                json!({"text": text}));
        }
        if got != want {
            rep.hit("exec.effect.result_shape_differs");
            if rep.observations.len() < 18 {
                rep.observe(json!({"text": text, "execute_parsed_result": &got[..got.len().min(80)], "direct_result": &want[..want.len().min(80)]}));
            }
        }
    }
    // ---- graph and vector families: NODE CREATE / EMBED STORE as text on A, direct engine call on B
    let a = query_router::QueryRouter::new();
    let b = query_router::QueryRouter::new();
    let k = if thorough { 400 } else { 80 };
    for i in 0..k {
        if i % 2 == 0 {
            let (age, score, flag) = (r.range(-50, 120), r.range(-8, 8) as f64 / 4.0, r.chance(1, 2));
            let name = format!("N{}", r.below(1000));
            let text = format!(
                "NODE CREATE person {{name: '{name}', age: {age}, score: {score:?}, ok: {}}}",
                if flag { "TRUE" } else { "FALSE" }
            );
            rep.hit("exec.family.node_create");
            rep.case("exec.effect.execute_parsed", Some(&text));
            let got = a.execute_parsed(&text);
            let mut props = std::collections::HashMap::new();
            props.insert("name".to_string(), graph_engine::PropertyValue::String(name));
            props.insert("age".to_string(), graph_engine::PropertyValue::Int(age));
            props.insert("score".to_string(), graph_engine::PropertyValue::Float(score));
            props.insert("ok".to_string(), graph_engine::PropertyValue::Bool(flag));
            let want = b.graph().create_node("person", props);
            let show = |q: &query_router::QueryRouter, id: u64| match q.graph().get_node(id) {
                Ok(n) => {
                    let mut ps: Vec<String> = n.properties.iter().map(|(k, v)| format!("{k}={v:?}")).collect();
                    ps.sort();
                    format!("{:?} {}", n.labels, ps.join(","))
                }
                Err(e) => format!("error {e:?}"),
            };
            match (&got, &want) {
                (Ok(query_router::QueryResult::Ids(ids)), Ok(idb)) if ids.len() == 1 => {
                    let (sa, sb) = (show(&a, ids[0]), show(&b, *idb));
                    if sa != sb {
                        viol(rep, "query_router::QueryRouter::execute_parsed/effect_differs_from_direct_call",
                            format!("node created from text differs from the direct call's: {sa} vs {sb}"), json!({"text": text}));
                    }
                }
                _ => {
                    rep.hit("exec.node_create.text_route_rejected_or_other_shape");
                    if got.is_err() && want.is_ok() && (age < 0 || score < 0.0) {
                        viol(rep, "query_router::QueryRouter::execute_parsed/negative_number_rejected",
                            format!("a well-formed statement with a negative number is parsed (`-x` = Unary(Neg, x)) but rejected at execution ({}) while the equivalent direct engine call succeeds", canon_qr(&got)),
                            json!({"text": text}));
                    } else if rep.observations.len() < 18 {
                        rep.observe(json!({"text": text, "execute_parsed": canon_qr(&got), "direct_ok": want.is_ok()}));
                    }
                }
            }
        } else {
            let dim = 1 + r.below(6) as usize;
            let v: Vec<f32> = (0..dim).map(|_| r.range(-16, 16) as f32 / 4.0).collect();
            let key = format!("k{i}");
            let body = v.iter().map(|x| format!("{x:?}")).collect::<Vec<_>>().join(", ");
            let text = format!("EMBED STORE '{key}' [{body}]");
            rep.hit("exec.family.embed_store");
            rep.case("exec.effect.execute_parsed", Some(&text));
            let got = a.execute_parsed(&text);
            let want = b.vector().store_embedding(&key, v.clone());
            let bits = |q: &query_router::QueryRouter| match q.vector().get_embedding(&key) {
                Ok(x) => x.iter().map(|f| format!("{:08x}", f.to_bits())).collect::<Vec<_>>().join(","),
                Err(_) => "absent".to_string(),
            };
            if got.is_ok() && want.is_ok() {
                let (sa, sb) = (bits(&a), bits(&b));
                if sa != sb {
                    viol(rep, "query_router::QueryRouter::execute_parsed/effect_differs_from_direct_call",
                        format!("embedding stored from text differs from the direct call's: {sa} vs {sb}"), json!({"text": text}));
                }
            } else {
                rep.hit("exec.embed_store.text_route_rejected");
                if got.is_err() && want.is_ok() && v.iter().any(|x| *x < 0.0) {
                    viol(rep, "query_router::QueryRouter::execute_parsed/negative_number_rejected",
                        format!("a well-formed statement with a negative number is parsed (`-x` = Unary(Neg, x)) but rejected at execution ({}) while the equivalent direct engine call succeeds", canon_qr(&got)),
                        json!({"text": text}));
                } else if rep.observations.len() < 18 {
                    rep.observe(json!({"text": text, "execute_parsed": canon_qr(&got), "direct_ok": want.is_ok()}));
                }
            }
        }
    }
}


// ------------------------------------------------------------------ SELECT skeleton (select_depth)
//
// stream `select`: the SELECT skeleton  body ::= * [FROM t<n> | FROM ( SELECT body )] [WHERE EXISTS ( SELECT body )]
// through the REAL `np::parse` vs the model op `sel` (Parse/Select.lean).  Both counters of the
// statement parser are exercised: `select_depth` (MAX_SELECT_DEPTH = 64) directly, `depth`
// (MAX_DEPTH = 64) through the select item / WHERE frames.
//   select.tree      random skeleton trees (sdepth 1..8), exact print
//   select.mutant    the same prints with one token replaced / inserted / deleted / the tail cut
//   select.soup      random token lists over the skeleton alphabet
//   select.trunc     every prefix of the print of depth-3 trees (eof / unexpected arms)
//   select.chain     linear chains of 58..70 bodies in all site mixtures, closed and open
// Cases the model answers `outside` (input leaves the fragment) are counted under
// `select.outside` and not compared (the real parser must still not panic on them).
// Expected distribution keys (add to rep.expected_branches in main):
//   select.result.ok  select.result.err_too_deep  select.result.err_eof_expression
//   select.result.err_eof_identifier  select.result.err_eof_SELECT  select.result.err_eof_lparen
//   select.result.err_eof_rparen  select.result.err_unexpected_expression
//   select.result.err_unexpected_identifier  select.result.err_unexpected_SELECT
//   select.result.err_unexpected_lparen  select.result.err_unexpected_rparen  select.outside
//   select.chain.closed.ok  select.chain.closed.too_deep

#[derive(Clone, Debug)]
enum SelQ {
    Leaf(Option<usize>),
    FromSub(Box<SelQ>),
    WhereSub(Option<usize>, Box<SelQ>),
    Both(Box<SelQ>, Box<SelQ>),
}

impl SelQ {
    fn gen(r: &mut Rng, depth: usize) -> SelQ {
        let src = |r: &mut Rng| if r.chance(1, 2) { Some(r.below(10) as usize) } else { None };
        if depth <= 1 {
            return SelQ::Leaf(src(r));
        }
        match r.below(8) {
            0 => SelQ::Leaf(src(r)),
            1 | 2 => SelQ::FromSub(Box::new(SelQ::gen(r, depth - 1))),
            3 | 4 => {
                let o = src(r);
                SelQ::WhereSub(o, Box::new(SelQ::gen(r, depth - 1)))
            }
            _ => {
                // one side reaches the full depth, the other is random
                let a = SelQ::gen(r, depth - 1);
                let d2 = 1 + r.below(depth as u64 - 1) as usize;
                let b = SelQ::gen(r, d2);
                if r.chance(1, 2) { SelQ::Both(Box::new(a), Box::new(b)) } else { SelQ::Both(Box::new(b), Box::new(a)) }
            }
        }
    }
    fn sdepth(&self) -> usize {
        match self {
            SelQ::Leaf(_) => 1,
            SelQ::FromSub(s) => 1 + s.sdepth(),
            SelQ::WhereSub(_, w) => 1 + w.sdepth(),
            SelQ::Both(s, w) => 1 + s.sdepth().max(w.sdepth()),
        }
    }
    /// model token words of the body (without the leading `select`) — the harness's own printer
    fn print(&self, out: &mut Vec<String>) {
        let src = |o: &Option<usize>, out: &mut Vec<String>| {
            if let Some(n) = o {
                out.push("from".into());
                out.push(format!("t{n}"));
            }
        };
        let open_from = |out: &mut Vec<String>| {
            for w in ["from", "(", "select"] {
                out.push(w.into());
            }
        };
        let open_where = |out: &mut Vec<String>| {
            for w in ["where", "exists", "(", "select"] {
                out.push(w.into());
            }
        };
        out.push("*".into());
        match self {
            SelQ::Leaf(o) => src(o, out),
            SelQ::FromSub(s) => {
                open_from(out);
                s.print(out);
                out.push(")".into());
            }
            SelQ::WhereSub(o, w) => {
                src(o, out);
                open_where(out);
                w.print(out);
                out.push(")".into());
            }
            SelQ::Both(s, w) => {
                open_from(out);
                s.print(out);
                out.push(")".into());
                open_where(out);
                w.print(out);
                out.push(")".into());
            }
        }
    }
    /// the answer syntax of the driver's `showQ`
    fn sexp(&self) -> String {
        let so = |o: &Option<usize>| o.map_or("-".to_string(), |n| format!("t{n}"));
        match self {
            SelQ::Leaf(o) => format!("(q {} -)", so(o)),
            SelQ::FromSub(s) => format!("(q {} -)", s.sexp()),
            SelQ::WhereSub(o, w) => format!("(q {} {})", so(o), w.sexp()),
            SelQ::Both(s, w) => format!("(q {} {})", s.sexp(), w.sexp()),
        }
    }
}

/// skeleton token words -> SQL text with the token-start table
fn sel_render(words: &[String], r: &mut Rng, fancy: bool) -> Rendered {
    let mut text = String::new();
    let mut starts = Vec::new();
    if fancy && r.chance(1, 8) {
        text.push_str(sep(r, true));
    }
    for (i, w) in words.iter().enumerate() {
        if i > 0 {
            text.push_str(sep(r, fancy));
        }
        starts.push(text.len());
        let t: String = match w.as_str() {
            "select" => (*r.pick(&["SELECT", "select", "Select"])).into(),
            "from" => (*r.pick(&["FROM", "from"])).into(),
            "where" => (*r.pick(&["WHERE", "where"])).into(),
            "exists" => (*r.pick(&["EXISTS", "exists"])).into(),
            "other" => (*r.pick(&[";", "]", "}", ":", "THEN", "BY"])).into(),
            "*" | "(" | ")" => w.clone(),
            _ => w.clone(), // t<n>
        };
        text.push_str(&t);
    }
    Rendered { text, starts }
}

/// canonical form of a real `SelectStmt` that lies in the skeleton; `None` when it does not
fn sel_sx(s: &np::SelectStmt) -> Option<String> {
    if s.distinct || s.columns.len() != 1 || !s.group_by.is_empty() || s.having.is_some()
        || !s.order_by.is_empty() || s.limit.is_some() || s.offset.is_some()
    {
        return None;
    }
    let it = &s.columns[0];
    if it.alias.is_some() || !matches!(it.expr.kind, ExprKind::Wildcard) {
        return None;
    }
    let src = match &s.from {
        None => "-".to_string(),
        Some(fc) => {
            if !fc.joins.is_empty() || fc.table.alias.is_some() {
                return None;
            }
            match &fc.table.kind {
                np::TableRefKind::Table(id) => id.name.clone(),
                np::TableRefKind::Subquery(b) => sel_sx(b)?,
            }
        }
    };
    let whr = match &s.where_clause {
        None => "-".to_string(),
        Some(e) => match &e.kind {
            ExprKind::Exists(b) => sel_sx(b)?,
            _ => return None,
        },
    };
    Some(format!("(q {src} {whr})"))
}

fn real_parse_select(rd: &Rendered) -> String {
    let text = rd.text.clone();
    match guarded(move || np::parse(&text)) {
        Ok(Ok(st)) => match &st.kind {
            StatementKind::Select(s) => match sel_sx(s) {
                Some(x) => format!("ok {x}"),
                None => "ok <non-skeleton>".into(),
            },
            _ => "ok <not-select>".into(),
        },
        Ok(Err(e)) => canon_err(&e, rd),
        Err(p) => format!("panic {p}"),
    }
}

/// one correspondence case; returns (impl answer, model answer)
fn select_case(m: &mut Model, rep: &mut Report, r: &mut Rng, words: &[String], stream: &str, nontrivial: bool) -> (String, String) {
    let fancy = r.chance(1, 5);
    let rd = sel_render(words, r, fancy);
    let imp = real_parse_select(&rd);
    let model = m.ask(&format!("sel {}", words.join(" ")));
    let key = rd.text.clone();
    rep.case(stream, if nontrivial { Some(&key) } else { None });
    if imp.starts_with("panic") {
        viol_once(rep, "neumann_parser::parse/panic", &format!("statement parser panicked: {imp}"), json!({"text": rd.text}));
    }
    if model == "outside" {
        rep.hit("select.outside");
        // what the real parser made of an input that leaves the fragment (distribution only)
        rep.hit(if imp.starts_with("ok") { "select.outside.real_ok" } else { "select.outside.real_err" });
        return (imp, model);
    }
    let imp = cmp_parse(rep, stream, || json!({"text": rd.text, "tokens": words.join(" ")}), imp, &model);
    let tag = if imp.starts_with("ok") {
        "ok".to_string()
    } else {
        imp.split(' ')
            .take(3)
            .enumerate()
            .filter(|(i, w)| *i < 2 || !w.chars().all(|c| c.is_ascii_digit()))
            .map(|(_, w)| w)
            .collect::<Vec<_>>()
            .join("_")
            .replace('(', "lparen")
            .replace(')', "rparen")
    };
    rep.hit(&format!("select.result.{tag}"));
    if rep.samples.len() < 10 && words.len() > 8 && (imp.starts_with("err") || r.chance(1, 50)) {
        rep.sample(json!({"stream": stream, "text": rd.text, "real": imp, "model": model}));
    }
    (imp, model)
}

const SEL_ALPHABET: &[&str] = &["select", "*", "from", "(", ")", "t1", "t2", "where", "exists", "other"];

fn stream_select(m: &mut Model, rep: &mut Report, rng: &Rng, thorough: bool) {
    let mut r = rng.fork("select");
    let stmt_words = |q: &SelQ| {
        let mut w: Vec<String> = vec!["select".into()];
        q.print(&mut w);
        w
    };

    // (a) random skeleton trees, exact print, and one-token mutants of the print
    let n_trees = if thorough { 20000 } else { 2500 };
    for _ in 0..n_trees {
        let d = 1 + r.below(8) as usize;
        let q = SelQ::gen(&mut r, d);
        let words = stmt_words(&q);
        rep.hit(&format!("select.tree.sdepth.{}", q.sdepth()));
        let (imp, model) = select_case(m, rep, &mut r, &words, "select.tree", q.sdepth() >= 2);
        // oracle on the implementation alone: the print of a skeleton of depth ≤ 64 parses to itself
        let want = format!("ok {}", q.sexp());
        if imp != want {
            viol_once(rep, "neumann_parser::Parser::parse_select_body/round_trip",
                &format!("skeleton text does not parse back to its tree: {imp} (model {model})"),
                json!({"tokens": words.join(" "), "expected": want}));
        }
        // mutants
        for _ in 0..2 {
            let mut w = words.clone();
            let i = r.below(w.len() as u64) as usize;
            match r.below(4) {
                0 => w[i] = (*r.pick(SEL_ALPHABET)).to_string(),
                1 => w.insert(i, (*r.pick(SEL_ALPHABET)).to_string()),
                2 => {
                    w.remove(i);
                }
                _ => {
                    w.truncate(i);
                    if r.chance(1, 2) {
                        w.push((*r.pick(SEL_ALPHABET)).to_string());
                    }
                }
            }
            select_case(m, rep, &mut r, &w, "select.mutant", w.len() >= 4);
        }
    }

    // (b) token soup over the skeleton alphabet (mostly ill-formed), biased to start with `select *`
    let n_soup = if thorough { 40000 } else { 5000 };
    for _ in 0..n_soup {
        let len = r.below(12) as usize;
        let mut w: Vec<String> = Vec::new();
        if r.chance(7, 8) {
            w.push("select".into());
        }
        if r.chance(3, 4) {
            w.push("*".into());
        }
        for _ in 0..len {
            // follow the grammar most of the time so that deep states are reached
            let last = w.last().map(|s| s.as_str()).unwrap_or("");
            let follow: &[&str] = match last {
                "select" => &["*"],
                "*" => &["from", "where", ")"],
                "from" => &["(", "t1", "t2"],
                "(" => &["select"],
                "where" => &["exists"],
                "exists" => &["("],
                ")" => &[")", "where"],
                _ => &["where", ")"],
            };
            let t = if r.chance(4, 5) { *r.pick(follow) } else { *r.pick(SEL_ALPHABET) };
            w.push(t.to_string());
        }
        select_case(m, rep, &mut r, &w, "select.soup", w.len() >= 4);
    }

    // (c) every prefix of the print of depth-3 trees (and each prefix followed by `other`)
    let n_trunc = if thorough { 200 } else { 30 };
    for _ in 0..n_trunc {
        let q = loop {
            let q = SelQ::gen(&mut r, 3);
            if q.sdepth() == 3 {
                break q;
            }
        };
        let words = stmt_words(&q);
        for k in 0..=words.len() {
            let w: Vec<String> = words[..k].to_vec();
            select_case(m, rep, &mut r, &w, "select.trunc", k >= 3);
            let mut w2 = w.clone();
            w2.push("other".into());
            select_case(m, rep, &mut r, &w2, "select.trunc", k >= 3);
        }
    }

    // (d) linear chains of 58..70 bodies around MAX_SELECT_DEPTH, all site mixtures
    //     site 0 = FROM ( SELECT, 1 = WHERE EXISTS ( SELECT, 2 = FROM t<n> WHERE EXISTS ( SELECT
    let mixes = if thorough { 12 } else { 4 };
    for bodies in 58..=70usize {
        for kind in 0..(3 + mixes) {
            let sites: Vec<u64> = (0..bodies - 1)
                .map(|_| if kind < 3 { kind as u64 } else { r.below(3) })
                .collect();
            // build the tree inside-out
            let mut q = SelQ::Leaf(if r.chance(1, 2) { Some(0) } else { None });
            for s in sites.iter().rev() {
                q = match s {
                    0 => SelQ::FromSub(Box::new(q)),
                    1 => SelQ::WhereSub(None, Box::new(q)),
                    _ => SelQ::WhereSub(Some(r.below(10) as usize), Box::new(q)),
                };
            }
            let words = stmt_words(&q);
            rep.hit(&format!("select.chain.kind.{}", kind.min(3)));
            let (imp, _model) = select_case(m, rep, &mut r, &words, "select.chain", true);
            // impl-level oracle: a closed chain of k ≤ 64 bodies parses (to itself), k > 64 is TooDeep
            if bodies <= 64 {
                rep.hit("select.chain.closed.ok");
                if imp != format!("ok {}", q.sexp()) {
                    rep.violation("neumann_parser::Parser::parse_select_body/depth_limit",
                        &format!("a closed chain of {bodies} SELECT bodies (≤ MAX_SELECT_DEPTH) must parse to itself, got: {}", &imp[..imp.len().min(80)]),
                        json!({"bodies": bodies, "sites": sites, "tokens": words.join(" ")}));
                }
            } else {
                rep.hit("select.chain.closed.too_deep");
                if !imp.starts_with("err too_deep") {
                    rep.violation("neumann_parser::Parser::parse_select_body/depth_limit",
                        &format!("a closed chain of {bodies} SELECT bodies (> MAX_SELECT_DEPTH) must answer TooDeep, got: {}", &imp[..imp.len().min(80)]),
                        json!({"bodies": bodies, "sites": sites, "tokens": words.join(" ")}));
                }
            }
            // open chains: the openers only, followed by nothing / `*` / a random token
            let mut open: Vec<String> = Vec::new();
            let mut closers = 0usize;
            for w in words.iter() {
                if w == ")" {
                    closers += 1;
                }
            }
            // cut before the innermost body: drop the innermost print and all closers
            let inner_len = words.len() - closers;
            for w in words[..inner_len].iter() {
                open.push(w.clone());
            }
            // `open` ends with the innermost body's tokens (`*` [from t0]); remove them
            while let Some(l) = open.last() {
                if l == "select" {
                    break;
                }
                open.pop();
            }
            for tail in 0..3 {
                let mut w = open.clone();
                match tail {
                    0 => {}
                    1 => w.push("*".into()),
                    _ => w.push((*r.pick(SEL_ALPHABET)).to_string()),
                }
                select_case(m, rep, &mut r, &w, "select.chain", true);
            }
        }
    }
    rep.note("select.*: SELECT skeleton `* [FROM t|( SELECT … )] [WHERE EXISTS ( SELECT … )]` through the real np::parse vs model op `sel`; inputs the model answers `outside` (aliases, binary `*`, non-EXISTS conditions, non-SELECT statements) are counted under select.outside and not compared");
}

// ------------------------------------------------------------------ stream (v): expression × subquery nesting
//
// Model: Parse/Nest.lean, driver op `nest`.  The statement parser keeps ONE expression-nesting budget
// (`depth`, MAX_DEPTH = 64 live parse_expr_bp frames) for the whole statement: a subquery reached from
// inside an expression (`x IN ( SELECT …`, `EXISTS ( SELECT …`) is parsed with that expression's frames
// still counted.  Streams that nest one construct only cannot see whether the budget is per statement or
// per SELECT body; these streams mix k subquery levels with m_i operators per level, with the TOTAL
// around the limit.
//   nest.directed  the shapes of the statement-wide bound: levels × prefix operators (2 × 40, 60 × 60, …)
//   nest.mixed     seeded spines of frame openers (prefix operators, parentheses, binary right operands,
//                  IN lists, `c IN ( SELECT`, `EXISTS ( SELECT`) interleaved with FROM subqueries and WHERE
//                  hops, totals 50..80 (in-process, AST compared), a few far above (child process only)
//   nest.tree / nest.mutant / nest.soup   grammar-generated statements of the fragment, one-token mutants,
//                  token soups: Ok tree / error kind / error token compared with the model
// Oracles on the implementation alone:
//   neumann_parser::Parser::parse_expr_bp/over_deep_input_accepted   an input whose live expression nesting
//                  (known from the generator, or recomputed from the returned AST) exceeds 64 was accepted
//   neumann_parser::Parser::parse_expr_bp/stack_overflow             the child died on a 2 MiB stack

const NEST_LIMIT: usize = 64;

/// model token words (Nest alphabet) -> SQL text with the token-start table.
/// `compact`: no blank after `!` `~` `(` and none before `)` (the spelling of the directed shapes).
fn nest_render(words: &[String], r: &mut Rng, fancy: bool, compact: bool) -> Rendered {
    let mut text = String::new();
    let mut starts = Vec::new();
    if fancy && r.chance(1, 8) {
        text.push_str(sep(r, true));
    }
    for (i, w) in words.iter().enumerate() {
        if i > 0 {
            let prev = words[i - 1].as_str();
            let glue = compact && (matches!(prev, "bang" | "tilde" | "(") || w == ")");
            if !glue {
                text.push_str(sep(r, fancy));
            }
        }
        starts.push(text.len());
        let t: String = match w.as_str() {
            "select" => (*r.pick(&["SELECT", "select", "Select"])).into(),
            "from" => (*r.pick(&["FROM", "from"])).into(),
            "where" => (*r.pick(&["WHERE", "where"])).into(),
            "exists" => (*r.pick(&["EXISTS", "exists"])).into(),
            "in" => (*r.pick(&["IN", "in"])).into(),
            "not" => (*r.pick(&["NOT", "not", "Not"])).into(),
            "bang" => "!".into(),
            "tilde" => "~".into(),
            "other" => (*r.pick(&[";", "]", "}", ":", "THEN", "BY"])).into(),
            "(" | ")" => w.clone(),
            _ => {
                if let Some(b) = BIN.iter().find(|b| b.0 == w) {
                    (*r.pick(b.1)).into()
                } else if let Some(k) = w.strip_prefix('n') {
                    k.to_string()
                } else {
                    w.clone() // c<k>
                }
            }
        };
        text.push_str(&t);
    }
    Rendered { text, starts }
}

/// (S-expression in the driver's `showNQ` syntax, live frames, select depth) of a real AST that lies in
/// the fragment; `None` when it does not.  The two measures are `E.frames` / `E.sdepth` of Nest.lean.
fn nest_e(e: &np::Expr) -> Option<(String, usize, usize)> {
    Some(match &e.kind {
        ExprKind::Literal(Literal::Integer(n)) if *n >= 0 => (format!("n{n}"), 1, 0),
        ExprKind::Ident(i) => (i.name.clone(), 1, 0),
        ExprKind::Wildcard => ("*".into(), 1, 0),
        ExprKind::Tuple(v) if v.is_empty() => ("()".into(), 1, 0),
        ExprKind::Unary(op, x) => {
            let (s, f, d) = nest_e(x)?;
            (format!("({} {s})", un_name(*op)), 1 + f, d)
        }
        ExprKind::Binary(l, op, rr) => {
            let (sl, fl, dl) = nest_e(l)?;
            let (sr, fr, dr) = nest_e(rr)?;
            (format!("({} {sl} {sr})", bin_name(*op)), fl.max(1 + fr), dl.max(dr))
        }
        ExprKind::Exists(q) => {
            let (s, f, d) = nest_q(q)?;
            (format!("(exists {s})"), 1 + f, d)
        }
        ExprKind::In { expr, list, negated } => {
            let (se, fe, de) = nest_e(expr)?;
            let kw = if *negated { "notin" } else { "in" };
            match list {
                np::InList::Subquery(q) => {
                    let (s, f, d) = nest_q(q)?;
                    (format!("({kw} {se} {s})"), fe.max(1 + f), de.max(d))
                }
                np::InList::Values(v) if v.is_empty() => (format!("({kw} {se})"), fe, de),
                np::InList::Values(v) if v.len() == 1 => {
                    let (s, f, d) = nest_e(&v[0])?;
                    (format!("({kw} {se} {s})"), fe.max(1 + f), de.max(d))
                }
                _ => return None,
            }
        }
        _ => return None,
    })
}

fn nest_q(s: &np::SelectStmt) -> Option<(String, usize, usize)> {
    if s.distinct || s.columns.len() != 1 || !s.group_by.is_empty() || s.having.is_some()
        || !s.order_by.is_empty() || s.limit.is_some() || s.offset.is_some() || s.columns[0].alias.is_some()
    {
        return None;
    }
    let (si, fi, di) = nest_e(&s.columns[0].expr)?;
    let (ss, fs, ds) = match &s.from {
        None => ("-".to_string(), 0, 0),
        Some(fc) => {
            if !fc.joins.is_empty() || fc.table.alias.is_some() {
                return None;
            }
            match &fc.table.kind {
                np::TableRefKind::Table(id) => (id.name.clone(), 0, 0),
                np::TableRefKind::Subquery(b) => nest_q(b)?,
            }
        }
    };
    let (sw, fw, dw) = match &s.where_clause {
        None => ("-".to_string(), 0, 0),
        Some(e) => nest_e(e)?,
    };
    Some((format!("(q {si} {ss} {sw})"), fi.max(fs).max(fw), 1 + di.max(ds).max(dw)))
}

/// Lower bound of the parse_expr_bp frames that were simultaneously active while ANY real AST was
/// built (every construct, not only the fragment): each sub-expression that the parser reads through
/// `parse_expr` / `parse_expr_bp` costs one frame on top of its parent's; subquery bodies are counted
/// on top of the expression that contains them.
fn live_frames_e(e: &np::Expr) -> usize {
    let sub = |x: &np::Expr| 1 + live_frames_e(x);
    match &e.kind {
        ExprKind::Unary(_, x) => sub(x),
        ExprKind::Binary(l, _, rr) => live_frames_e(l).max(sub(rr)),
        ExprKind::Exists(q) => 1 + live_frames_q(q),
        ExprKind::Subquery(q) => 1 + live_frames_q(q),
        ExprKind::In { expr, list, .. } => live_frames_e(expr).max(match list {
            np::InList::Subquery(q) => 1 + live_frames_q(q),
            np::InList::Values(v) => v.iter().map(sub).max().unwrap_or(0),
        }),
        ExprKind::Between { expr, low, high, .. } => live_frames_e(expr).max(sub(low)).max(sub(high)),
        ExprKind::Like { expr, pattern, .. } => live_frames_e(expr).max(sub(pattern)),
        ExprKind::IsNull { expr, .. } => live_frames_e(expr),
        ExprKind::Qualified(b, _) => live_frames_e(b),
        ExprKind::Call(c) => c.args.iter().map(sub).max().unwrap_or(1),
        ExprKind::Array(v) | ExprKind::Tuple(v) => v.iter().map(sub).max().unwrap_or(1),
        ExprKind::Cast(x, _) => sub(x),
        ExprKind::Case(c) => {
            let mut m = 1;
            if let Some(o) = &c.operand {
                m = m.max(sub(o));
            }
            for w in &c.when_clauses {
                m = m.max(sub(&w.condition)).max(sub(&w.result));
            }
            if let Some(o) = &c.else_clause {
                m = m.max(sub(o));
            }
            m
        }
        _ => 1,
    }
}

fn live_frames_q(s: &np::SelectStmt) -> usize {
    let mut m = 0;
    for c in &s.columns {
        m = m.max(live_frames_e(&c.expr));
    }
    if let Some(fc) = &s.from {
        let mut trefs = vec![&fc.table];
        for j in &fc.joins {
            trefs.push(&j.table);
            if let Some(np::JoinCondition::On(e)) = &j.condition {
                m = m.max(live_frames_e(e));
            }
        }
        for t in trefs {
            if let np::TableRefKind::Subquery(b) = &t.kind {
                m = m.max(live_frames_q(b));
            }
        }
    }
    for e in s.where_clause.iter().chain(s.having.iter()).chain(s.limit.iter()).chain(s.offset.iter()) {
        m = m.max(live_frames_e(e));
    }
    for e in &s.group_by {
        m = m.max(live_frames_e(e));
    }
    for o in &s.order_by {
        m = m.max(live_frames_e(&o.expr));
    }
    m
}

/// in-process parse (the caller bounds the nesting); answer in the driver's `nest` syntax plus the
/// live-frame lower bound of the returned AST
fn real_parse_nest(rd: &Rendered) -> (String, Option<usize>) {
    let text = rd.text.clone();
    match guarded(move || np::parse(&text)) {
        Ok(Ok(st)) => match &st.kind {
            StatementKind::Select(s) => {
                let live = live_frames_q(s);
                match nest_q(s) {
                    Some((x, f, d)) => (format!("ok {f} {d} {x}"), Some(live)),
                    None => ("ok <non-fragment>".into(), Some(live)),
                }
            }
            _ => ("ok <not-select>".into(), None),
        },
        Ok(Err(e)) => (canon_err(&e, rd), None),
        Err(p) => (format!("panic {p}"), None),
    }
}

const OVER_DEEP: &str = "neumann_parser::Parser::parse_expr_bp/over_deep_input_accepted";

fn result_tag(imp: &str) -> String {
    if imp.starts_with("ok") {
        "ok".to_string()
    } else {
        imp.split(' ')
            .take(3)
            .enumerate()
            .filter(|(i, w)| *i < 2 || !w.chars().all(|c| c.is_ascii_digit()))
            .map(|(_, w)| w)
            .collect::<Vec<_>>()
            .join("_")
            .replace('(', "lparen")
            .replace(')', "rparen")
    }
}

/// one in-process correspondence case; returns (impl answer, model answer)
fn nest_case(m: &mut Model, rep: &mut Report, r: &mut Rng, words: &[String], stream: &str, compact: bool) -> (String, String, Rendered) {
    let fancy = !compact && r.chance(1, 5);
    let rd = nest_render(words, r, fancy, compact);
    let (imp, live) = real_parse_nest(&rd);
    let model = m.ask(&format!("nest {}", words.join(" ")));
    rep.case(stream, if words.len() >= 6 { Some(&rd.text) } else { None });
    if imp.starts_with("panic") {
        viol_once(rep, "neumann_parser::parse/panic", &format!("statement parser panicked: {imp}"), json!({"text": rd.text}));
    }
    // property oracle on the implementation's own output: an accepted statement never needed more
    // than MAX_DEPTH simultaneously active expression frames, counted across subquery boundaries
    if let Some(l) = live {
        rep.hit(&format!("nest.accepted.live_frames.{:02}", (l / 8) * 8));
        if l > NEST_LIMIT {
            viol_once(rep, OVER_DEEP,
                &format!("the statement was accepted although its AST needs at least {l} simultaneously active parse_expr_bp frames (limit {NEST_LIMIT}): the expression-nesting bound is not statement-wide (model: {})", &model[..model.len().min(40)]),
                json!({"text": rd.text, "live_frames_of_returned_ast": l, "tokens": words.join(" ")}));
        }
    }
    if model == "outside" {
        rep.hit("nest.outside");
        rep.hit(if imp.starts_with("ok") { "nest.outside.real_ok" } else { "nest.outside.real_err" });
        return (imp, model, rd);
    }
    let imp = cmp_parse(rep, stream, || json!({"text": rd.text, "tokens": words.join(" ")}), imp, &model);
    rep.hit(&format!("nest.result.{}", result_tag(&imp)));
    if rep.samples.len() < 14 && words.len() > 12 && r.chance(1, 40) {
        rep.sample(json!({"stream": stream, "text": rd.text, "real": &imp[..imp.len().min(300)], "model": &model[..model.len().min(300)]}));
    }
    (imp, model, rd)
}

/// `text` through the real `parse` in the child process (2 MiB stack, twice, catch_unwind, timeout);
/// answer canonicalised to the driver's error syntax where possible.  A dead child is a violation
/// with the full text.
fn nest_child(adv: &mut Adv, rep: &mut Report, stream: &str, rd: &Rendered, what: &str) -> String {
    let line = format!("parse {} {}", adv.stack_kb, hex(rd.text.as_bytes()));
    let ans = adv.w.ask(&line, Duration::from_secs(60));
    rep.case(stream, None);
    match ans {
        Ok(a) => {
            let mut it = a.split(' ');
            match it.next().unwrap_or("") {
                "ok" => "ok".to_string(),
                "err" => {
                    let s: usize = it.next().and_then(|x| x.parse().ok()).unwrap_or(usize::MAX);
                    let e: usize = it.next().and_then(|x| x.parse().ok()).unwrap_or(usize::MAX);
                    let kind = it.next().unwrap_or("?");
                    if !(s <= e && e <= rd.text.len()) {
                        once(&mut adv.reported, rep, "neumann_parser::parse/span_outside_input",
                            &format!("error span {s}..{e} not inside input of {} bytes", rd.text.len()), json!({"text": rd.text}));
                    }
                    match kind {
                        "TooDeep" => format!("err too_deep {}", tok_index(rd, s)),
                        k => format!("err {k} {}", tok_index(rd, s)),
                    }
                }
                _ => a.clone(),
            }
        }
        Err(kind) => {
            let k = if kind == "hang" { "hang" } else { adv.w.death_kind() };
            adv.w.kill();
            adv.w = Worker::spawn();
            rep.hit(&format!("{stream}.child.{k}"));
            once(&mut adv.reported, rep,
                &format!("neumann_parser::Parser::parse_expr_bp/{k}"),
                &format!("parse on a {}-byte statement ({what}) in a thread with a {} KiB stack: {}", rd.text.len(), adv.stack_kb,
                    match k {
                        "hang" => "no answer within 60 s",
                        "stack_overflow" => "the thread overflowed its stack and the process was killed (not catchable): the nesting limits do not bound the recursion",
                        _ => "the process aborted",
                    }),
                json!({"text": rd.text, "stack_kb": adv.stack_kb, "gen": what}));
            format!("died:{k}")
        }
    }
}

/// a frame opener of a spine (see `Opener` in Nest.lean) or a zero-cost hop
#[derive(Clone, Copy, Debug, PartialEq)]
enum Sp {
    Pre(&'static str),
    Paren,
    /// `n<k> <op>`: the rest is the right operand (a new frame)
    BinR(usize),
    /// `n<k> [NOT] IN (`: the rest is the single list value (a new frame)
    InList(bool),
    /// `c<k> [NOT] IN ( SELECT`
    InSel(bool),
    /// `EXISTS ( SELECT`
    ExSel,
    /// `* FROM ( SELECT` at the start of a select item: a new body, no frame stays active
    FromSub,
    /// `* WHERE` / `n1 FROM c2 WHERE` at the start of a select item: continue in the WHERE clause
    WhereHop(bool),
}

impl Sp {
    fn opens_frame(&self) -> bool {
        !matches!(self, Sp::FromSub | Sp::WhereHop(_))
    }
    fn opens_body(&self) -> bool {
        matches!(self, Sp::InSel(_) | Sp::ExSel | Sp::FromSub)
    }
}

/// binding powers of the model's `infixBp` by BIN index (documented level ℓ ↦ (2ℓ-1, 2ℓ))
fn lbp_of(o: usize) -> u8 {
    2 * BIN[o].3 - 1
}

/// A spine with exactly `n_open` frame openers of which `n_sub` enter a subquery from inside an
/// expression, plus zero-cost FROM-subquery / WHERE hops.  Returns (ops, words, closers in order).
fn gen_spine(r: &mut Rng, n_open: usize, n_sub: usize, hops: bool, only: Option<Sp>) -> (Vec<Sp>, Vec<String>, usize) {
    // which of the n_open positions are subquery openers
    let mut is_sub = vec![false; n_open];
    let mut idx: Vec<usize> = (0..n_open).collect();
    r.shuffle(&mut idx);
    for i in idx.into_iter().take(n_sub.min(n_open)) {
        is_sub[i] = true;
    }
    let mut ops: Vec<Sp> = Vec::new();
    let mut words: Vec<String> = vec!["select".into()];
    let mut closers: Vec<&'static str> = Vec::new();
    let mut item_start = true;
    let mut cur_bp: u8 = 0;
    let mut k = 0usize;
    let atom = |k: &mut usize| {
        *k += 1;
        *k % 90 + 1
    };
    for i in 0..n_open {
        // zero-cost hops at the start of a select item
        while hops && item_start && r.chance(1, 4) {
            if r.chance(1, 2) {
                ops.push(Sp::FromSub);
                for w in ["mul", "from", "(", "select"] {
                    words.push(w.into());
                }
                closers.push(")");
            } else {
                let with_from = r.chance(1, 2);
                ops.push(Sp::WhereHop(with_from));
                if with_from {
                    words.push(format!("n{}", atom(&mut k)));
                    words.push("from".into());
                    words.push(format!("c{}", atom(&mut k)));
                } else {
                    words.push("mul".into());
                }
                words.push("where".into());
                item_start = false;
            }
        }
        let op = if is_sub[i] {
            if r.chance(1, 2) { Sp::ExSel } else { Sp::InSel(r.chance(1, 3)) }
        } else if let Some(o) = only {
            o
        } else {
            match r.below(10) {
                0..=3 => Sp::Pre(*r.pick(&["sub", "not", "bang", "tilde"])),
                4 | 5 => Sp::Paren,
                6 => Sp::InList(r.chance(1, 3)),
                _ => {
                    // a binary operator whose left binding power lets the loop continue here
                    let ok: Vec<usize> = (0..19).filter(|o| lbp_of(*o) >= cur_bp).collect();
                    if ok.is_empty() { Sp::Pre(*r.pick(&["sub", "not", "bang", "tilde"])) } else { Sp::BinR(*r.pick(&ok)) }
                }
            }
        };
        match op {
            Sp::Pre(t) => {
                words.push(t.into());
                cur_bp = 19;
            }
            Sp::Paren => {
                words.push("(".into());
                closers.push(")");
                cur_bp = 0;
            }
            Sp::BinR(o) => {
                words.push(format!("n{}", atom(&mut k)));
                words.push(BIN[o].0.into());
                cur_bp = lbp_of(o) + 1;
            }
            Sp::InList(neg) => {
                words.push(format!("n{}", atom(&mut k)));
                if neg {
                    words.push("not".into());
                }
                words.push("in".into());
                words.push("(".into());
                closers.push(")");
                cur_bp = 0;
            }
            Sp::InSel(neg) => {
                words.push(format!("c{}", atom(&mut k)));
                if neg {
                    words.push("not".into());
                }
                for w in ["in", "(", "select"] {
                    words.push(w.into());
                }
                closers.push(")");
                cur_bp = 0;
            }
            Sp::ExSel => {
                for w in ["exists", "(", "select"] {
                    words.push(w.into());
                }
                closers.push(")");
                cur_bp = 0;
            }
            _ => unreachable!(),
        }
        item_start = op.opens_body();
        ops.push(op);
    }
    // innermost operand
    match r.below(6) {
        0 => words.push("mul".into()),
        1 => {
            words.push("(".into());
            words.push(")".into());
        }
        2 => words.push(format!("c{}", atom(&mut k))),
        _ => words.push(format!("n{}", atom(&mut k))),
    }
    let n_closers = closers.len();
    for c in closers.iter().rev() {
        words.push((*c).into());
    }
    (ops, words, n_closers)
}

/// `levels` subquery levels with `per` prefix operators each around `c7 IN ( SELECT` / `EXISTS ( SELECT`
fn level_words(levels: usize, per: usize, op: &str, exists: bool, where_clause: bool) -> Vec<String> {
    let mut w: Vec<String> = vec!["select".into()];
    for _ in 0..levels {
        if where_clause {
            w.push("mul".into());
            w.push("where".into());
        }
        for _ in 0..per {
            w.push(op.into());
        }
        if exists {
            for t in ["exists", "(", "select"] {
                w.push(t.into());
            }
        } else {
            for t in ["c7", "in", "(", "select"] {
                w.push(t.into());
            }
        }
    }
    w.push("n1".into());
    for _ in 0..levels {
        w.push(")".into());
    }
    w
}

/// One spine / level case: in-process when the nesting is small enough to be safe whatever the parser
/// does with its limits, always through the child when it is far above the limit.  `live` / `bodies`
/// = simultaneously active expression frames / SELECT bodies the text needs, from the generator.
#[allow(clippy::too_many_arguments)]
fn nest_run(m: &mut Model, rep: &mut Report, r: &mut Rng, adv: &mut Adv, words: &[String], stream: &str,
            live: usize, bodies: usize, compact: bool, what: &str) -> String {
    let over = live > NEST_LIMIT || bodies > NEST_LIMIT;
    rep.hit(&format!("{stream}.live.{}", if live > 120 { "far_above".to_string() } else { format!("{:03}", (live / 5) * 5) }));
    rep.hit(&format!("{stream}.bodies.{:02}", bodies.min(70) / 4 * 4));
    rep.hit(if over { "nest.expected.over_deep" } else { "nest.expected.within_limits" });
    let (imp, rd) = if live <= 130 {
        let (imp, _model, rd) = nest_case(m, rep, r, words, stream, compact);
        (imp, rd)
    } else {
        let rd = nest_render(words, r, false, compact);
        let imp = nest_child(adv, rep, stream, &rd, what);
        let model = m.ask(&format!("nest {}", words.join(" ")));
        let imp = cmp_parse(rep, stream, || json!({"text": rd.text, "gen": what, "via": "child process, 2 MiB stack"}), imp, &model);
        rep.hit(&format!("nest.result.child.{}", result_tag(&imp)));
        (imp, rd)
    };
    // property oracle, from the generator's own count: over-deep input is rejected with an error
    if over && imp.starts_with("ok") {
        viol_once(rep, OVER_DEEP,
            &format!("{what}: {live} simultaneously active expression frames / {bodies} nested SELECT bodies are needed (limits {NEST_LIMIT} / {NEST_LIMIT}) but the statement was accepted instead of TooDeep"),
            json!({"text": rd.text, "live_frames": live, "select_bodies": bodies, "gen": what}));
    }
    imp
}

/// Runs before every random stream: levels × operators.  No level exceeds the limit, the statement does.
fn nest_directed(m: &mut Model, rep: &mut Report, rng: &Rng) {
    let mut r = rng.fork("nest.directed");
    let mut adv = Adv { w: Worker::spawn(), stack_kb: 2048, reported: Default::default() };
    for (levels, per, op, exists, whr) in [
        (2usize, 40usize, "bang", false, false), // 110 bytes: Ok instead of TooDeep when every SELECT body has its own budget
        (60, 60, "bang", false, false),          // 4.4 kB: overflows a 2 MiB stack when every SELECT body has its own budget
        (2, 40, "not", true, true),
        (3, 30, "sub", true, false),
        (4, 20, "tilde", false, true),
        (2, 30, "bang", false, false),           // 63 frames: accepted
        (2, 31, "bang", false, false),           // 64 openers: TooDeep at the innermost operand
        (60, 60, "not", true, true),
        (63, 63, "sub", false, false),
        (8, 8, "bang", true, false),             // 73 frames
        (7, 8, "bang", true, false),             // 64 frames: accepted
    ] {
        let words = level_words(levels, per, op, exists, whr);
        let what = format!("{levels} levels of {} × {per} prefix `{op}`{}", if exists { "EXISTS ( SELECT" } else { "c7 IN ( SELECT" }, if whr { " in WHERE" } else { "" });
        let imp = nest_run(m, rep, &mut r, &mut adv, &words, "nest.directed", 1 + levels * (per + 1), 1 + levels, op == "bang" || op == "tilde", &what);
        rep.hit(&format!("nest.directed.{}", result_tag(&imp)));
    }
}

fn stream_nest(m: &mut Model, rep: &mut Report, rng: &Rng, thorough: bool) {
    let mut r = rng.fork("nest");
    let mut adv = Adv { w: Worker::spawn(), stack_kb: 2048, reported: Default::default() };

    // (1) mixed spines, totals concentrated around the limit
    let n_mixed = if thorough { 40000 } else { 4000 };
    for i in 0..n_mixed {
        let n_open = match i % 10 {
            0 => 2 + r.below(40) as usize,
            1 => 80 + r.below(45) as usize,
            _ => 49 + r.below(31) as usize, // live frames 50..80
        };
        let n_sub = match r.below(8) {
            0 => 0,
            1 => n_open.min(1),
            2 => r.below(n_open as u64 + 1) as usize,
            3 => n_open, // subquery openers only: both counters at once
            _ => 1 + r.below(8.min(n_open as u64)) as usize,
        };
        let only = match r.below(6) {
            0 => Some(Sp::Pre(*r.pick(&["sub", "not", "bang", "tilde"]))),
            1 => Some(Sp::Paren),
            _ => None,
        };
        let hops = r.chance(3, 4);
        let (ops, mut words, n_closers) = gen_spine(&mut r, n_open, n_sub, hops, only);
        // sometimes unclosed / cut somewhere
        match r.below(12) {
            0 => {
                let keep = words.len() - n_closers;
                words.truncate(keep);
            }
            1 => {
                let keep = 1 + r.below(words.len() as u64) as usize;
                words.truncate(keep);
            }
            _ => {}
        }
        let frames = 1 + ops.iter().filter(|o| o.opens_frame()).count();
        let bodies = 1 + ops.iter().filter(|o| o.opens_body()).count();
        // a cut spine may stop before the deep part: the generator's count is then an upper bound and
        // only the AST-based oracle applies
        let cut = words.len() < 1 + ops.len();
        let (live, nb) = if cut { (1, 1) } else { (frames, bodies) };
        nest_run(m, rep, &mut r, &mut adv, &words, "nest.mixed", live, nb, false, "mixed spine");
    }
    // far above the limit: child process only
    let n_far = if thorough { 400 } else { 24 };
    for i in 0..n_far {
        let levels = match i % 4 {
            0 => 50 + r.below(14) as usize,
            1 => 2 + r.below(6) as usize,
            _ => 10 + r.below(50) as usize,
        };
        let per = match i % 4 {
            1 => 200 + r.below(800) as usize,
            _ => 20 + r.below(44) as usize,
        };
        let n_open = (levels * (per + 1)).min(3900);
        let only = if i % 2 == 0 { Some(Sp::Pre(*r.pick(&["sub", "not", "bang", "tilde"]))) } else { None };
        let (ops, words, _) = gen_spine(&mut r, n_open, levels, i % 3 == 0, only);
        let frames = 1 + ops.iter().filter(|o| o.opens_frame()).count();
        let bodies = 1 + ops.iter().filter(|o| o.opens_body()).count();
        nest_run(m, rep, &mut r, &mut adv, &words, "nest.mixed.far", frames, bodies, i % 2 == 0, &format!("mixed spine, {levels} subquery levels, {n_open} openers"));
    }

    // (2) grammar-generated statements of the fragment and their one-token mutants
    fn gen_expr(r: &mut Rng, depth: usize, out: &mut Vec<String>, k: &mut usize) {
        let mut atom = |r: &mut Rng, out: &mut Vec<String>| {
            *k += 1;
            match r.below(8) {
                0 => out.push("mul".into()),
                1 => {
                    out.push("(".into());
                    out.push(")".into());
                }
                2 | 3 => out.push(format!("c{}", *k % 50 + 1)),
                _ => out.push(format!("n{}", *k % 50 + 1)),
            }
        };
        if depth == 0 {
            atom(r, out);
            return;
        }
        match r.below(14) {
            0 | 1 => {
                out.push((*r.pick(&["sub", "not", "bang", "tilde"])).into());
                gen_expr(r, depth - 1, out, k);
            }
            2 | 3 => {
                out.push("(".into());
                gen_expr(r, depth - 1, out, k);
                out.push(")".into());
            }
            4 | 5 | 6 => {
                gen_expr(r, depth - 1, out, k);
                out.push(BIN[r.below(19) as usize].0.into());
                gen_expr(r, depth - 1, out, k);
            }
            7 | 8 => {
                for w in ["exists", "(", "select"] {
                    out.push(w.into());
                }
                gen_body(r, depth - 1, out, k);
                out.push(")".into());
            }
            9 | 10 => {
                gen_expr(r, depth - 1, out, k);
                if r.chance(1, 3) {
                    out.push("not".into());
                }
                for w in ["in", "(", "select"] {
                    out.push(w.into());
                }
                gen_body(r, depth - 1, out, k);
                out.push(")".into());
            }
            11 => {
                gen_expr(r, depth - 1, out, k);
                if r.chance(1, 3) {
                    out.push("not".into());
                }
                out.push("in".into());
                out.push("(".into());
                if r.chance(3, 4) {
                    gen_expr(r, depth - 1, out, k);
                }
                out.push(")".into());
            }
            _ => atom(r, out),
        }
    }
    fn gen_body(r: &mut Rng, depth: usize, out: &mut Vec<String>, k: &mut usize) {
        gen_expr(r, depth, out, k);
        match r.below(4) {
            0 => {
                out.push("from".into());
                *k += 1;
                out.push(format!("c{}", *k % 50 + 1));
            }
            1 if depth > 0 => {
                for w in ["from", "(", "select"] {
                    out.push(w.into());
                }
                gen_body(r, depth - 1, out, k);
                out.push(")".into());
            }
            _ => {}
        }
        if r.chance(1, 3) {
            out.push("where".into());
            gen_expr(r, depth, out, k);
        }
    }
    const NEST_ALPHABET: &[&str] = &[
        "select", "from", "where", "exists", "in", "(", ")", "n1", "n2", "c1", "c2", "mul", "sub", "add", "and", "or", "eq",
        "not", "bang", "tilde", "other",
    ];
    let n_trees = if thorough { 30000 } else { 3000 };
    for _ in 0..n_trees {
        let depth = 1 + r.below(4) as usize;
        let mut words: Vec<String> = vec!["select".into()];
        let mut k = 0;
        gen_body(&mut r, depth, &mut words, &mut k);
        if words.len() > 400 {
            continue;
        }
        let (imp, _, _) = nest_case(m, rep, &mut r, &words, "nest.tree", false);
        rep.hit(if imp.starts_with("ok") { "nest.tree.accepted" } else { "nest.tree.rejected" });
        for _ in 0..2 {
            let mut w = words.clone();
            let i = r.below(w.len() as u64) as usize;
            match r.below(4) {
                0 => w[i] = (*r.pick(NEST_ALPHABET)).to_string(),
                1 => w.insert(i, (*r.pick(NEST_ALPHABET)).to_string()),
                2 => {
                    w.remove(i);
                }
                _ => {
                    w.truncate(i);
                    if r.chance(1, 2) {
                        w.push((*r.pick(NEST_ALPHABET)).to_string());
                    }
                }
            }
            nest_case(m, rep, &mut r, &w, "nest.mutant", false);
        }
    }

    // (3) token soup over the alphabet, following the grammar most of the time
    let n_soup = if thorough { 60000 } else { 6000 };
    for _ in 0..n_soup {
        let len = r.below(14) as usize;
        let mut w: Vec<String> = Vec::new();
        if r.chance(7, 8) {
            w.push("select".into());
        }
        for _ in 0..len {
            let last = w.last().map(|s| s.as_str()).unwrap_or("");
            let operand: &[&str] = &["n1", "c1", "mul", "(", "sub", "not", "bang", "tilde", "exists", "n2"];
            let after_operand: &[&str] = &["add", "and", "eq", "in", "not", ")", "from", "where", "mul", "or"];
            let follow: &[&str] = match last {
                "select" | "where" | "sub" | "not" | "bang" | "tilde" | "add" | "and" | "or" | "eq" => operand,
                "(" => &["select", "n1", ")", "c1", "(", "exists"],
                "exists" | "in" => &["("],
                "from" => &["(", "c1", "c2"],
                _ => after_operand,
            };
            let t = if r.chance(4, 5) { *r.pick(follow) } else { *r.pick(NEST_ALPHABET) };
            w.push(t.to_string());
        }
        nest_case(m, rep, &mut r, &w, "nest.soup", false);
    }
    rep.note("nest.*: `SELECT expr [FROM t | FROM ( SELECT … )] [WHERE expr]` with EXISTS ( SELECT … ) / [NOT] IN ( SELECT … ) / IN lists inside expressions through the real np::parse vs model op `nest` (Parse/Nest.lean); accepted statements are compared as trees together with their live-frame and select-depth measures; inputs the model answers `outside` (function calls, implicit aliases, non-SELECT statements) are counted under nest.outside and not compared; spines with more than 130 live frames run in the child process only (2 MiB stack) and are compared by error kind and token");
}

// ------------------------------------------------------------------ directed: known finding, fixed findings

/// Runs before every random stream.
///  * KNOWN `query_router::QueryRouter::execute_parsed/negative_number_rejected`: reproduced on the two
///    inputs of known_findings.jsonl (reported through rep.violation under exactly that class).
///  * FIXED (regression, must find nothing): the AND/OR precedence input of c2eb0014 through the
///    legacy string route, and the 3000-parenthesis input of 59c7cb56 (in-process: it now answers
///    TooDeep after 64 frames; the small-stack child-process oracle of adv.deep repeats it).
fn directed_known(rep: &mut Report) {
    use query_router::QueryRouter;
    // --- known: negative numbers
    let a = QueryRouter::new();
    let b = QueryRouter::new();
    let mut reproduced = 0;
    {
        let text = "EMBED STORE 'k1' [-2.5, 3.0, -0.25]";
        rep.case("known.negative_number", Some(text));
        let got = a.execute_parsed(text);
        let want = b.vector().store_embedding("k1", vec![-2.5, 3.0, -0.25]);
        let parses = np::parse(text).is_ok();
        if parses && got.is_err() && want.is_ok() {
            reproduced += 1;
            rep.violation(
                "query_router::QueryRouter::execute_parsed/negative_number_rejected",
                &format!("directed: `{text}` parses (`-x` = Unary(Neg, x)) but execute_parsed returns {} while VectorEngine::store_embedding with the same vector succeeds", canon_qr(&got)),
                json!({"text": text}),
            );
        } else {
            rep.observe(json!({"known_finding_not_reproduced": text, "parses": parses, "execute_parsed": canon_qr(&got), "direct_ok": want.is_ok()}));
        }
    }
    {
        let text = "NODE CREATE person {age: -31}";
        rep.case("known.negative_number", Some(text));
        let got = a.execute_parsed(text);
        let mut props = std::collections::HashMap::new();
        props.insert("age".to_string(), graph_engine::PropertyValue::Int(-31));
        let want = b.graph().create_node("person", props);
        let parses = np::parse(text).is_ok();
        if parses && got.is_err() && want.is_ok() {
            reproduced += 1;
            rep.violation(
                "query_router::QueryRouter::execute_parsed/negative_number_rejected",
                &format!("directed: `{text}` parses but execute_parsed returns {} while GraphEngine::create_node with age = -31 succeeds", canon_qr(&got)),
                json!({"text": text}),
            );
        } else {
            rep.observe(json!({"known_finding_not_reproduced": text, "parses": parses, "execute_parsed": canon_qr(&got), "direct_ok": want.is_ok()}));
        }
    }
    if reproduced > 0 {
        rep.hit_n("known.negative_number.reproduced", reproduced);
    }
    // --- fixed c2eb0014: AND binds tighter than OR in the legacy string parser too
    {
        let q = twin();
        let text = "SELECT * FROM t WHERE c != 0 OR b > 0 AND name = 'y'";
        rep.case("known.regression.and_or_precedence", Some(text));
        let want = match q.relational().select(
            "t",
            Condition::Ne("c".into(), RV::Int(0)).or(Condition::Gt("b".into(), RV::Int(0)).and(Condition::Eq("name".into(), RV::String("y".into())))),
        ) {
            Ok(rows) => canon_rows(&rows),
            Err(e) => format!("error {e:?}"),
        };
        let legacy = canon_qr(&q.execute(text));
        let parsed = canon_qr(&q.execute_parsed(text));
        rep.hit(if legacy == want { "known.regression.and_or_precedence.legacy_agrees" } else { "known.regression.and_or_precedence.legacy_differs" });
        if legacy != want {
            rep.violation(
                "query_router::QueryRouter::parse_condition/and_or_precedence",
                &format!("directed regression: execute(text) returns {} but the documented grouping a OR (b AND c) returns {}", &legacy[..legacy.len().min(60)], &want[..want.len().min(60)]),
                json!({"text": text}),
            );
        }
        if parsed != want {
            rep.violation(
                "query_router::QueryRouter::execute_parsed/select_differs_from_direct_call",
                &format!("directed regression: execute_parsed(text) returns {} but the direct call returns {}", &parsed[..parsed.len().min(60)], &want[..want.len().min(60)]),
                json!({"text": text}),
            );
        }
    }
    // --- fixed 59c7cb56: deep nesting in a statement answers TooDeep (run on a big stack here so that a
    //     parser without the limit cannot take the harness down; the 2 MiB oracle is adv.deep)
    for (name, text) in [
        ("paren3000", format!("SELECT {}1{} FROM t", "(".repeat(3000), ")".repeat(3000))),
        ("from_subquery3000", format!("{}SELECT 1{}", "SELECT * FROM (".repeat(3000), ") s".repeat(3000))),
        ("exists_subquery3000", format!("{}SELECT 1{}", "SELECT * FROM t WHERE EXISTS (".repeat(3000), ")".repeat(3000))),
    ] {
        rep.case("known.regression.deep_nesting", Some(name));
        let t2 = text.clone();
        let h = std::thread::Builder::new().stack_size(512 << 20).spawn(move || match np::parse(&t2) {
            Ok(_) => "ok".to_string(),
            Err(e) => kind_tag(&e.kind).to_string(),
        });
        let out = h.ok().and_then(|j| j.join().ok()).unwrap_or_else(|| "panic".into());
        rep.hit(&format!("known.regression.deep_nesting.{name}.{out}"));
        if out != "TooDeep" {
            let site = if name.starts_with("paren") { "parse_expr_bp" } else { "parse_select_body" };
            rep.violation(
                &format!("neumann_parser::Parser::{site}/depth_limit"),
                &format!("directed regression: 3000 nested levels ({name}) answered `{out}` instead of TooDeep: the statement parser's recursion is unbounded again"),
                json!({"construct": name, "levels": 3000}),
            );
        }
    }
}


// ------------------------------------------------------------------ complete expression grammar (Full.lean)

const F_KWS: &[&str] = &["status", "TYPE", "Depth", "text", "INT", "nodes", "leader", "hops", "total", "pattern"];
const F_AGG: &[&str] = &["COUNT", "SUM", "AVG", "MIN", "MAX"];

fn f_lit_text(n: usize) -> String {
    match n % 7 {
        0 => format!("{n}"),
        1 => format!("{n}.5"),
        2 => format!("'s{n}'"),
        3 => format!("\"q{n}\""),
        4 => "TRUE".into(),
        5 => "false".into(),
        _ => format!("{n}e2"),
    }
}

/// generated tree of `Full.E`
#[derive(Clone, Debug)]
enum FT {
    Lit(usize),
    Null,
    Ident(usize),
    Kw(usize),
    Wild,
    Unit,
    Tuple(Vec<FT>),
    Un(usize, Box<FT>),
    Bin(Box<FT>, usize, Box<FT>),
    IsNull(bool, Box<FT>),
    In(bool, Box<FT>, Vec<FT>),
    Between(bool, Box<FT>, Box<FT>, Box<FT>),
    Like(bool, Box<FT>, Box<FT>),
    Qual(usize, Box<FT>),
    QualWild(bool, usize),
    Call(bool, usize, bool, Vec<FT>),
    Array(Vec<FT>),
    Case(Option<Box<FT>>, Vec<(FT, FT)>, Option<Box<FT>>),
}

fn b01(b: bool) -> &'static str {
    if b { "1" } else { "0" }
}

impl FT {
    fn polish(&self, out: &mut Vec<String>) {
        match self {
            FT::Lit(n) => out.push(format!("l{n}")),
            FT::Null => out.push("null".into()),
            FT::Ident(n) => out.push(format!("i{n}")),
            FT::Kw(n) => out.push(format!("k{n}")),
            FT::Wild => out.push("wild".into()),
            FT::Unit => out.push("unit".into()),
            FT::Tuple(v) => {
                out.push("tuple".into());
                out.push(v.len().to_string());
                v.iter().for_each(|x| x.polish(out));
            }
            FT::Un(u, x) => {
                out.push("un".into());
                out.push(UN[*u].into());
                x.polish(out);
            }
            FT::Bin(l, o, r) => {
                out.push("bin".into());
                out.push(BIN[*o].0.into());
                l.polish(out);
                r.polish(out);
            }
            FT::IsNull(neg, x) => {
                out.push("isnull".into());
                out.push(b01(*neg).into());
                x.polish(out);
            }
            FT::In(neg, x, v) => {
                out.push("in".into());
                out.push(b01(*neg).into());
                out.push(v.len().to_string());
                x.polish(out);
                v.iter().for_each(|y| y.polish(out));
            }
            FT::Between(neg, x, lo, hi) => {
                out.push("between".into());
                out.push(b01(*neg).into());
                x.polish(out);
                lo.polish(out);
                hi.polish(out);
            }
            FT::Like(neg, x, p) => {
                out.push("like".into());
                out.push(b01(*neg).into());
                x.polish(out);
                p.polish(out);
            }
            FT::Qual(n, x) => {
                out.push("qual".into());
                out.push(n.to_string());
                x.polish(out);
            }
            FT::QualWild(kw, n) => {
                out.push("qualwild".into());
                out.push(b01(*kw).into());
                out.push(n.to_string());
            }
            FT::Call(agg, n, d, v) => {
                out.push("call".into());
                out.push(format!("{}{n}", if *agg { 'g' } else { 'i' }));
                out.push(b01(*d).into());
                out.push(v.len().to_string());
                v.iter().for_each(|y| y.polish(out));
            }
            FT::Array(v) => {
                out.push("array".into());
                out.push(v.len().to_string());
                v.iter().for_each(|y| y.polish(out));
            }
            FT::Case(op, ws, el) => {
                out.push("case".into());
                out.push(b01(op.is_some()).into());
                out.push(ws.len().to_string());
                out.push(b01(el.is_some()).into());
                if let Some(o) = op {
                    o.polish(out);
                }
                for (c, r) in ws {
                    c.polish(out);
                    r.polish(out);
                }
                if let Some(e) = el {
                    e.polish(out);
                }
            }
        }
    }
    /// expected answer in the driver's `showFE` syntax, written independently of the model
    fn sexp(&self) -> String {
        fn items(v: &[FT]) -> String {
            v.iter().map(|x| format!(" {}", x.sexp())).collect()
        }
        match self {
            FT::Lit(n) => format!("l{n}"),
            FT::Null => "null".into(),
            FT::Ident(n) => format!("i{n}"),
            FT::Kw(n) => format!("k{n}"),
            FT::Wild => "*".into(),
            FT::Unit => "()".into(),
            FT::Tuple(v) => format!("(tuple{})", items(v)),
            FT::Un(u, x) => format!("({} {})", UN[*u], x.sexp()),
            FT::Bin(l, o, r) => format!("({} {} {})", BIN[*o].0, l.sexp(), r.sexp()),
            FT::IsNull(neg, x) => format!("({} {})", if *neg { "isnotnull" } else { "isnull" }, x.sexp()),
            FT::In(neg, x, v) => format!("({} {}{})", if *neg { "notin" } else { "in" }, x.sexp(), items(v)),
            FT::Between(neg, x, lo, hi) => {
                format!("({} {} {} {})", if *neg { "notbetween" } else { "between" }, x.sexp(), lo.sexp(), hi.sexp())
            }
            FT::Like(neg, x, p) => format!("({} {} {})", if *neg { "notlike" } else { "like" }, x.sexp(), p.sexp()),
            FT::Qual(n, x) => format!("(qual {} @i{n})", x.sexp()),
            FT::QualWild(kw, n) => format!("(qualwild @{}{n})", if *kw { 'k' } else { 'i' }),
            FT::Call(agg, n, d, v) => {
                format!("(call @{}{n}{}{})", if *agg { 'g' } else { 'i' }, if *d { " distinct" } else { "" }, items(v))
            }
            FT::Array(v) => format!("(array{})", items(v)),
            FT::Case(op, ws, el) => format!(
                "(case {}{} else={})",
                op.as_ref().map_or("-".to_string(), |o| o.sexp()),
                ws.iter().map(|(c, r)| format!(" (when {} {})", c.sexp(), r.sexp())).collect::<String>(),
                el.as_ref().map_or("-".to_string(), |o| o.sexp())
            ),
        }
    }
    fn depth(&self) -> usize {
        let m = |v: &[FT]| v.iter().map(|x| x.depth()).max().unwrap_or(0);
        match self {
            FT::Tuple(v) | FT::Array(v) | FT::Call(_, _, _, v) => 1 + m(v),
            FT::Un(_, x) | FT::IsNull(_, x) | FT::Qual(_, x) => 1 + x.depth(),
            FT::Bin(l, _, r) | FT::Like(_, l, r) => 1 + l.depth().max(r.depth()),
            FT::In(_, x, v) => 1 + x.depth().max(m(v)),
            FT::Between(_, x, lo, hi) => 1 + x.depth().max(lo.depth()).max(hi.depth()),
            FT::Case(op, ws, el) => {
                1 + op.as_ref().map_or(0, |o| o.depth())
                    .max(ws.iter().map(|(c, r)| c.depth().max(r.depth())).max().unwrap_or(0))
                    .max(el.as_ref().map_or(0, |o| o.depth()))
            }
            _ => 1,
        }
    }
    fn tag(&self) -> &'static str {
        match self {
            FT::Lit(_) => "lit",
            FT::Null => "null",
            FT::Ident(_) => "ident",
            FT::Kw(_) => "kw",
            FT::Wild => "wildcard",
            FT::Unit => "unit",
            FT::Tuple(_) => "tuple",
            FT::Un(..) => "un",
            FT::Bin(..) => "bin",
            FT::IsNull(..) => "isnull",
            FT::In(..) => "in",
            FT::Between(..) => "between",
            FT::Like(..) => "like",
            FT::Qual(..) => "qual",
            FT::QualWild(..) => "qualwild",
            FT::Call(..) => "call",
            FT::Array(_) => "array",
            FT::Case(..) => "case",
        }
    }
    fn count(&self, rep: &mut Report) {
        rep.hit(&format!("full.tree.{}", self.tag()));
        let mut kids: Vec<&FT> = Vec::new();
        match self {
            FT::Tuple(v) | FT::Array(v) | FT::Call(_, _, _, v) => kids.extend(v.iter()),
            FT::Un(_, x) | FT::IsNull(_, x) | FT::Qual(_, x) => kids.push(x),
            FT::Bin(l, _, r) | FT::Like(_, l, r) => {
                kids.push(l);
                kids.push(r);
            }
            FT::In(_, x, v) => {
                kids.push(x);
                kids.extend(v.iter());
            }
            FT::Between(_, x, lo, hi) => {
                kids.push(x);
                kids.push(lo);
                kids.push(hi);
            }
            FT::Case(op, ws, el) => {
                if let Some(o) = op {
                    kids.push(o);
                }
                for (c, r) in ws {
                    kids.push(c);
                    kids.push(r);
                }
                if let Some(e) = el {
                    kids.push(e);
                }
            }
            _ => {}
        }
        // the combinations the postfix rules are about: what stands directly under what
        for k in &kids {
            if matches!(self, FT::IsNull(..) | FT::In(..) | FT::Between(..) | FT::Like(..) | FT::Qual(..) | FT::Un(..)) {
                rep.hit(&format!("full.under.{}.{}", self.tag(), k.tag()));
            }
            k.count(rep);
        }
    }
}

fn f_leaf(r: &mut Rng, na: &mut usize) -> FT {
    *na += 1;
    let n = *na - 1;
    match r.below(16) {
        0 => FT::Wild,
        1 => FT::Unit,
        2 => FT::Null,
        3 | 4 => FT::Kw(n),
        5 => FT::QualWild(r.chance(1, 3), n),
        6..=9 => FT::Ident(n),
        _ => FT::Lit(n),
    }
}

fn f_list(r: &mut Rng, depth: usize, na: &mut usize, min: usize, max: usize) -> Vec<FT> {
    let k = min + r.below((max - min + 1) as u64) as usize;
    (0..k)
        .map(|_| {
            let d = 1 + r.below(depth.max(1) as u64) as usize;
            f_gen(r, d, na)
        })
        .collect()
}

/// random tree of the complete expression grammar; postfix forms, prefix operators and binary
/// operators are mixed freely so that every "X directly under Y" pair the printing rules
/// distinguish occurs
fn f_gen(r: &mut Rng, depth: usize, na: &mut usize) -> FT {
    if depth <= 1 {
        return f_leaf(r, na);
    }
    let d = depth - 1;
    let sub = |r: &mut Rng, na: &mut usize| {
        let dd = 1 + r.below(d as u64) as usize;
        Box::new(f_gen(r, dd, na))
    };
    let deep = |r: &mut Rng, na: &mut usize| Box::new(f_gen(r, d, na));
    match r.below(30) {
        0..=7 => {
            let o = r.below(19) as usize;
            if r.chance(1, 2) {
                FT::Bin(deep(r, na), o, sub(r, na))
            } else {
                FT::Bin(sub(r, na), o, deep(r, na))
            }
        }
        8..=10 => FT::Un(r.below(3) as usize, deep(r, na)),
        11 | 12 => FT::IsNull(r.chance(1, 2), deep(r, na)),
        13 | 14 => FT::In(r.chance(1, 2), deep(r, na), f_list(r, d, na, 0, 3)),
        15..=17 => {
            let x = sub(r, na);
            FT::Between(r.chance(1, 2), x, deep(r, na), sub(r, na))
        }
        18 | 19 => FT::Like(r.chance(1, 2), sub(r, na), deep(r, na)),
        20 | 21 => {
            *na += 1;
            FT::Qual(*na - 1, deep(r, na))
        }
        22 | 23 => {
            *na += 1;
            FT::Call(r.chance(1, 3), *na - 1, r.chance(1, 4), f_list(r, d, na, 0, 3))
        }
        24 => FT::Array(f_list(r, d, na, 0, 3)),
        25 => FT::Tuple(f_list(r, d, na, 2, 4)),
        26 | 27 => {
            let op = if r.chance(1, 2) { Some(deep(r, na)) } else { None };
            let nw = 1 + r.below(2) as usize;
            let ws = (0..nw).map(|_| (*sub(r, na), *sub(r, na))).collect();
            let el = if r.chance(1, 2) { Some(sub(r, na)) } else { None };
            FT::Case(op, ws, el)
        }
        _ => f_leaf(r, na),
    }
}

/// Full-alphabet token words -> text with the token-start table
fn f_render(words: &[String], r: &mut Rng, fancy: bool) -> Rendered {
    let mut text = String::new();
    let mut starts = Vec::new();
    if fancy && r.chance(1, 8) {
        text.push_str(sep(r, true));
    }
    let kwcase = |r: &mut Rng, k: &str| -> String {
        match r.below(3) {
            0 => k.to_uppercase(),
            1 => k.to_lowercase(),
            _ => {
                let mut c = k.to_lowercase();
                c[..1].make_ascii_uppercase();
                c
            }
        }
    };
    for (i, w) in words.iter().enumerate() {
        if i > 0 {
            text.push_str(sep(r, fancy));
        }
        starts.push(text.len());
        let t: String = match w.as_str() {
            "(" | ")" | "[" | "]" | "," | "." => w.clone(),
            "bang" => "!".into(),
            "tilde" => "~".into(),
            "other" => (*r.pick(&[";", "}", ":", "@", "?", "#", "{", "$"])).into(),
            "null" | "not" | "is" | "in" | "between" | "like" | "case" | "when" | "then" | "else" | "end" | "distinct"
            | "exists" | "select" | "cast" => kwcase(r, w),
            _ => {
                if let Some(b) = BIN.iter().find(|b| b.0 == w) {
                    (*r.pick(b.1)).into()
                } else {
                    let n: usize = w[1..].parse().unwrap_or(0);
                    match w.as_bytes()[0] {
                        b'l' => f_lit_text(n),
                        b'i' => format!("c{n}"),
                        b'k' => F_KWS[n % F_KWS.len()].to_string(),
                        _ => {
                            let a = F_AGG[n % F_AGG.len()];
                            if r.chance(1, 2) { a.to_string() } else { a.to_lowercase() }
                        }
                    }
                }
            }
        };
        text.push_str(&t);
    }
    if fancy && r.chance(1, 8) {
        text.push_str(sep(r, true));
    }
    Rendered { text, starts }
}

/// replace the placeholders of a `full` answer (`l<n>` `i<n>` `k<n>` `@i<n>` `@k<n>` `@g<n>`) by what
/// the real AST canonicaliser `sx` prints for them
fn f_expand(ans: &str) -> String {
    let b = ans.as_bytes();
    let mut out = String::new();
    let mut i = 0;
    while i < b.len() {
        let word_start = i == 0 || matches!(b[i - 1], b' ' | b'(' | b'=');
        if word_start {
            let at = b[i] == b'@';
            let j0 = if at { i + 1 } else { i };
            if j0 + 1 < b.len() && matches!(b[j0], b'l' | b'i' | b'k' | b'g') && b[j0 + 1].is_ascii_digit() {
                let mut j = j0 + 1;
                while j < b.len() && b[j].is_ascii_digit() {
                    j += 1;
                }
                if j == b.len() || matches!(b[j], b' ' | b')') {
                    let n: usize = ans[j0 + 1..j].parse().unwrap();
                    let rep = match (b[j0], at) {
                        (b'l', false) => np::parse_expr(&f_lit_text(n)).map(|e| sx(&e)).unwrap_or_else(|_| "?".into()),
                        (b'i', false) => format!("id:c{n}"),
                        (b'i', true) => format!("c{n}"),
                        (b'k', false) => format!("id:{}", F_KWS[n % F_KWS.len()].to_lowercase()),
                        (b'k', true) => F_KWS[n % F_KWS.len()].to_lowercase(),
                        (b'g', true) => F_AGG[n % F_AGG.len()].to_string(),
                        _ => "?".into(),
                    };
                    out.push_str(&rep);
                    i = j;
                    continue;
                }
            }
        }
        out.push(b[i] as char);
        i += 1;
    }
    out
}

fn f_canon_err(e: &np::ParseError, rd: &Rendered) -> String {
    let at = tok_index(rd, e.span.start.0 as usize);
    match &e.kind {
        // no discriminator besides the message: one compared token (see `collapse_err`)
        ParseErrorKind::InvalidSyntax(_) => format!("err invalid {at}"),
        _ => canon_err(e, rd),
    }
}

fn f_real_expr(rd: &Rendered) -> String {
    let text = rd.text.clone();
    match guarded(move || np::parse_expr(&text)) {
        Ok(Ok(e)) => format!("ok {}", sx(&e)),
        Ok(Err(e)) => f_canon_err(&e, rd),
        Err(p) => format!("panic {p}"),
    }
}

fn f_real_stmt(rd: &Rendered) -> String {
    let text = format!("{STMT_PREFIX}{}", rd.text);
    match guarded(move || np::parse(&text)) {
        Ok(Ok(st)) => match st.kind {
            StatementKind::Select(s) => match s.where_clause {
                Some(w) => format!("ok {}", sx(&w)),
                None => "ok <no-where>".into(),
            },
            _ => "ok <not-select>".into(),
        },
        Ok(Err(e)) => {
            let shifted = Rendered { text: String::new(), starts: rd.starts.iter().map(|s| s + STMT_PREFIX.len()).collect() };
            f_canon_err(&e, &shifted)
        }
        Err(p) => format!("panic {p}"),
    }
}

fn f_tag(ans: &str) -> String {
    if ans.starts_with("ok") {
        return "ok".into();
    }
    ans.split(' ')
        .take(3)
        .filter(|w| !w.chars().all(|c| c.is_ascii_digit()))
        .collect::<Vec<_>>()
        .join("_")
        .replace('(', "lparen")
        .replace(')', "rparen")
        .replace(']', "rbracket")
}

/// one token list through both real parsers against the two modes of the model
fn f_tokens_case(m: &mut Model, rep: &mut Report, r: &mut Rng, words: &[String], stream: &str, key: bool) -> (String, String) {
    let fancy = r.chance(1, 5);
    let rd = f_render(words, r, fancy);
    let line = words.join(" ");
    let imp = f_real_expr(&rd);
    let model = f_expand(&m.ask(&format!("full expr {line}")));
    let s1 = format!("{stream}.expr");
    rep.case(&s1, if key && words.len() >= 3 { Some(&rd.text) } else { None });
    let imp = cmp_parse(rep, &s1, || json!({"text": rd.text, "tokens": line}), imp, &model);
    rep.hit(&format!("full.result.{}", f_tag(&imp)));
    let simp = f_real_stmt(&rd);
    let smodel = f_expand(&m.ask(&format!("full stmt {line}")));
    if smodel == "outside" {
        rep.hit("full.stmt.outside");
    } else {
        let s2 = format!("{stream}.stmt");
        rep.case(&s2, None);
        let fine = cmp_parse(rep, &s2, || json!({"text": format!("{STMT_PREFIX}{}", rd.text), "tokens": line}), simp.clone(), &smodel);
        rep.hit(&format!("full.stmt.result.{}", f_tag(&fine)));
    }
    if rep.samples.len() < 14 && words.len() > 6 && r.chance(1, 40) {
        rep.sample(json!({"stream": stream, "text": rd.text, "real": imp, "model": model}));
    }
    // normal form on the implementation: re-print the accepted tree minimally, parse again, same AST
    if imp.starts_with("ok") && (stream.ends_with("soup") || stream.ends_with("mutant") || stream.ends_with("all")) {
        let norm = m.ask(&format!("fnormal expr {line}"));
        if let Some(nw) = norm.strip_prefix("ok ") {
            let nwords = words_of(nw);
            let rd2 = f_render(&nwords, r, false);
            let imp2 = f_real_expr(&rd2);
            rep.hit(if nwords == words { "full.normal_form.already_minimal" } else { "full.normal_form.reprinted_differently" });
            if imp2 != imp {
                viol_once(rep, "neumann_parser::parse_expr/normal_form",
                    &format!("minimal re-print of an accepted expression parses differently: {imp} vs {imp2}"),
                    json!({"text": rd.text, "reprinted": rd2.text}));
            }
        }
    }
    // the renderer's claim: the text has exactly these tokens (checked on a sample, through the lexer model)
    if r.chance(1, 12) {
        let real = lex_case(m, rep, &rd.text, "lex.rendered");
        let nt = real.split(' ').count();
        if nt != words.len() + 1 {
            rep.disagree("lex.rendered", json!({"text": rd.text, "tokens": line}), &format!("{nt} tokens"), &format!("{} words + eof", words.len()));
        }
        // the same tokens with generated block comments (star / slash runs, nesting) in front of some or all of
        // them, placed by the renderer's own token table: still exactly these tokens.  (The separators of the
        // renderers themselves stay plain, so that a comment-scanner regression is reported by the comment
        // oracle `cmt.*` and not under the precedence / structure classes of the streams that render.)
        let every = r.chance(1, 3);
        let mut text2 = String::new();
        let mut prev = 0usize;
        for st in rd.starts.iter() {
            text2.push_str(&rd.text[prev..*st]);
            prev = *st;
            if every || r.chance(1, 4) {
                text2.push_str(&cmt_gen(r, 3));
            }
        }
        text2.push_str(&rd.text[prev..]);
        if r.chance(1, 3) {
            text2.push_str(&cmt_gen(r, 3));
        }
        if text2.chars().count() <= 600 {
            let real2 = lex_case(m, rep, &text2, "lex.rendered.commented");
            let nt2 = real2.split(' ').count();
            if nt2 != words.len() + 1 {
                rep.disagree("lex.rendered.commented", json!({"text": text2, "tokens": line}), &format!("{nt2} tokens"), &format!("{} words + eof", words.len()));
            }
        }
    }
    (imp, simp)
}

const F_POSTFIX_CLASS: &str = "neumann_parser::parse_expr/postfix_precedence";
const F_POSTFIX_CLASS_STMT: &str = "neumann_parser::parse/postfix_precedence";

fn f_tree_case(m: &mut Model, rep: &mut Report, r: &mut Rng, t: &FT, stream: &str) {
    let mut pol = Vec::new();
    t.polish(&mut pol);
    let pol = pol.join(" ");
    let expected = f_expand(&format!("ok {}", t.sexp()));
    t.count(rep);
    rep.hit(&format!("full.tree.depth.{:02}", t.depth().min(12)));
    let mut firsts: Vec<(String, String, String)> = Vec::new();
    for mode in ["min", "full", "all"] {
        if mode == "all" && !r.chance(1, 3) {
            continue;
        }
        let words = words_of(&m.ask(&format!("fprint {mode} {pol}")));
        if words.first().map_or(true, |w| w == "bad-op") {
            rep.disagree(stream, json!({"tree": pol}), "harness tree", "bad-op");
            return;
        }
        let frames: usize = m.ask(&format!("fframes {mode} {pol}")).parse().unwrap_or(0);
        rep.hit(&format!("full.frames.{mode}.{:02}", frames.min(70)));
        let (imp, simp) = f_tokens_case(m, rep, r, &words, &format!("{stream}.{mode}"), t.depth() >= 2);
        // --- oracles on the implementation: the parse IS the generated tree
        if frames <= 64 && imp != expected {
            viol_once(rep, F_POSTFIX_CLASS,
                &format!("{mode}-parenthesised print of a tree with postfix forms does not parse back to the tree: got {imp}, want {expected}"),
                json!({"tokens": words.join(" "), "tree": pol}));
        }
        if frames <= 64 && simp != expected {
            viol_once(rep, F_POSTFIX_CLASS_STMT,
                &format!("statement parser: {mode}-parenthesised print of a tree with postfix forms does not parse back to the tree: got {simp}, want {expected}"),
                json!({"tokens": words.join(" "), "tree": pol}));
        }
        firsts.push((mode.to_string(), imp, simp));
    }
    if let Some((_, a0, s0)) = firsts.first().cloned() {
        for (mode, a, s) in &firsts[1..] {
            if *a != a0 || *s != s0 {
                viol_once(rep, "neumann_parser::parse_expr/paren_invariance",
                    &format!("min-print and {mode}-print of a tree with postfix forms parse differently: {a0} vs {a} (statement parser: {s0} vs {s})"),
                    json!({"tree": pol}));
            }
        }
    }
}

/// the shortest inputs in which each postfix / primary rule is the only thing that decides the parse
const F_DIRECTED: &[&str] = &[
    // a BETWEEN bound / LIKE pattern stops before `*` (PREFIX_BP = 19 > 17), and before AND
    "i1 between l1 and l2 mul l3",
    "i1 like l2 mul l3",
    "i1 not between sub l1 and tilde l2 mod l3 and i4",
    "i1 between l1 and l2 and l3 between l4 and l5 or l6",
    "i1 between i2 between l1 and l2 and l3",
    "i1 between l1 and i2 between l3 and l4",
    // a postfix form attaches to the nearest operand, under prefix operators too
    "sub i1 is null",
    "not i1 is not null",
    "tilde i1 . i2 is null",
    "l1 add l2 is null",
    "l1 mul i2 not in ( l3 ) add l4",
    "( l1 add l2 ) is null",
    "i1 like i2 is null",
    "( i1 like i2 ) is null",
    "i1 between l1 and l2 is null",
    "( i1 between l1 and l2 ) is null",
    "i1 is null is not null",
    // NOT: postfix only before IN / BETWEEN / LIKE
    "i1 not in ( l1 , l2 ) not like l3",
    "i1 not l2",
    "i1 not not in ( l1 )",
    "not not i1 not between l1 and l2",
    "i1 is not l2",
    "i1 is bang null",
    // qualified names and wildcards
    "i1 . i2 . i3",
    "i1 . mul",
    "k1 . mul",
    "( i1 ) . mul",
    "l1 . mul",
    "i1 . i2 . mul",
    "l1 add ( l2 ) . mul",
    "i1 . k2",
    "i1 .",
    "i1 . l2",
    // calls, aggregates, DISTINCT, arrays, tuples
    "i1 ( )",
    "i1 ( distinct )",
    "i1 ( distinct l1 , l2 add l3 )",
    "g0 ( mul )",
    "g1 ( distinct i2 ) . i3",
    "g0",
    "g0 l1",
    "k1 ( l1 )",
    "i1 ( l1 , )",
    "i1 ( l1 l2 )",
    "[ ]",
    "[ l1 , [ l2 , l3 ] , ( ) ]",
    "[ l1 , ]",
    "[ l1",
    "( l1 , l2 )",
    "( l1 , l2 , l3 ) is null",
    "( l1 , )",
    "( l1 , l2",
    "i1 in ( )",
    "i1 in ( l1 , l2 add l3 , ( l4 , l5 ) )",
    "i1 in l1",
    "i1 in ( l1",
    "i1 in ( select",
    // CASE
    "case when i1 then l2 end",
    "case i1 when l1 then l2 when l3 then l4 else l5 end is null",
    "case when i1 then l2 else l3",
    "case i1 end",
    "case end",
    "case",
    "case when i1 l2",
    "case when i1 then l2 else l3 when",
    "case case when l1 then l2 end when l3 then l4 end",
    // the two copies differ here
    "exists ( l1 )",
    "exists l1",
    "exists",
    "cast ( l1 )",
    "i1 add exists ( select",
];

fn f_directed(m: &mut Model, rep: &mut Report, rng: &Rng) {
    let mut r = rng.fork("full.directed");
    for line in F_DIRECTED {
        let words = words_of(line);
        f_tokens_case(m, rep, &mut r, &words, "full.directed", true);
    }
    // the C15_2-shaped regression check with an explicit expectation (independent of the model)
    for (line, want) in [
        ("i1 between l1 and l2 mul l3", "(mul (between i1 l1 l2) l3)"),
        ("i1 like l2 mul l3", "(mul (like i1 l2) l3)"),
        ("sub i1 is null", "(neg (isnull i1))"),
        ("l1 mul i2 not in ( l3 ) add l4", "(add (mul l1 (notin i2 l3)) l4)"),
        ("i1 between l1 and l2 is null", "(between i1 l1 (isnull l2))"),
        ("not i1 not like l2 or l3", "(or (not (notlike i1 l2)) l3)"),
    ] {
        let words = words_of(line);
        let rd = f_render(&words, &mut r, false);
        let want = f_expand(&format!("ok {want}"));
        let imp = f_real_expr(&rd);
        let simp = f_real_stmt(&rd);
        rep.case("full.directed.expect", Some(&rd.text));
        if imp != want {
            viol_once(rep, F_POSTFIX_CLASS, &format!("`{}` parses as {imp}, the documented postfix / bound rules give {want}", rd.text), json!({"text": rd.text}));
        }
        if simp != want {
            viol_once(rep, F_POSTFIX_CLASS_STMT, &format!("statement parser: `{}` parses as {simp}, the documented postfix / bound rules give {want}", rd.text), json!({"text": rd.text}));
        }
    }
}

/// openers of one more live frame over the whole alphabet, with the tokens that close them
const F_OPENERS: &[(&str, &str)] = &[
    ("sub", ""),
    ("not", ""),
    ("bang", ""),
    ("tilde", ""),
    ("(", ")"),
    ("[", "]"),
    ("[ l1 ,", "]"),
    ("i1 (", ")"),
    ("g0 ( distinct", ")"),
    ("( l1 ,", ")"),
    ("i1 in (", ")"),
    ("i1 not in ( l2 ,", ")"),
    ("i1 between", "and l2"),
    ("i1 between l1 and", ""),
    ("i1 not like", ""),
    ("case", "when l1 then l2 end"),
    ("case when", "then l2 end"),
    ("case when l1 then", "end"),
    ("case when l1 then l2 else", "end"),
    ("l1 add", ""),
    ("l1 or", ""),
];

fn f_chains(m: &mut Model, rep: &mut Report, rng: &Rng, thorough: bool) {
    let mut r = rng.fork("full.chain");
    // every opener alone, exactly at the limit
    for (i, (open, close)) in F_OPENERS.iter().enumerate() {
        for n in [62usize, 63, 64, 65] {
            let mut words: Vec<String> = Vec::new();
            for _ in 0..n {
                words.extend(words_of(open));
            }
            words.push("l0".into());
            for _ in 0..n {
                words.extend(words_of(close));
            }
            let (imp, _) = f_tokens_case(m, rep, &mut r, &words, "full.chain.single", false);
            rep.hit(&format!("full.chain.single.{:02}.{}", i, if imp.starts_with("ok") { "ok" } else { "err" }));
        }
    }
    // mixtures: the limit split over several kinds of nesting
    let n = if thorough { 4000 } else { 400 };
    for _ in 0..n {
        let total = 58 + r.below(13) as usize;
        let nk = 2 + r.below(4) as usize;
        let kinds: Vec<usize> = (0..nk).map(|_| r.below(F_OPENERS.len() as u64) as usize).collect();
        let mut stack = Vec::new();
        let mut words: Vec<String> = Vec::new();
        for _ in 0..total {
            let k = *r.pick(&kinds);
            words.extend(words_of(F_OPENERS[k].0));
            stack.push(k);
        }
        words.push("l0".into());
        let closed = !r.chance(1, 6);
        if closed {
            while let Some(k) = stack.pop() {
                words.extend(words_of(F_OPENERS[k].1));
            }
        }
        let (imp, _) = f_tokens_case(m, rep, &mut r, &words, "full.chain.mixed", false);
        rep.hit(&format!("full.chain.mixed.{}", f_tag(&imp)));
    }
}

const F_SOUP_OPERAND: &[&str] = &["l", "l", "l", "i", "i", "k", "null", "mul", "( )", "[ ]", "i ( )", "g ( mul )"];
const F_SOUP_PREFIX: &[&str] = &["sub", "not", "bang", "tilde", "(", "[", "case", "case when", "i (", "g (", "i ( distinct"];
const F_SOUP_AFTER: &[&str] = &[
    "is null", "is not null", "in (", "not in (", "between", "not between", "like", "not like", ". i", ". mul", ")", "]", ",",
    "and", "when", "then", "else", "end",
];
const F_SOUP_NOISE: &[&str] = &[
    "other", "not", "is", "in", "between", "like", ".", ",", "(", ")", "[", "]", "case", "when", "then", "else", "end",
    "distinct", "exists", "select", "cast", "null", "g", "k", "bang",
];

fn f_soup_words(r: &mut Rng, na: &mut usize) -> Vec<String> {
    let len = r.below(14) as usize;
    let mut words: Vec<String> = Vec::new();
    let mut want_operand = true;
    let push = |words: &mut Vec<String>, pat: &str, na: &mut usize| {
        for w in pat.split(' ') {
            match w {
                "l" | "i" | "k" | "g" => {
                    *na += 1;
                    words.push(format!("{w}{}", *na - 1));
                }
                _ => words.push(w.to_string()),
            }
        }
    };
    for _ in 0..len {
        if !r.chance(5, 6) {
            push(&mut words, *r.pick(F_SOUP_NOISE), na);
            continue;
        }
        if want_operand {
            if r.chance(1, 4) {
                push(&mut words, *r.pick(F_SOUP_PREFIX), na);
            } else {
                push(&mut words, *r.pick(F_SOUP_OPERAND), na);
                want_operand = false;
            }
        } else if r.chance(1, 2) {
            let a = *r.pick(F_SOUP_AFTER);
            push(&mut words, a, na);
            want_operand = !matches!(a, "is null" | "is not null" | ". i" | ". mul" | ")" | "]" | "end");
        } else {
            words.push(BIN[r.below(19) as usize].0.into());
            want_operand = true;
        }
    }
    words
}

/// one random edit of a token list
fn f_mutate(r: &mut Rng, words: &mut Vec<String>, na: &mut usize) {
    if words.is_empty() {
        return;
    }
    let i = r.below(words.len() as u64) as usize;
    match r.below(6) {
        0 => {
            words.remove(i);
        }
        1 => {
            let w = (*r.pick(F_SOUP_NOISE)).to_string();
            let w = if matches!(w.as_str(), "g" | "k") {
                *na += 1;
                format!("{w}{}", *na - 1)
            } else {
                w
            };
            words.insert(i, w);
        }
        2 => {
            let j = r.below(words.len() as u64) as usize;
            words.swap(i, j);
        }
        3 => words.truncate(i),
        4 => words[i] = BIN[r.below(19) as usize].0.into(),
        _ => {
            let w = words[i].clone();
            words.insert(i, w);
        }
    }
}

fn stream_full(m: &mut Model, rep: &mut Report, rng: &Rng, thorough: bool) {
    // generated trees: every "X directly under Y" pair
    let mut r = rng.fork("full.trees");
    let n = if thorough { 25000 } else { 1800 };
    let maxd = if thorough { 7 } else { 5 };
    for _ in 0..n {
        let mut na = 0;
        let depth = 2 + r.below(maxd as u64 - 1) as usize;
        let t = f_gen(&mut r, depth, &mut na);
        f_tree_case(m, rep, &mut r, &t, "full.trees");
    }
    // prints with one to three random edits: almost well-formed input, every error arm
    let mut r = rng.fork("full.mutant");
    let n = if thorough { 40000 } else { 3500 };
    for _ in 0..n {
        let mut na = 0;
        let depth = 2 + r.below(3) as usize;
        let t = f_gen(&mut r, depth, &mut na);
        let mut pol = Vec::new();
        t.polish(&mut pol);
        let mode = *r.pick(&["min", "min", "full", "all"]);
        let mut words = words_of(&m.ask(&format!("fprint {mode} {}", pol.join(" "))));
        for _ in 0..1 + r.below(3) {
            f_mutate(&mut r, &mut words, &mut na);
        }
        f_tokens_case(m, rep, &mut r, &words, "full.mutant", true);
    }
    let mut r = rng.fork("full.soup");
    let n = if thorough { 40000 } else { 3500 };
    for _ in 0..n {
        let mut na = 0;
        let words = f_soup_words(&mut r, &mut na);
        f_tokens_case(m, rep, &mut r, &words, "full.soup", true);
    }
}


// ------------------------------------------------------------------ lexer (Lex.lean)

/// the keys of `TokenKind::keyword_from_str` (token.rs), for the directed keyword stream
const LEX_KEYWORDS: &[&str] = &["SELECT", "FROM", "WHERE", "AND", "OR", "NOT", "IN", "IS", "LIKE", "BETWEEN", "CASE", "WHEN", "THEN", "ELSE", "END", "AS", "ON", "JOIN", "LEFT", "RIGHT", "INNER", "OUTER", "FULL", "CROSS", "NATURAL", "USING", "GROUP", "BY", "HAVING", "ORDER", "ASC", "DESC", "NULLS", "FIRST", "LAST", "LIMIT", "OFFSET", "DISTINCT", "ALL", "UNION", "INTERSECT", "EXCEPT", "EXISTS", "CAST", "ANY", "INSERT", "INTO", "VALUES", "UPDATE", "SET", "DELETE", "CREATE", "TABLE", "INDEX", "DROP", "ALTER", "ADD", "COLUMN", "PRIMARY", "KEY", "FOREIGN", "REFERENCES", "UNIQUE", "CHECK", "DEFAULT", "CONSTRAINT", "CASCADE", "RESTRICT", "IF", "SHOW", "TABLES", "DESCRIBE", "EMBEDDINGS", "TRUE", "FALSE", "NULL", "INT", "INTEGER", "BIGINT", "SMALLINT", "FLOAT", "DOUBLE", "REAL", "DECIMAL", "NUMERIC", "VARCHAR", "CHAR", "TEXT", "BOOLEAN", "DATE", "TIME", "TIMESTAMP", "BLOB", "COUNT", "SUM", "AVG", "MIN", "MAX", "NODE", "EDGE", "NEIGHBORS", "PATH", "GET", "LIST", "STORE", "OUTGOING", "INCOMING", "BOTH", "SHORTEST", "PROPERTIES", "LABEL", "VERTEX", "VERTICES", "EDGES", "EMBED", "SIMILAR", "VECTOR", "EMBEDDING", "DIMENSION", "DISTANCE", "COSINE", "EUCLIDEAN", "DOT_PRODUCT", "DOTPRODUCT", "BUILD", "BATCH", "FIND", "WITH", "RETURN", "MATCH", "ENTITY", "CONNECTED", "ROWS", "VAULT", "GRANT", "REVOKE", "ROTATE", "CACHE", "INIT", "STATS", "CLEAR", "EVICT", "PUT", "SEMANTIC", "THRESHOLD", "CHECKPOINT", "CHECKPOINTS", "ROLLBACK", "CHAIN", "BEGIN", "COMMIT", "TRANSACTION", "HISTORY", "DRIFT", "CODEBOOK", "GLOBAL", "LOCAL", "ANALYZE", "HEIGHT", "TRANSITIONS", "TIP", "BLOCK", "CLUSTER", "CONNECT", "DISCONNECT", "STATUS", "NODES", "LEADER", "BLOBS", "INFO", "LINK", "UNLINK", "LINKS", "TAG", "UNTAG", "VERIFY", "GC", "REPAIR", "TO", "FOR", "META", "ARTIFACTS", "PAGERANK", "BETWEENNESS", "CLOSENESS", "EIGENVECTOR", "CENTRALITY", "LOUVAIN", "COMMUNITIES", "PROPAGATION", "DAMPING", "TOLERANCE", "ITERATIONS", "SAMPLING", "RESOLUTION", "PASSES", "WEIGHTED", "VARIABLE", "HOPS", "DEPTH", "SKIP", "TOTAL", "PATTERN", "AGGREGATE", "PROPERTY", "TYPE", "GRAPH"];

/// one `char` with the three Unicode table answers the lexer asks for, in the driver's encoding
fn lex_enc(text: &str) -> String {
    let mut out = String::with_capacity(text.len() * 12);
    for (i, c) in text.chars().enumerate() {
        if i > 0 {
            out.push(' ');
        }
        let up: Vec<String> = c.to_uppercase().map(|u| (u as u32).to_string()).collect();
        out.push_str(&format!("{}.{}.{}.{}", c as u32, b01(c.is_whitespace()), b01(c.is_alphanumeric()), up.join("+")));
    }
    out
}

/// a model answer of `lex` as it is compared: `err:<kind>@lo-hi` → `err@lo-hi` (DESIGN I.2: the kind of an error token
/// exists in the implementation only as message wording)
fn lex_collapse(model: &str) -> String {
    model
        .split(' ')
        .map(|t| match (t.strip_prefix("err:"), t.find('@')) {
            (Some(_), Some(at)) => format!("err{}", &t[at..]),
            _ => t.to_string(),
        })
        .collect::<Vec<_>>()
        .join(" ")
}

fn lex_canon(toks: &[np::Token]) -> String {
    use np::TokenKind as TK;
    toks.iter()
        .map(|t| {
            let k = match &t.kind {
                TK::Eof => "eof".to_string(),
                TK::Ident(_) => "ident".to_string(),
                TK::Integer(v) => format!("int:{v}"),
                TK::Float(_) => "float".to_string(),
                TK::String(s) => format!("str:{}", s.chars().map(|c| (c as u32).to_string()).collect::<Vec<_>>().join(".")),
                // `TokenKind::Error(String)` has no discriminator besides its message: one compared token `err`
                // (with its span) on both sides, `lex_collapse`; the model's finer kind is a distribution key only
                TK::Error(_) => "err".to_string(),
                other => format!("name:{other:?}"),
            };
            format!("{k}@{}-{}", t.span.start.0, t.span.end.0)
        })
        .collect::<Vec<_>>()
        .join(" ")
}

/// property oracles on the real token stream itself
fn lex_oracles(rep: &mut Report, text: &str, toks: &[np::Token]) {
    use np::TokenKind as TK;
    let n = text.len();
    let mut bad: Option<(&str, String)> = None;
    let mut prev_end = 0usize;
    for (i, t) in toks.iter().enumerate() {
        let (lo, hi) = (t.span.start.0 as usize, t.span.end.0 as usize);
        let last = i + 1 == toks.len();
        if lo > hi || hi > n {
            bad = Some(("span_outside_input", format!("token {i} {:?} has span {lo}..{hi} in an input of {n} bytes", t.kind)));
        } else if !text.is_char_boundary(lo) || !text.is_char_boundary(hi) {
            bad = Some(("span_not_on_char_boundary", format!("token {i} {:?} has span {lo}..{hi}", t.kind)));
        } else if lo < prev_end {
            bad = Some(("spans_overlap", format!("token {i} {:?} starts at {lo}, before the end {prev_end} of its predecessor", t.kind)));
        } else if matches!(t.kind, TK::Eof) != last {
            bad = Some(("eof_not_last", format!("token {i} of {} is {:?}", toks.len(), t.kind)));
        } else if last && (lo != n || hi != n) {
            bad = Some(("eof_not_at_end", format!("Eof has span {lo}..{hi} in an input of {n} bytes")));
        } else if !last && lo == hi {
            bad = Some(("empty_token", format!("token {i} {:?} is empty at {lo}", t.kind)));
        } else {
            match &t.kind {
                TK::Ident(name) if *name != text[lo..hi] => {
                    bad = Some(("ident_text", format!("identifier {name:?} is not the source text {:?} of its span", &text[lo..hi])));
                }
                TK::Float(v) if text[lo..hi].parse::<f64>().map(|w| w.to_bits()) != Ok(v.to_bits()) => {
                    bad = Some(("float_value", format!("float {v} is not the value of the source text {:?}", &text[lo..hi])));
                }
                TK::Integer(v) if text[lo..hi].parse::<i64>() != Ok(*v) => {
                    bad = Some(("integer_value", format!("integer {v} is not the value of the source text {:?}", &text[lo..hi])));
                }
                _ => {}
            }
        }
        prev_end = hi;
        if bad.is_some() {
            break;
        }
    }
    if toks.is_empty() {
        bad = Some(("eof_not_last", "tokenize returned no token at all".into()));
    }
    if let Some((kind, what)) = bad {
        viol_once(rep, &format!("neumann_parser::Lexer::next_token/{kind}"), &what, json!({"text": text}));
    }
}

fn lex_case(m: &mut Model, rep: &mut Report, text: &str, stream: &str) -> String {
    let t1 = text.to_string();
    let real = match guarded(move || (np::tokenize(&t1), np::tokenize(&t1))) {
        Ok((a, b)) => {
            if a != b {
                viol_once(rep, "neumann_parser::Lexer::tokenize/nondeterministic", "two runs of tokenize on the same text differ", json!({"text": text}));
            }
            lex_oracles(rep, text, &a);
            for t in &a {
                let tag: String = match &t.kind {
                    np::TokenKind::Error(_) => "error".into(),
                    np::TokenKind::Ident(_) => "ident".into(),
                    np::TokenKind::Integer(_) => "integer".into(),
                    np::TokenKind::Float(_) => "float".into(),
                    np::TokenKind::String(_) => "string".into(),
                    np::TokenKind::Eof => "eof".into(),
                    k if k.is_keyword() => "keyword".into(),
                    _ => "punctuation_or_unlisted_keyword".into(),
                };
                rep.hit(&format!("lex.kind.{tag}"));
            }
            lex_canon(&a)
        }
        Err(p) => {
            viol_once(rep, "neumann_parser::Lexer::tokenize/panic", &format!("tokenize panicked: {p}"), json!({"text": text}));
            format!("panic {p}")
        }
    };
    let model = m.ask(&format!("lex {}", lex_enc(text)));
    rep.case(stream, if text.len() >= 3 { Some(text) } else { None });
    if rep.compare(stream, || json!({"text": text}), &real, &lex_collapse(&model)) {
        for t in model.split(' ').filter_map(|t| t.strip_prefix("err:")) {
            rep.hit(&format!("lex.kind.error.{}", t.split('@').next().unwrap_or("")));
        }
    }
    real
}

const LEX_DIRECTED: &[&str] = &[
    "", " ", "\n", "\t \r\n", "--", "-- c", "-- c\n", "-- c\nx", "- -", "-", "->", "-->", "--->", "a--b\nc", "a - - b",
    "/", "/*", "/* c", "/* c */", "/* a /* b */ c */ x", "/* a /* b */ x", "/*/", "/**/", "/***/", "/*/**/*/1", "*/", "/ *", "a/*b*/c",
    "1", "007", "1.5", "1.", "1.x", ".5", "1..2", "1.5.3", "1e5", "1E+5", "1e-5", "1e", "1e+", "1e-x", "1.5e", "1e5e5", "1.e5", "1x", "1_000",
    "9223372036854775807", "9223372036854775808", "99999999999999999999999999", "0.00000000000000000000001", "1e999", "1e-999",
    "''", "'a'", "'it''s'", "''''", "'''", "'a", "'a\nb'", "'a\\nb'", "'a\\", "'a\\'b'", "'a\\\nb'", "'\\x'", "'\\0\\t\\r\\\\\\\"'", "\"\"", "\"a\"\"b\"",
    "\"a'b\"", "'a\"b'", "'é'", "'\u{1F600}'", "\"unterminated",
    "a", "_", "_a1", "a1b2", "A_b", "é", "aé", "a\u{0663}", "\u{0663}", "a\u{FF11}", "x\u{00B2}", "select", "SELECT", "SeLeCt", "selects", "select1", "_select",
    "de\u{017F}c", "l\u{0131}m\u{0131}t", "pa\u{00DF}es", "\u{017F}elect", "i\u{017F}", "dot_product", "DOTPRODUCT", "dot_Product",
    "+-*/%", "= => ==", "! != !!", "< <= <> << <<<", "> >= >> >>>", "& && &&&", "| || |||", "^~()[]{},.;", ": :: :::", "?@#$", "`", "\\", "\u{00A0}x\u{2028}y\u{3000}",
    "a\u{00A0}b", "a\u{0085}b", "\u{FEFF}a", "\u{200B}a", "1\u{00A0}2",
    "SELECT * FROM t WHERE a<=1.5e3--x\nAND b<>'y'/*z*/;",
    // block comments: star runs of every parity before the closing `*/`, `/` runs before a nested opener, banners,
    // nesting, a comment at the very start / end, the unterminated variants
    "/**/x", "/***/x", "/****/x", "/*****/x", "/******/x", "/*******/x", "/********/x",
    "/* c*/x", "/* c**/x", "/* c***/x", "/* c****/x", "/* c*****/x", "/* c******/x", "/* c *******/x",
    "/* a /* b */ c */x", "/* a //* b */ c */x", "/* a ///* b */ c */x", "/* a ////* b */ c */x", "/* a /////* b */ c */x",
    "/*/* b */ c */x", "/*//* b */ c */x", "/*/ */x", "/*// */x", "/* /*/ */ */x", "/* a **/ b */x", "/* a /** b */ c */x", "/* a /** b **/ c **/x",
    "/*/*/*/*/**/*/*/*/*/x", "/* 1 /* 2 /* 3 /* 4 **/ 3 ***/ 2 ****/ 1 *****/x", "/**** banner ****/x", "/**** x ****/ y /**** z ****/",
    "DELETE FROM t /* only one row **/ WHERE id = 1", "SELECT 1; /**** section ****/ SELECT 2; SELECT 3", "SELECT /* a //* b */ c */ 1",
    "SELECT a /***/ FROM t WHERE id = 1", "x/***/", "x /* c **/", "/* c **/", "/***", "/* a //* b */ c", "/* a **/ b */", "a/***/b/****/c/*****/d",
    "a -- /* x\nb **/ c", "a /* -- **/ b", "a /* ' **/ b", "'/* c **/'", "a /*\n**\n**/ b", "a /* é ß **/ b", "a */ b", "a **/ b", "a //* b", "a / /* c **/ b", "a * /* c **/ * b",
];

const LEX_ALPHABET: &[&str] = &[
    " ", " ", " ", "\n", "\t", "a", "b", "e", "E", "x", "_", "S", "i", "0", "1", "9", ".", ".", "e", "+", "-", "-", "*", "/", "/", "*",
    "'", "'", "\"", "\\", "\\", "n", "=", "<", ">", "!", "&", "|", ":", "(", ")", "[", "]", "{", "}", ",", ";", "?", "@", "#", "$", "^", "~", "%", "`",
    "é", "ß", "\u{017F}", "\u{0131}", "\u{00A0}", "\u{2028}", "\u{3000}", "\u{0085}", "\u{0663}", "\u{FF11}", "\u{4E2D}", "\u{1F600}", "\u{0301}", "\u{200B}",
    "select", "IS", "null", "12", "3.5", "1e", "--", "/*", "*/", "''", "ab",
    "/*", "*/", "**/", "***/", "/**", "//*", "/***/", "*", "/", "/* c */", "/* c **/",
];

fn stream_lex(m: &mut Model, rep: &mut Report, rng: &Rng, thorough: bool) {
    for t in LEX_DIRECTED {
        lex_case(m, rep, t, "lex.directed");
    }
    // every keyword of the table: three spellings are the keyword, a longer word is an identifier
    let mut r = rng.fork("lex.keywords");
    for k in LEX_KEYWORDS {
        let lower = k.to_lowercase();
        let mixed: String = k.chars().map(|c| if r.chance(1, 2) { c.to_ascii_lowercase() } else { c }).collect();
        let text = format!("{k} {lower} {mixed} {k}_ x{lower} {lower}1");
        let real = lex_case(m, rep, &text, "lex.keywords");
        let names: Vec<&str> = real.split(' ').map(|t| t.split('@').next().unwrap_or("")).collect();
        if names.len() != 7 || names[0] != names[1] || names[0] != names[2] || !names[0].starts_with("name:") || names[3..6] != ["ident", "ident", "ident"] {
            viol_once(rep, "neumann_parser::TokenKind::keyword_from_str/case_insensitive_whole_word",
                &format!("`{text}` lexes as {real}: a keyword is recognised case-insensitively and only as a whole word"), json!({"text": text}));
        }
    }
    let mut r = rng.fork("lex.random");
    let n = if thorough { 40000 } else { 4000 };
    for _ in 0..n {
        let len = r.below(24) as usize;
        let mut text = String::new();
        // a third of the texts carry generated block comments (star / slash runs, nesting, sometimes cut short)
        let commented = r.chance(1, 3);
        for _ in 0..len {
            if commented && r.chance(1, 4) {
                let mut c = cmt_gen(&mut r, 3);
                if r.chance(1, 6) {
                    c.pop();
                }
                text.push_str(&c);
                rep.hit("lex.random.generated_comment");
            } else {
                text.push_str(*r.pick(LEX_ALPHABET));
            }
        }
        lex_case(m, rep, &text, "lex.random");
    }
}


// ------------------------------------------------------------------ expression parser on text (Text.lean)

/// replace the byte-offset placeholders of a `ptext` answer by what `sx` prints for the real token there
fn t_expand(ans: &str, text: &str) -> String {
    use np::TokenKind as TK;
    let toks = np::tokenize(text);
    let find = |lo: usize| toks.iter().find(|t| t.span.start.0 as usize == lo);
    let b = ans.as_bytes();
    let mut out = String::new();
    let mut i = 0;
    while i < b.len() {
        let word_start = i == 0 || matches!(b[i - 1], b' ' | b'(' | b'=');
        if word_start {
            let at = b[i] == b'@';
            let j0 = if at { i + 1 } else { i };
            if j0 + 1 < b.len() && matches!(b[j0], b'l' | b'i' | b'k' | b'g') && b[j0 + 1].is_ascii_digit() {
                let mut j = j0 + 1;
                while j < b.len() && b[j].is_ascii_digit() {
                    j += 1;
                }
                if j == b.len() || matches!(b[j], b' ' | b')') {
                    let lo: usize = ans[j0 + 1..j].parse().unwrap();
                    let rep = match (b[j0], at, find(lo).map(|t| &t.kind)) {
                        (b'l', false, Some(TK::Integer(n))) => format!("int:{n}"),
                        (b'l', false, Some(TK::Float(f))) => format!("f64:{:016x}", f.to_bits()),
                        (b'l', false, Some(TK::String(s))) => format!("str:{s:?}"),
                        (b'l', false, Some(TK::True)) => "bool:true".into(),
                        (b'l', false, Some(TK::False)) => "bool:false".into(),
                        (b'i', false, Some(TK::Ident(n))) => format!("id:{n}"),
                        (b'i', true, Some(TK::Ident(n))) => n.clone(),
                        (b'k', false, Some(k)) => format!("id:{}", k.as_str().to_lowercase()),
                        (b'k', true, Some(k)) => k.as_str().to_lowercase(),
                        (b'g', true, Some(k)) => k.as_str().to_string(),
                        _ => format!("?{}", &ans[i..j]),
                    };
                    out.push_str(&rep);
                    i = j;
                    continue;
                }
            }
        }
        out.push(b[i] as char);
        i += 1;
    }
    out
}

fn t_canon_err(e: &np::ParseError, shift: usize) -> String {
    let at = (e.span.start.0 as usize).saturating_sub(shift);
    match &e.kind {
        ParseErrorKind::TooDeep => format!("err too_deep {at}"),
        ParseErrorKind::UnexpectedEof { expected } => format!("err eof {} {at}", exp_word(expected)),
        ParseErrorKind::UnexpectedToken { expected, .. } => format!("err unexpected {} {at}", exp_word(expected)),
        // no discriminator besides the message: one compared token (see `collapse_err`)
        ParseErrorKind::InvalidSyntax(_) => format!("err invalid {at}"),
        other => format!("err other:{} {at}", kind_tag(other)),
    }
}

fn t_has_clause_keyword(text: &str) -> bool {
    np::tokenize(text).iter().any(|t| {
        matches!(t.kind, np::TokenKind::Group | np::TokenKind::Having | np::TokenKind::Order | np::TokenKind::Limit | np::TokenKind::Offset)
    })
}

/// one text through `parse_expr` and through the WHERE clause of the statement parser against `ptext`
fn text_case(m: &mut Model, rep: &mut Report, text: &str, stream: &str) {
    let enc = lex_enc(text);
    let t1 = text.to_string();
    let imp = match guarded(move || np::parse_expr(&t1)) {
        Ok(Ok(e)) => format!("ok {}", sx(&e)),
        Ok(Err(e)) => {
            let at = e.span.start.0 as usize;
            if at > text.len() || !text.is_char_boundary(at) {
                viol_once(rep, "neumann_parser::parse_expr/error_position_outside_input",
                    &format!("error {:?} at byte {at} of a text of {} bytes", e.kind, text.len()), json!({"text": text}));
            }
            t_canon_err(&e, 0)
        }
        Err(p) => {
            viol_once(rep, "neumann_parser::parse_expr/panic", &format!("parse_expr panicked: {p}"), json!({"text": text}));
            format!("panic {p}")
        }
    };
    let model = t_expand(&m.ask(&format!("ptext expr {enc}")), text);
    let s1 = format!("{stream}.expr");
    rep.case(&s1, if text.len() >= 3 { Some(text) } else { None });
    let imp = cmp_parse(rep, &s1, || json!({"text": text}), imp, &model);
    rep.hit(&format!("text.result.{}", f_tag(&imp)));
    // statement parser
    if t_has_clause_keyword(text) {
        rep.hit("text.stmt.skipped_clause_keyword");
        return;
    }
    let smodel = t_expand(&m.ask(&format!("ptext stmt {enc}")), text);
    if smodel == "outside" {
        rep.hit("text.stmt.outside");
        return;
    }
    let full = format!("{STMT_PREFIX}{text}");
    let f2 = full.clone();
    let simp = match guarded(move || np::parse(&f2)) {
        Ok(Ok(st)) => match st.kind {
            StatementKind::Select(s) => match s.where_clause {
                Some(w) => format!("ok {}", sx(&w)),
                None => "ok <no-where>".into(),
            },
            _ => "ok <not-select>".into(),
        },
        Ok(Err(e)) => {
            let at = e.span.start.0 as usize;
            if at > full.len() || !full.is_char_boundary(at) {
                viol_once(rep, "neumann_parser::parse/error_position_outside_input",
                    &format!("error {:?} at byte {at} of a text of {} bytes", e.kind, full.len()), json!({"text": full}));
            }
            t_canon_err(&e, STMT_PREFIX.len())
        }
        Err(p) => {
            viol_once(rep, "neumann_parser::parse/panic", &format!("parse panicked: {p}"), json!({"text": full}));
            format!("panic {p}")
        }
    };
    let s2 = format!("{stream}.stmt");
    rep.case(&s2, None);
    rep.compare(&s2, || json!({"text": full}), &simp, &collapse_err(&smodel));
}

const TEXT_PIECES: &[&str] = &[
    "a", "b1", "_c", "x", "status", "Type", "depth", "count", "SUM", "min", "f", "t", "NULL", "null", "TRUE", "false",
    "1", "23", "4.5", "1e3", "1e", "9223372036854775808", "'s'", "'it''s'", "\"q\"", "'open", "'a\\'b'",
    "+", "-", "*", "/", "%", "=", "!=", "<>", "<", "<=", ">", ">=", "AND", "or", "||", "&", "|", "^", "<<", ">>",
    "NOT", "not", "!", "~", "(", ")", "[", "]", ",", ".", ";", ":", "{", "}", "@", "?", "#",
    "IS", "is", "IN", "in", "BETWEEN", "between", "LIKE", "like", "CASE", "WHEN", "THEN", "ELSE", "END", "DISTINCT",
    "EXISTS", "SELECT", "CAST", "AS", "FROM", "WHERE",
    " ", " ", " ", " ", "  ", "\n", "\t", "-- c\n", "/* c */", "/* a /* b */ c */", "/*", "--",
    "/***/", "/* x **/", "/**** y ****/", "/* a //* b **/ c */", "/*/* /* d */ **/*/", "**/", "//*", "*/",
    "é", "ß", "\u{00A0}", "\u{2028}", "\u{0663}", "\u{1F600}", "\u{017F}", "`", "\\", "&&", "::", "->", "=>",
];

fn stream_text(m: &mut Model, rep: &mut Report, rng: &Rng, thorough: bool) {
    for t in [
        "", " ", "a", "a IS NOT NULL", "- x.y * 2", "f(1,", "a + ) b", "(1).*", "1 'open", "EXISTS (", "EXISTS (SELECT 1)", "x IN (SELECT 1)",
        "CAST(a AS INT)", "a BETWEEN 1 AND 2 * 3", "NOT a NOT LIKE 'p%' OR b", "count(DISTINCT *)", "status.*", "select", "1 +", "1 + é",
        "a /* never closed", "a -- c", "'é' || \"\u{1F600}\"", "a.b.c.*", "i\u{017F} null", "x i\u{017F} null", "[1, [2, (3, 4)], ()]",
        "CASE WHEN a THEN b", "CASE a END", "1e", "1 2", "9223372036854775808", "- 9223372036854775808", "a\u{00A0}+\u{3000}b", "a ORDER BY b",
        "a /* x **/ + b", "a /***/ + b", "a + /**** y ****/ b * c", "a /* p //* q */ r */ + b", "/***/ a", "a /***/", "a /* x **/ IS /* y ***/ NOT /**/ NULL",
        "f(/* 1 **/ a /*2***/, /*/* 3 */**/ b)", "a /* never closed **", "a /* p //* q */ r",
    ] {
        text_case(m, rep, t, "text.directed");
    }
    let mut r = rng.fork("text.pieces");
    let n = if thorough { 30000 } else { 2500 };
    for _ in 0..n {
        let len = r.below(14) as usize;
        let glue = r.chance(1, 3);
        let mut text = String::new();
        for i in 0..len {
            if i > 0 && !glue && r.chance(3, 4) {
                text.push(' ');
            }
            text.push_str(*r.pick(TEXT_PIECES));
        }
        text_case(m, rep, &text, "text.pieces");
    }
    // valid expressions with character-level edits
    let mut r = rng.fork("text.mutant");
    let n = if thorough { 30000 } else { 2500 };
    for _ in 0..n {
        let mut na = 0;
        let depth = 2 + r.below(3) as usize;
        let t = f_gen(&mut r, depth, &mut na);
        let mut pol = Vec::new();
        t.polish(&mut pol);
        let words = words_of(&m.ask(&format!("fprint min {}", pol.join(" "))));
        let fancy = r.chance(1, 4);
        let rd = f_render(&words, &mut r, fancy);
        let mut chars: Vec<char> = rd.text.chars().collect();
        for _ in 0..r.below(3) {
            if chars.is_empty() {
                break;
            }
            let i = r.below(chars.len() as u64) as usize;
            match r.below(4) {
                0 => {
                    chars.remove(i);
                }
                1 => {
                    let p = *r.pick(TEXT_PIECES);
                    for (k, c) in p.chars().enumerate() {
                        chars.insert(i + k, c);
                    }
                }
                2 => chars.truncate(i),
                _ => {
                    let j = r.below(chars.len() as u64) as usize;
                    chars.swap(i, j);
                }
            }
        }
        let text: String = chars.into_iter().collect();
        text_case(m, rep, &text, "text.mutant");
    }
}


// ------------------------------------------------------------------ clause-level grammar of SELECT (Clause.lean)

/// texts of the opaque expression tokens `e<n>`: complete expressions that start with a token that
/// cannot continue a preceding expression (literal, CASE, aggregate, `[`) and do not end in an identifier
const C_EXPRS: &[&str] = &[
    "1", "2 + 3 * 4", "'s' || 'x'", "1.5 < 2 OR c1 = 3", "TRUE AND NOT FALSE", "CASE WHEN c1 THEN 1 ELSE 2 END",
    "1 IN (2, c3)", "2 BETWEEN 1 AND 3", "NULL IS NULL", "3 = f(1, t.c2)", "COUNT(*) > 1", "[1, 2]", "4 - (c1 + c2) * -1",
    "SUM(DISTINCT c4) / 2", "'p%' LIKE 'q' IS NOT NULL", "7 % 2 <> (SELECT_ + 1)", "0 = c9.c8 + 1",
];

fn c_expr_text(n: usize) -> &'static str {
    C_EXPRS[n % C_EXPRS.len()]
}

fn c_render(words: &[String], r: &mut Rng, fancy: bool) -> Rendered {
    let mut text = String::new();
    let mut starts = Vec::new();
    for (i, w) in words.iter().enumerate() {
        if i > 0 {
            text.push_str(sep(r, fancy));
        }
        starts.push(text.len());
        let t: String = match w.as_str() {
            "," | "*" | "(" | ")" | ";" => w.clone(),
            "other" => (*r.pick(&["}", ":", "@", "?", "#", "{"])).into(),
            _ => {
                if let Some(k) = w.strip_prefix('c').and_then(|k| k.parse::<usize>().ok()) {
                    format!("c{k}")
                } else if let Some(k) = w.strip_prefix('e').and_then(|k| k.parse::<usize>().ok()) {
                    c_expr_text(k).to_string()
                } else {
                    match r.below(3) {
                        0 => w.to_uppercase(),
                        1 => w.to_lowercase(),
                        _ => {
                            let mut c = w.to_lowercase();
                            c[..1].make_ascii_uppercase();
                            c
                        }
                    }
                }
            }
        };
        text.push_str(&t);
    }
    Rendered { text, starts }
}

fn c_expand(ans: &str) -> String {
    let b = ans.as_bytes();
    let mut out = String::new();
    let mut i = 0;
    while i < b.len() {
        let word_start = i == 0 || matches!(b[i - 1], b' ' | b'(');
        if word_start && b[i] == b'e' && i + 1 < b.len() && b[i + 1].is_ascii_digit() {
            let mut j = i + 1;
            while j < b.len() && b[j].is_ascii_digit() {
                j += 1;
            }
            if j == b.len() || matches!(b[j], b' ' | b')') {
                let n: usize = ans[i + 1..j].parse().unwrap();
                out.push_str(&np::parse_expr(c_expr_text(n)).map(|e| sx(&e)).unwrap_or_else(|e| format!("<bad-expr:{e}>")));
                i = j;
                continue;
            }
        }
        out.push(b[i] as char);
        i += 1;
    }
    out
}

fn cq_alias(a: &Option<np::Ident>) -> String {
    a.as_ref().map_or("-".to_string(), |i| i.name.clone())
}

fn cq_tref(t: &np::TableRef) -> String {
    match &t.kind {
        np::TableRefKind::Table(n) => format!("(t {} {})", n.name, cq_alias(&t.alias)),
        np::TableRefKind::Subquery(q) => format!("(sub {} {})", cq_sx(q), cq_alias(&t.alias)),
    }
}

/// real `SelectStmt` in the driver's `showCQ` syntax
fn cq_sx(s: &np::SelectStmt) -> String {
    let optx = |e: &Option<Box<np::Expr>>| e.as_ref().map_or("-".to_string(), |e| sx(e));
    let items: String = s.columns.iter().map(|c| format!(" (it {} {})", sx(&c.expr), cq_alias(&c.alias))).collect();
    let src = match &s.from {
        None => "-".to_string(),
        Some(f) => {
            let joins: String = f
                .joins
                .iter()
                .map(|j| {
                    let kind = match j.kind {
                        np::JoinKind::Inner => "inner",
                        np::JoinKind::Left => "left",
                        np::JoinKind::Right => "right",
                        np::JoinKind::Full => "full",
                        np::JoinKind::Cross => "cross",
                        np::JoinKind::Natural => "natural",
                    };
                    let cond = match &j.condition {
                        None => "-".to_string(),
                        Some(np::JoinCondition::On(e)) => format!("(on {})", sx(e)),
                        Some(np::JoinCondition::Using(cs)) => format!("(using{})", cs.iter().map(|c| format!(" {}", c.name)).collect::<String>()),
                    };
                    format!(" (j {kind} {} {cond})", cq_tref(&j.table))
                })
                .collect();
            format!("(from {}{joins})", cq_tref(&f.table))
        }
    };
    let group: String = s.group_by.iter().map(|e| format!(" {}", sx(e))).collect();
    let order: String = s
        .order_by
        .iter()
        .map(|o| {
            format!(
                " (o {} {} {})",
                sx(&o.expr),
                if o.direction == np::SortDirection::Desc { "desc" } else { "asc" },
                match o.nulls {
                    None => "-",
                    Some(np::NullsOrder::First) => "first",
                    Some(np::NullsOrder::Last) => "last",
                }
            )
        })
        .collect();
    format!(
        "(q {} (items{items}) {src} (where {}) (group{group}) (having {}) (order{order}) (limit {}) (offset {}))",
        if s.distinct { "d" } else { "-" },
        optx(&s.where_clause),
        optx(&s.having),
        optx(&s.limit),
        optx(&s.offset)
    )
}

fn c_real(rd: &Rendered) -> String {
    let text = rd.text.clone();
    match guarded(move || np::parse(&text)) {
        Ok(Ok(st)) => match st.kind {
            StatementKind::Select(s) => format!("ok {}", cq_sx(&s)),
            _ => "ok <not-select>".into(),
        },
        Ok(Err(e)) => canon_err(&e, rd),
        Err(p) => format!("panic {p}"),
    }
}

fn c_case(m: &mut Model, rep: &mut Report, r: &mut Rng, words: &[String], stream: &str) -> String {
    let fancy = r.chance(1, 6);
    let rd = c_render(words, r, fancy);
    let line = words.join(" ");
    let imp = c_real(&rd);
    let model = c_expand(&m.ask(&format!("clause {line}")));
    if model == "outside" {
        rep.hit("clause.outside");
        return imp;
    }
    rep.case(stream, if words.len() >= 4 { Some(&rd.text) } else { None });
    let imp = cmp_parse(rep, stream, || json!({"text": rd.text, "tokens": line}), imp, &model);
    rep.hit(&format!("clause.result.{}", f_tag(&imp).replace("SELECT", "select_kw")));
    imp
}

/// generated `SelectStmt` of the clause-level grammar, with its tokens (in a random spelling) and the
/// expected answer written independently of the model
struct CGen {
    n: usize,
}

impl CGen {
    fn fresh(&mut self) -> usize {
        self.n += 1;
        self.n
    }
    fn xe(&mut self, r: &mut Rng, words: &mut Vec<String>) -> String {
        let k = self.fresh();
        match r.below(6) {
            0 => {
                words.push(format!("c{k}"));
                format!("id:c{k}")
            }
            1 => {
                words.push("*".into());
                "*".into()
            }
            _ => {
                words.push(format!("e{k}"));
                format!("e{k}")
            }
        }
    }
    fn alias(&mut self, r: &mut Rng, words: &mut Vec<String>) -> String {
        match r.below(3) {
            0 => "-".into(),
            1 => {
                let k = self.fresh();
                words.push("as".into());
                words.push(format!("c{k}"));
                format!("c{k}")
            }
            _ => {
                let k = self.fresh();
                words.push(format!("c{k}"));
                format!("c{k}")
            }
        }
    }
    fn tref(&mut self, r: &mut Rng, depth: usize, words: &mut Vec<String>) -> String {
        if depth > 0 && r.chance(1, 3) {
            words.push("(".into());
            let q = self.q(r, depth - 1, words);
            words.push(")".into());
            let a = self.alias(r, words);
            format!("(sub {q} {a})")
        } else {
            let k = self.fresh();
            words.push(format!("c{k}"));
            let a = self.alias(r, words);
            format!("(t c{k} {a})")
        }
    }
    fn q(&mut self, r: &mut Rng, depth: usize, words: &mut Vec<String>) -> String {
        words.push("select".into());
        let d = match r.below(4) {
            0 => {
                words.push("distinct".into());
                "d"
            }
            1 => {
                words.push("all".into());
                "-"
            }
            _ => "-",
        };
        let mut items = String::new();
        for i in 0..1 + r.below(3) {
            if i > 0 {
                words.push(",".into());
            }
            let x = self.xe(r, words);
            // `*` directly followed by an implicit alias is fine; an identifier expression followed by `(` is not generated
            let a = self.alias(r, words);
            items.push_str(&format!(" (it {x} {a})"));
        }
        let src = if r.chance(3, 4) {
            words.push("from".into());
            let t = self.tref(r, depth, words);
            let mut joins = String::new();
            for _ in 0..r.below(3) {
                let (kw, kind): (&[&str], &str) = match r.below(10) {
                    0 => (&["cross", "join"], "cross"),
                    1 => (&["natural", "join"], "natural"),
                    2 => (&["inner", "join"], "inner"),
                    3 => (&["join"], "inner"),
                    4 => (&["left", "join"], "left"),
                    5 => (&["left", "outer", "join"], "left"),
                    6 => (&["right", "join"], "right"),
                    7 => (&["right", "outer", "join"], "right"),
                    8 => (&["full", "join"], "full"),
                    _ => (&["full", "outer", "join"], "full"),
                };
                words.extend(kw.iter().map(|s| s.to_string()));
                let jt = self.tref(r, depth, words);
                let cond = match r.below(3) {
                    0 => "-".to_string(),
                    1 => {
                        words.push("on".into());
                        format!("(on {})", self.xe(r, words))
                    }
                    _ => {
                        words.push("using".into());
                        words.push("(".into());
                        let mut cs = String::new();
                        for i in 0..1 + r.below(3) {
                            if i > 0 {
                                words.push(",".into());
                            }
                            let k = self.fresh();
                            words.push(format!("c{k}"));
                            cs.push_str(&format!(" c{k}"));
                        }
                        words.push(")".into());
                        format!("(using{cs})")
                    }
                };
                joins.push_str(&format!(" (j {kind} {jt} {cond})"));
            }
            format!("(from {t}{joins})")
        } else {
            "-".to_string()
        };
        let opt = |me: &mut CGen, r: &mut Rng, kw: &[&str], words: &mut Vec<String>| -> String {
            if r.chance(1, 3) {
                words.extend(kw.iter().map(|s| s.to_string()));
                me.xe(r, words)
            } else {
                "-".into()
            }
        };
        let whr = opt(self, r, &["where"], words);
        let mut group = String::new();
        if r.chance(1, 3) {
            words.push("group".into());
            words.push("by".into());
            for i in 0..1 + r.below(3) {
                if i > 0 {
                    words.push(",".into());
                }
                group.push_str(&format!(" {}", self.xe(r, words)));
            }
        }
        let having = opt(self, r, &["having"], words);
        let mut order = String::new();
        if r.chance(1, 3) {
            words.push("order".into());
            words.push("by".into());
            for i in 0..1 + r.below(3) {
                if i > 0 {
                    words.push(",".into());
                }
                let x = self.xe(r, words);
                let dir = match r.below(3) {
                    0 => {
                        words.push("desc".into());
                        "desc"
                    }
                    1 => {
                        words.push("asc".into());
                        "asc"
                    }
                    _ => "asc",
                };
                let nulls = match r.below(3) {
                    0 => {
                        words.push("nulls".into());
                        words.push("first".into());
                        "first"
                    }
                    1 => {
                        words.push("nulls".into());
                        words.push("last".into());
                        "last"
                    }
                    _ => "-",
                };
                order.push_str(&format!(" (o {x} {dir} {nulls})"));
            }
        }
        let limit = opt(self, r, &["limit"], words);
        let offset = opt(self, r, &["offset"], words);
        format!("(q {d} (items{items}) {src} (where {whr}) (group{group}) (having {having}) (order{order}) (limit {limit}) (offset {offset}))")
    }
}

/// `*` or an identifier expression directly followed by an alias / `(` can leave the model's domain;
/// the generator avoids the one shape that does (`c1 (`) by construction, `* *` cannot occur.
const C_DIRECTED: &[&str] = &[
    "select *", "select * ;", "; ; select * ; other", "select", "select ,", "select * ,", "select e1 as", "select e1 as e2", "select e1 as c2 c3",
    "select e1 c2 , c3 c4 , * c5", "select distinct all e1", "select all distinct", "select all e1 from c1", "select e1 from", "select e1 from e2",
    "select e1 from c1 as", "select e1 from c1 as c2 c3", "select e1 from c1 c2 where e3", "select e1 from ( select e2 ) c3", "select e1 from ( select e2",
    "select e1 from ( c1 )", "select e1 from ( select e2 ) as", "select e1 from c1 join c2", "select e1 from c1 inner c2", "select e1 from c1 cross",
    "select e1 from c1 left outer c2", "select e1 from c1 left outer join c2 on", "select e1 from c1 outer join c2", "select e1 from c1 natural join c2 using",
    "select e1 from c1 join c2 using (", "select e1 from c1 join c2 using ( )", "select e1 from c1 join c2 using ( c3 ,", "select e1 from c1 join c2 using ( c3 , e4 )",
    "select e1 from c1 join c2 using ( c3 c4 )", "select e1 from c1 join c2 on e3 on e4", "select e1 from c1 join c2 using ( c3 ) on e4",
    "select e1 from c1 full join ( select * from c2 right join c3 ) c4 on e5 cross join c6", "select e1 where", "select e1 where e2 where e3",
    "select e1 group e2", "select e1 group by", "select e1 group by e2 ,", "select e1 group by e2 , c3 having", "select e1 having e2 group by e3",
    "select e1 order by e2 desc asc", "select e1 order by e2 nulls", "select e1 order by e2 nulls c3", "select e1 order by e2 asc nulls last , e3 nulls first",
    "select e1 limit", "select e1 offset e2 limit e3", "select e1 limit e2 offset e3 other", "select e1 limit e2 , e3", "select c1 ( e2 )", "select * * e1",
    "select ( e1 )", "select e1 from c1 where e2 group by e3 having e4 order by e5 limit e6 offset e7 ;", "other select e1", "select other",
];

fn c_chain_words(levels: usize, join_every: usize, closed: bool) -> Vec<String> {
    // SELECT e1 FROM ( SELECT e1 FROM … ) with every `join_every`-th level entered through a JOIN's table reference
    let mut words: Vec<String> = Vec::new();
    let mut closers: Vec<Vec<&str>> = Vec::new();
    for i in 0..levels {
        words.extend(["select", "e1", "from"].iter().map(|s| s.to_string()));
        if join_every > 0 && i % join_every == join_every - 1 {
            words.extend(["c1", "left", "join"].iter().map(|s| s.to_string()));
            closers.push(vec![")", "on", "e2"]);
        } else {
            closers.push(vec![")", "c3"]);
        }
        words.push("(".into());
    }
    words.extend(["select", "*"].iter().map(|s| s.to_string()));
    if closed {
        while let Some(c) = closers.pop() {
            words.extend(c.iter().map(|s| s.to_string()));
        }
    }
    words
}

fn stream_clause(m: &mut Model, rep: &mut Report, rng: &Rng, thorough: bool) {
    let mut r = rng.fork("clause");
    for line in C_DIRECTED {
        c_case(m, rep, &mut r, &words_of(line), "clause.directed");
    }
    for levels in 60..=67usize {
        for join_every in [0usize, 1, 3] {
            for closed in [true, false] {
                let imp = c_case(m, rep, &mut r, &c_chain_words(levels, join_every, closed), "clause.chain");
                rep.hit(&format!("clause.chain.{}", f_tag(&imp)));
            }
        }
    }
    let n = if thorough { 20000 } else { 1500 };
    for _ in 0..n {
        let mut g = CGen { n: 0 };
        let mut words = Vec::new();
        let depth = r.below(4) as usize;
        let want = g.q(&mut r, depth, &mut words);
        if r.chance(1, 4) {
            words.push(";".into());
        }
        let imp = c_case(m, rep, &mut r, &words, "clause.trees");
        let want = c_expand(&format!("ok {want}"));
        if imp != want {
            viol_once(rep, "neumann_parser::Parser::parse_select_body/clause_structure",
                &format!("a generated SELECT does not parse to its own structure: got {imp}, want {want}"),
                json!({"tokens": words.join(" ")}));
        }
    }
    let alphabet: Vec<&str> = vec![
        "select", "distinct", "all", ",", "as", "*", "from", "(", ")", "join", "inner", "left", "right", "full", "outer", "cross", "natural",
        "on", "using", "where", "group", "by", "having", "order", "asc", "desc", "nulls", "first", "last", "limit", "offset", ";", "other",
    ];
    let n = if thorough { 30000 } else { 2500 };
    for _ in 0..n {
        let mut g = CGen { n: 0 };
        let mut words = Vec::new();
        let depth = r.below(3) as usize;
        g.q(&mut r, depth, &mut words);
        for _ in 0..1 + r.below(3) {
            if words.is_empty() {
                break;
            }
            let i = r.below(words.len() as u64) as usize;
            match r.below(5) {
                0 => {
                    words.remove(i);
                }
                1 => {
                    let w = match r.below(4) {
                        0 => format!("c{}", r.below(9)),
                        1 => format!("e{}", r.below(9)),
                        _ => (*r.pick(&alphabet)).to_string(),
                    };
                    words.insert(i, w);
                }
                2 => words.truncate(i),
                3 => {
                    let j = r.below(words.len() as u64) as usize;
                    words.swap(i, j);
                }
                _ => words[i] = (*r.pick(&alphabet)).to_string(),
            }
        }
        c_case(m, rep, &mut r, &words, "clause.mutant");
    }
    let n = if thorough { 20000 } else { 1500 };
    for _ in 0..n {
        let len = r.below(12) as usize;
        let mut words: Vec<String> = vec!["select".into()];
        for _ in 0..len {
            words.push(match r.below(5) {
                0 => format!("c{}", r.below(9)),
                1 => format!("e{}", r.below(9)),
                _ => (*r.pick(&alphabet)).to_string(),
            });
        }
        c_case(m, rep, &mut r, &words, "clause.soup");
    }
}

// ------------------------------------------------------------------ comments are not part of the meaning
//
// Metamorphic property oracle on the REAL lexer / parser, independent of the model's answers: for a statement
// text S and the text S' obtained from it by inserting well-nested block comments (or blank + line comment +
// newline) in front of tokens, `tokenize(S')` is `tokenize(S)` with the spans shifted by the inserted bytes,
// `parse(S')` is `parse(S)` up to spans and `parse_all(S')` has the same statements.  "Well nested" is decided by
// `cmt_ref_end`, a scanner written from the MODEL's `skip (.block k)` (Parse/Lex.lean; `LexProps.WellNested`
// is the inductive form, `block_comment_is_trivia` the theorem), never by the lexer under test.

const CMT_CLASS: &str = "neumann_parser::Lexer::skip_whitespace_and_comments/comment_changes_meaning";
const CMT_LINE_CLASS: &str = "neumann_parser::Lexer::skip_whitespace_and_comments/line_comment_changes_meaning";

/// `cs[i..]` starts with `/*`: the index just after the `*/` that closes it, by the model's rule (a `/*` inside
/// opens a nested comment, both two-character marks are recognised by look-ahead and consumed as a pair,
/// every other character is skipped alone); `None` when the comment runs to the end of the text
fn cmt_ref_end(cs: &[char], i: usize) -> Option<usize> {
    if !(i + 1 < cs.len() && cs[i] == '/' && cs[i + 1] == '*') {
        return None;
    }
    let mut j = i + 2;
    let mut k = 0usize;
    while j < cs.len() {
        if j + 1 < cs.len() && cs[j] == '/' && cs[j + 1] == '*' {
            k += 1;
            j += 2;
        } else if j + 1 < cs.len() && cs[j] == '*' && cs[j + 1] == '/' {
            j += 2;
            if k == 0 {
                return Some(j);
            }
            k -= 1;
        } else {
            j += 1;
        }
    }
    None
}

fn cmt_well_nested(c: &str) -> bool {
    let cs: Vec<char> = c.chars().collect();
    cmt_ref_end(&cs, 0) == Some(cs.len())
}

/// a well-nested block comment of the adversarial shapes: star runs (length 1..6, so both parities) directly
/// before the closing `*/` and elsewhere, `/` runs directly before a nested opener and elsewhere, nesting up to
/// `depth` levels, banners, line-comment and quote marks, newlines and non-ASCII inside
fn cmt_gen(r: &mut Rng, depth: usize) -> String {
    #[derive(PartialEq, Clone, Copy)]
    enum End {
        Neutral,
        Star,
        Slash,
    }
    fn body(r: &mut Rng, depth: usize, out: &mut String) {
        let mut end = End::Neutral;
        let fill = |r: &mut Rng, out: &mut String| out.push_str(*r.pick(&[" ", " ", "x", "\n", "-", "é"]));
        let n = r.below(5);
        for _ in 0..n {
            match r.below(12) {
                0 | 1 | 2 => {
                    if end == End::Slash {
                        fill(r, out);
                    }
                    for _ in 0..1 + r.below(6) {
                        out.push('*');
                    }
                    end = End::Star;
                }
                3 | 4 => {
                    if end == End::Star {
                        fill(r, out);
                    }
                    for _ in 0..1 + r.below(3) {
                        out.push('/');
                    }
                    end = End::Slash;
                }
                5 | 6 | 7 if depth > 0 => {
                    // a nested comment, half of the time with a `/` run directly before its opener
                    if end == End::Star {
                        fill(r, out);
                    }
                    if r.chance(1, 2) {
                        for _ in 0..1 + r.below(3) {
                            out.push('/');
                        }
                    }
                    out.push_str("/*");
                    body(r, depth - 1, out);
                    out.push_str("*/");
                    end = End::Neutral;
                }
                8 => {
                    out.push_str(*r.pick(&[" banner ", " only one row ", " -- ", " ' ", " \" ", "\n", " é ", " a * b ", " a / b ", " ; "]));
                    end = End::Neutral;
                }
                _ => {
                    out.push_str(*r.pick(&[" ", "x", " c ", "1", "\t"]));
                    end = End::Neutral;
                }
            }
        }
        // what stands directly before the closing `*/`: a star run (half of the time), or whatever came last
        if r.chance(1, 2) {
            if end == End::Slash {
                fill(r, out);
            }
            for _ in 0..1 + r.below(6) {
                out.push('*');
            }
        } else if end == End::Slash {
            fill(r, out);
        }
    }
    let mut out = String::from("/*");
    body(r, depth, &mut out);
    out.push_str("*/");
    if cmt_well_nested(&out) {
        out
    } else {
        // cannot happen by construction; never hand a text to the oracle that the reference scanner rejects
        "/* c */".to_string()
    }
}

/// `Debug` text with every byte position blanked: the AST / error "up to spans"
fn cmt_strip_spans(dbg: &str) -> String {
    let mut out = String::with_capacity(dbg.len());
    let mut rest = dbg;
    while let Some(i) = rest.find("BytePos(") {
        out.push_str(&rest[..i + 8]);
        out.push('_');
        let after = &rest[i + 8..];
        let j = after.find(')').unwrap_or(after.len());
        rest = &after[j..];
    }
    out.push_str(rest);
    out
}

/// what the real lexer and parser make of a text: (kind, source text, lo, hi) of every token, `parse`, `parse_all`
struct CmtView {
    toks: Vec<(String, String, usize, usize)>,
    parse: String,
    all: Vec<String>,
    all_err: Option<String>,
}

fn cmt_view(text: &str) -> std::result::Result<CmtView, String> {
    let t = text.to_string();
    guarded(move || {
        let toks = np::tokenize(&t)
            .into_iter()
            .map(|k| {
                let (lo, hi) = (k.span.start.0 as usize, k.span.end.0 as usize);
                (format!("{:?}", k.kind), t.get(lo..hi).unwrap_or("<span outside the text>").to_string(), lo, hi)
            })
            .collect();
        let parse = cmt_strip_spans(&format!("{:?}", np::parse(&t)));
        let (all, all_err) = match np::parse_all(&t) {
            Ok(v) => (v.iter().map(|s| cmt_strip_spans(&format!("{s:?}"))).collect(), None),
            Err(e) => (Vec::new(), Some(cmt_strip_spans(&format!("{e:?}")))),
        };
        CmtView { toks, parse, all, all_err }
    })
}

/// one insertion: `text` goes directly in front of token `at` of S (`at` = index of `Eof`: at the very end)
#[derive(Clone, Debug)]
struct CmtIns {
    at: usize,
    text: String,
}

fn cmt_apply(s: &str, starts: &[usize], ins: &[CmtIns]) -> String {
    let mut out = String::with_capacity(s.len() + ins.iter().map(|i| i.text.len()).sum::<usize>());
    let mut prev = 0usize;
    for (i, st) in starts.iter().enumerate() {
        out.push_str(&s[prev..*st]);
        prev = *st;
        for k in ins.iter().filter(|k| k.at == i) {
            out.push_str(&k.text);
        }
    }
    out.push_str(&s[prev..]);
    out
}

/// `None` when S' means what S means; otherwise what differs
fn cmt_diff(base: &CmtView, s: &str, starts: &[usize], ins: &[CmtIns]) -> Option<String> {
    let s2 = cmt_apply(s, starts, ins);
    let v = match cmt_view(&s2) {
        Ok(v) => v,
        Err(p) => return Some(format!("the commented text makes the parser panic: {p}")),
    };
    if v.toks.len() != base.toks.len() {
        let i = (0..v.toks.len().min(base.toks.len()))
            .find(|i| v.toks[*i].0 != base.toks[*i].0 || v.toks[*i].1 != base.toks[*i].1)
            .unwrap_or(v.toks.len().min(base.toks.len()) - 1);
        return Some(format!(
            "tokenize gives {} tokens instead of {}; token {i} is {} {:?} instead of {} {:?}",
            v.toks.len(), base.toks.len(), v.toks[i].0, v.toks[i].1, base.toks[i].0, base.toks[i].1
        ));
    }
    let mut shift = 0usize;
    for (i, (a, b)) in v.toks.iter().zip(base.toks.iter()).enumerate() {
        shift += ins.iter().filter(|k| k.at == i).map(|k| k.text.len()).sum::<usize>();
        if a.0 != b.0 || a.1 != b.1 {
            return Some(format!("token {i} is {:?} {:?} instead of {:?} {:?}", a.0, a.1, b.0, b.1));
        }
        if a.2 != b.2 + shift || a.3 != b.3 + shift {
            return Some(format!("token {i} {:?} has span {}..{} instead of {}..{} (its span without comments {}..{} plus {shift} inserted bytes)",
                a.0, a.2, a.3, b.2 + shift, b.3 + shift, b.2, b.3));
        }
    }
    if v.parse != base.parse {
        return Some(format!("parse gives {} instead of {}", v.parse, base.parse));
    }
    if v.all.len() != base.all.len() || v.all_err != base.all_err {
        return Some(format!("parse_all gives {} statements / error {:?} instead of {} statements / error {:?}", v.all.len(), v.all_err, base.all.len(), base.all_err));
    }
    for (i, (a, b)) in v.all.iter().zip(base.all.iter()).enumerate() {
        if a != b {
            return Some(format!("statement {i} of parse_all is {a} instead of {b}"));
        }
    }
    None
}

/// is this insertion text one the property speaks about: a well-nested block comment, or blank + `--` line
/// comment + newline, possibly with blanks around
fn cmt_legal(text: &str) -> bool {
    let t = text.trim_matches(' ');
    if t.starts_with("--") {
        return text.starts_with(' ') && t.ends_with('\n') && !t[..t.len() - 1].contains('\n');
    }
    cmt_well_nested(t)
}

/// the oracle: evaluate, and on failure shrink to the fewest insertion points and the shortest comment texts
fn cmt_case(rep: &mut Report, stream: &str, s: &str, ins: &[CmtIns]) -> bool {
    let base = match cmt_view(s) {
        Ok(v) => v,
        Err(p) => {
            viol_once(rep, "neumann_parser::parse/panic", &format!("parser panicked on a comment-free text: {p}"), json!({"text": s}));
            return false;
        }
    };
    let starts: Vec<usize> = base.toks.iter().map(|t| t.2).collect();
    debug_assert!(ins.iter().all(|k| k.at < starts.len() && cmt_legal(&k.text)));
    let ins: Vec<CmtIns> = ins.iter().filter(|k| k.at < starts.len() && cmt_legal(&k.text)).cloned().collect();
    rep.case(stream, Some(&cmt_apply(s, &starts, &ins)));
    rep.hit(&format!("cmt.points.{}", match ins.len() { 0 => "0", 1 => "1", 2..=3 => "2-3", _ => "4+" }));
    if ins.len() + 1 >= starts.len() && starts.len() > 2 {
        rep.hit("cmt.points.before_every_token");
    }
    if ins.iter().any(|k| k.at == 0) {
        rep.hit("cmt.at_very_start");
    }
    if ins.iter().any(|k| k.at + 1 == starts.len()) {
        rep.hit("cmt.at_very_end");
    }
    let Some(first_what) = cmt_diff(&base, s, &starts, &ins) else {
        return true;
    };
    // fewest insertion points
    let mut fails = |cand: &[CmtIns]| cmt_diff(&base, s, &starts, cand).is_some();
    let mut min = shrink_list(&ins, &mut fails);
    // shortest comment texts (still of the shapes the property speaks about)
    for i in 0..min.len() {
        let chars: Vec<char> = min[i].text.chars().collect();
        let mut probe = min.clone();
        let mut keep = |cand: &[char]| {
            let t: String = cand.iter().collect();
            if !cmt_legal(&t) {
                return false;
            }
            probe[i].text = t;
            cmt_diff(&base, s, &starts, &probe).is_some()
        };
        let small = shrink_list(&chars, &mut keep);
        min[i].text = small.into_iter().collect();
    }
    let what = cmt_diff(&base, s, &starts, &min).unwrap_or(first_what);
    let line = min.iter().all(|k| k.text.trim_matches(' ').starts_with("--"));
    let s2 = cmt_apply(s, &starts, &min);
    viol_once(
        rep,
        if line { CMT_LINE_CLASS } else { CMT_CLASS },
        &format!("inserting {} in front of token {} of `{s}` changes what the text means: {what}",
            min.iter().map(|k| format!("{:?}", k.text)).collect::<Vec<_>>().join(", "),
            min.iter().map(|k| k.at.to_string()).collect::<Vec<_>>().join(", ")),
        json!({"text": s2, "without_comments": s, "comments": min.iter().map(|k| k.text.clone()).collect::<Vec<_>>(),
               "in_front_of_token": min.iter().map(|k| k.at).collect::<Vec<_>>()}),
    );
    false
}

/// statement texts of every family (no comments in them), single statements and scripts
fn cmt_statement(r: &mut Rng, m: &mut Model) -> String {
    match r.below(10) {
        0 | 1 | 2 | 3 => (*r.pick(VALID)).to_string(),
        4 | 5 => {
            // a script for parse_all
            let n = 2 + r.below(3) as usize;
            (0..n).map(|_| *r.pick(VALID)).collect::<Vec<_>>().join(if r.chance(1, 2) { "; " } else { ";" })
        }
        6 => (*r.pick(&[
            "DELETE FROM t WHERE id = 1", "UPDATE t SET a = 1 WHERE id = 2", "SELECT a FROM t WHERE id = 1", "SELECT 1; SELECT 2; SELECT 3",
            "SELECT a/b*c-d FROM t WHERE x<=1.5e3 AND y<>'s''s'", "SELECT a - -b, c->d, e::f FROM t",
        ])).to_string(),
        _ => {
            // a generated expression of the complete grammar in a WHERE clause (spelling chosen by the renderer, no comments)
            let mut na = 0;
            let depth = 1 + r.below(3) as usize;
            let t = f_gen(r, depth, &mut na);
            let mut pol = Vec::new();
            t.polish(&mut pol);
            let words = words_of(&m.ask(&format!("fprint min {}", pol.join(" "))));
            let rd = f_render(&words, r, false);
            match r.below(3) {
                0 => format!("{STMT_PREFIX}{}", rd.text),
                1 => format!("DELETE FROM t WHERE {}", rd.text),
                _ => format!("UPDATE t SET a = 1 WHERE {}", rd.text),
            }
        }
    }
}

/// the comment shapes every directed statement is run with
fn cmt_directed_shapes() -> Vec<String> {
    let mut v: Vec<String> = Vec::new();
    // the bodies of the regression's demonstration
    for b in ["", " plain ", "*", "**", "***", " banner ****", " doc-style **", " a * b ", " a / b ", " a // b ",
        " nested /* inner */ outer ", " nested /* inner **/ outer *", " only one row *", "*** section ***", " a //* b */ c "] {
        v.push(format!("/*{b}*/"));
    }
    // star runs of length 0..6 directly before the closing mark, alone and after text, and before an inner closing mark
    for k in 0..=6 {
        let stars = "*".repeat(k);
        v.push(format!("/*{stars}*/"));
        v.push(format!("/* c{stars}*/"));
        v.push(format!("/* a /* b {stars}*/ c */"));
        v.push(format!("/*{stars} c */"));
    }
    // `/` runs of length 0..4 directly before a nested opener, and directly after the outer opener
    for k in 0..=4 {
        let sl = "/".repeat(k);
        v.push(format!("/* a {sl}/* b */ c */"));
        v.push(format!("/*{sl}/* b */ c */"));
        v.push(format!("/*{sl} c */"));
    }
    // nesting depth 0..4, plain and with star runs of growing length before every closing mark
    for d in 0..=4usize {
        let mut plain = String::new();
        let mut starred = String::new();
        for i in 0..=d {
            plain.push_str("/* ");
            plain.push_str(&i.to_string());
            starred.push_str(if i % 2 == 1 { "//* " } else { "/* " });
        }
        for i in 0..=d {
            plain.push_str(" */");
            starred.push_str(&"*".repeat(i + 1));
            starred.push_str("*/");
        }
        v.push(plain);
        v.push(starred);
    }
    // the shapes the renderers put between tokens
    for c in ["/* c */", "/* a /* nested */ b */", "/* x **/", "/***/", "/**** banner ****/", "/* a //* b **/ c ***/", "/*/* /* d */ **/*/", "/*\n**\n**/", "/* -- **/", "/* ' **/"] {
        v.push(c.to_string());
    }
    v
}

fn cmt_directed(m: &mut Model, rep: &mut Report) {
    let shapes = cmt_directed_shapes();
    // the reference scanner and the model agree on what a well-nested comment is: after `c` the model lexes `x`
    for c in &shapes {
        let n = c.len();
        let expected = if cmt_well_nested(c) { format!("ident@{n}-{} eof@{}-{}", n + 1, n + 1, n + 1) } else { "not a well-nested comment".to_string() };
        let model = m.ask(&format!("lex {}", lex_enc(&format!("{c}x"))));
        rep.case("cmt.reference_scanner_vs_model", Some(c));
        rep.compare("cmt.reference_scanner_vs_model", || json!({"comment": c}), &expected, &lex_collapse(&model));
    }
    // the regression's own four demonstrations first
    for (s, at, c) in [
        ("DELETE FROM t WHERE id = 1", 3usize, "/* only one row **/"),
        ("SELECT 1; SELECT 2; SELECT 3", 3, "/**** section ****/"),
        ("SELECT 1", 1, "/* a //* b */ c */"),
        ("SELECT a FROM t WHERE id = 1", 2, "/***/"),
    ] {
        cmt_case(rep, "cmt.directed", s, &[CmtIns { at, text: c.to_string() }]);
        cmt_case(rep, "cmt.directed", s, &[CmtIns { at, text: format!(" {c} ") }]);
    }
    // every shape in front of every token of a DELETE / a script, one point at a time, then in front of all at once
    for s in ["DELETE FROM t WHERE id = 1", "SELECT 1; SELECT 2; SELECT 3", "SELECT a/b*c FROM t WHERE x<=-1"] {
        let ntok = np::tokenize(s).len();
        for c in &shapes {
            for at in 0..ntok {
                cmt_case(rep, "cmt.directed", s, &[CmtIns { at, text: c.clone() }]);
            }
            let all: Vec<CmtIns> = (0..ntok).map(|at| CmtIns { at, text: c.clone() }).collect();
            cmt_case(rep, "cmt.directed", s, &all);
        }
        for at in 0..ntok {
            cmt_case(rep, "cmt.directed", s, &[CmtIns { at, text: " -- c\n".to_string() }]);
            cmt_case(rep, "cmt.directed", s, &[CmtIns { at, text: " --\n".to_string() }]);
            cmt_case(rep, "cmt.directed", s, &[CmtIns { at, text: " -- /* **/ ' \n".to_string() }]);
        }
    }
}

fn stream_comments(m: &mut Model, rep: &mut Report, rng: &Rng, thorough: bool) {
    let mut r = rng.fork("cmt.random");
    let n = if thorough { 40000 } else { 4000 };
    for i in 0..n {
        let s = cmt_statement(&mut r, m);
        let ntok = match guarded({ let s = s.clone(); move || np::tokenize(&s).len() }) {
            Ok(n) => n,
            Err(_) => continue,
        };
        let line_only = r.chance(1, 8);
        let one = |r: &mut Rng| -> String {
            if line_only || r.chance(1, 8) {
                format!(" --{}\n", *r.pick(&["", " c", " /* x", " **/ '", "- -", " é"]))
            } else {
                let c = cmt_gen(r, 4);
                match r.below(4) {
                    0 => format!(" {c} "),
                    1 => format!(" {c}"),
                    _ => c,
                }
            }
        };
        let mut ins = Vec::new();
        match r.below(6) {
            0 | 1 => ins.push(CmtIns { at: r.below(ntok as u64) as usize, text: one(&mut r) }),
            2 => {
                for _ in 0..2 + r.below(3) {
                    ins.push(CmtIns { at: r.below(ntok as u64) as usize, text: one(&mut r) });
                }
            }
            3 => ins.push(CmtIns { at: if r.chance(1, 2) { 0 } else { ntok - 1 }, text: one(&mut r) }),
            _ => {
                // a comment between every pair of tokens (and at both ends)
                for at in 0..ntok {
                    ins.push(CmtIns { at, text: one(&mut r) });
                }
            }
        }
        let stream = if line_only { "cmt.random.line" } else { "cmt.random" };
        let ok = cmt_case(rep, stream, &s, &ins);
        // the commented text through the lexer model as well (correspondence), on a sample
        if ok && i % 8 == 0 {
            let starts: Vec<usize> = np::tokenize(&s).iter().map(|t| t.span.start.0 as usize).collect();
            let s2 = cmt_apply(&s, &starts, &ins);
            if s2.chars().count() <= 400 {
                lex_case(m, rep, &s2, "lex.commented");
            }
        }
    }
}

// ------------------------------------------------------------------ a string literal means what was written
//
// Property oracle on the REAL lexer / parser / router, independent of the model's answers: what a string
// literal MEANS.  For a string VALUE v and a delimiter q, `str_render(v, q)` is the canonical literal (the
// delimiter doubled, a backslash doubled, a newline as `\n`, every other character — the quote of the OTHER
// kind included, alone or in runs — as it is; written from the MODEL's `renderCp`, Parse/Lex.lean;
// `LexStrProps.string_literal_round_trip` is the theorem).  Then, layer by layer:
//   1. lexer   tokenize(literal) is exactly one String token with value v spanning the literal, then Eof;
//              the same inside a statement, the neighbouring tokens untouched
//   2. parser  the literal of the parsed INSERT statement is v
//   3. router  (third clause of C15) INSERT … VALUES (k, literal) as text on A, RelationalEngine::insert with v on
//              B: the value read back by SELECT through the text path on A, and by the direct call on B, is v;
//              SELECT … WHERE v = literal' (the OTHER delimiter) finds the rows the direct call finds; UPDATE …
//              SET v = literal''; NODE CREATE doc {body: literal} against GraphEngine::create_node.
// The class is the FIRST layer that fails.  `str_ref_value` (written from the model's `litValue`) gives the
// meaning of arbitrary bodies, canonical or not (`\'`, `\"`, `\\`, unknown escapes): the strlit.body stream.
// strlit.reference_vs_model keeps the two reference functions equal to the Lean definitions.

const STR_LEX_CLASS: &str = "neumann_parser::Lexer::scan_string/string_value_differs_from_written";
const STR_PARSE_CLASS: &str = "neumann_parser::Parser::parse/string_literal_differs_from_its_token";
const STR_EXEC_CLASS: &str = "query_router::QueryRouter::execute_parsed/string_value_differs_from_direct_call";

/// the canonical literal for the value `v` with delimiter `q` (model: `q :: litRender q v ++ [q]`)
fn str_render(v: &str, q: char) -> String {
    let mut out = String::with_capacity(v.len() + 4);
    out.push(q);
    for c in v.chars() {
        if c == q {
            out.push(q);
            out.push(q);
        } else if c == '\\' {
            out.push_str("\\\\");
        } else if c == '\n' {
            out.push_str("\\n");
        } else {
            out.push(c);
        }
    }
    out.push(q);
    out
}

/// the escape table (model: `escape`)
fn str_escape(d: char, out: &mut String) {
    match d {
        'n' => out.push('\n'),
        'r' => out.push('\r'),
        't' => out.push('\t'),
        '\\' => out.push('\\'),
        '\'' => out.push('\''),
        '"' => out.push('"'),
        '0' => out.push('\0'),
        c => {
            out.push('\\');
            out.push(c);
        }
    }
}

/// what the characters `body` between two delimiters `q` mean (model: `litValue`); `None`: not a body (a lone
/// delimiter, a raw newline, a backslash at the very end)
fn str_ref_value(body: &str, q: char) -> Option<String> {
    let cs: Vec<char> = body.chars().collect();
    let mut out = String::new();
    let mut i = 0;
    while i < cs.len() {
        let c = cs[i];
        if c == q {
            if i + 1 < cs.len() && cs[i + 1] == q {
                out.push(q);
                i += 2;
            } else {
                return None;
            }
        } else if c == '\\' {
            if i + 1 < cs.len() {
                str_escape(cs[i + 1], &mut out);
                i += 2;
            } else {
                return None;
            }
        } else if c == '\n' {
            return None;
        } else {
            out.push(c);
            i += 1;
        }
    }
    Some(out)
}

fn str_cps(s: &str) -> String {
    s.chars().map(|c| (c as u32).to_string()).collect::<Vec<_>>().join(" ")
}

fn str_cps_ans(tag: &str, s: &str) -> String {
    if s.is_empty() {
        format!("{tag} -")
    } else {
        format!("{tag} {}", s.chars().map(|c| (c as u32).to_string()).collect::<Vec<_>>().join(","))
    }
}

struct StrCx {
    a: query_router::QueryRouter,
    b: query_router::QueryRouter,
    k: i64,
    reported: std::collections::BTreeSet<String>,
}

fn str_router() -> query_router::QueryRouter {
    let q = query_router::QueryRouter::new();
    let schema = Schema::new(vec![Column::new("k", ColumnType::Int), Column::new("v", ColumnType::String)]);
    q.relational().create_table("s", schema).expect("create");
    q
}

impl StrCx {
    fn new() -> StrCx {
        StrCx { a: str_router(), b: str_router(), k: 0, reported: Default::default() }
    }
    fn next_key(&mut self) -> i64 {
        self.k += 1;
        if self.k % 400 == 0 {
            // keep the scans short
            self.a = str_router();
            self.b = str_router();
        }
        self.k
    }
}

struct StrFail {
    layer: u8,
    /// the value whose literal / statement this is
    value: String,
    what: String,
    statement: String,
    got: String,
}

fn str_class(layer: u8) -> &'static str {
    match layer {
        1 => STR_LEX_CLASS,
        2 => STR_PARSE_CLASS,
        _ => STR_EXEC_CLASS,
    }
}

fn str_show_toks(toks: &[np::Token]) -> String {
    toks.iter().map(|t| format!("{:?}@{}-{}", t.kind, t.span.start.0, t.span.end.0)).collect::<Vec<_>>().join(" ")
}

/// the `v` cell of the only row
fn str_cell(rows: &[relational_engine::Row]) -> std::result::Result<String, String> {
    if rows.len() != 1 {
        return Err(format!("{} rows", rows.len()));
    }
    match rows[0].values.iter().find(|(k, _)| k == "v") {
        Some((_, RV::String(s))) => Ok(s.clone()),
        other => Err(format!("cell {other:?}")),
    }
}

fn str_read_text(q: &query_router::QueryRouter, k: i64) -> std::result::Result<String, String> {
    match q.execute_parsed(&format!("SELECT v FROM s WHERE k = {k}")) {
        Ok(query_router::QueryResult::Rows(rows)) => str_cell(&rows),
        other => Err(canon_qr(&other)),
    }
}

fn str_read_direct(q: &query_router::QueryRouter, k: i64) -> std::result::Result<String, String> {
    match q.relational().select("s", Condition::Eq("k".to_string(), RV::Int(k))) {
        Ok(rows) => str_cell(&rows),
        Err(e) => Err(format!("error {}", vname(&e))),
    }
}

fn vname<E: std::fmt::Debug>(e: &E) -> String {
    let d = format!("{e:?}");
    d.chars().take_while(|c| c.is_alphanumeric() || *c == '_').collect()
}

fn str_keys(rows: &[relational_engine::Row]) -> Vec<i64> {
    let mut ks: Vec<i64> = rows
        .iter()
        .filter_map(|r| r.values.iter().find(|(k, _)| k == "k").and_then(|(_, v)| if let RV::Int(i) = v { Some(*i) } else { None }))
        .collect();
    ks.sort();
    ks
}

/// the literal alone through the real lexer: exactly one String token with the value `v` spanning it, then Eof
fn str_lex_alone(v: &str, lit: &str) -> Option<StrFail> {
    use np::TokenKind as TK;
    let toks = match guarded({ let l = lit.to_string(); move || np::tokenize(&l) }) {
        Ok(t) => t,
        Err(p) => return Some(StrFail { layer: 1, value: v.to_string(), what: format!("tokenize panics on the literal: {p}"), statement: lit.to_string(), got: "panic".into() }),
    };
    let alone_ok = toks.len() == 2
        && matches!(&toks[0].kind, TK::String(s) if s == v)
        && toks[0].span.start.0 == 0
        && toks[0].span.end.0 as usize == lit.len()
        && matches!(toks[1].kind, TK::Eof);
    if alone_ok {
        return None;
    }
    let got = match toks.first().map(|t| &t.kind) {
        Some(TK::String(s)) => format!("{s:?}"),
        _ => str_show_toks(&toks),
    };
    Some(StrFail {
        layer: 1,
        value: v.to_string(),
        what: format!("the literal {lit} is the canonical spelling of the value {v:?} ({} characters) but lexes as {}", v.chars().count(), str_show_toks(&toks)),
        statement: lit.to_string(),
        got,
    })
}

/// the parsed statement carries a string literal with exactly the value `v` (layer 2 for the statements whose
/// AST shape is not taken apart here)
fn str_parse_carries(stmt: &str, v: &str) -> Option<StrFail> {
    let dbg = match guarded({ let s = stmt.to_string(); move || np::parse(&s).map(|st| format!("{st:?}")) }) {
        Ok(Ok(d)) => d,
        Ok(Err(e)) => format!("parse error {}", kind_tag(&e.kind)),
        Err(p) => format!("panic {p}"),
    };
    if dbg.contains(&format!("String({v:?})")) {
        return None;
    }
    let got: String = dbg.match_indices("String(").map(|(i, _)| dbg[i..].chars().take(40).collect::<String>()).collect::<Vec<_>>().join(" … ");
    Some(StrFail {
        layer: 2,
        value: v.to_string(),
        what: format!("`{stmt}`: the lexer's String token carries {v:?} but the parsed statement has no string literal with that value ({})", if got.is_empty() { &dbg[..dbg.len().min(80)] } else { &got }),
        statement: stmt.to_string(),
        got,
    })
}

/// every layer on the REAL code; the first one that does not hold.  After a failure the twin databases are
/// replaced (they may have diverged), so that the next evaluation starts from equal states.
fn str_eval(cx: &mut StrCx, v: &str, q: char, deep: bool) -> Option<StrFail> {
    let f = str_eval_layers(cx, v, q, deep);
    if f.is_some() {
        cx.a = str_router();
        cx.b = str_router();
    }
    f
}

fn str_eval_layers(cx: &mut StrCx, v: &str, q: char, deep: bool) -> Option<StrFail> {
    use np::TokenKind as TK;
    let lit = str_render(v, q);
    let other = if q == '\'' { '"' } else { '\'' };
    let v2 = format!("{v}{v}");
    // ---- 1. lexer: EVERY literal the later layers put into a statement, alone
    if let Some(f) = str_lex_alone(v, &lit) {
        return Some(f);
    }
    if let Some(f) = str_lex_alone(v, &str_render(v, other)) {
        return Some(f);
    }
    if deep {
        if let Some(f) = str_lex_alone(&v2, &str_render(&v2, q)) {
            return Some(f);
        }
    }
    // ---- 1b. lexer, inside a statement
    let k = cx.next_key();
    let prefix = format!("INSERT INTO s (k, v) VALUES ({k}, ");
    let stmt = format!("{prefix}{lit})");
    let toks = match guarded({ let s = stmt.clone(); move || np::tokenize(&s) }) {
        Ok(t) => t,
        Err(p) => return Some(StrFail { layer: 1, value: v.to_string(), what: format!("tokenize panics: {p}"), statement: stmt, got: "panic".into() }),
    };
    let at = toks.iter().position(|t| t.span.start.0 as usize == prefix.len());
    let in_stmt_ok = match at {
        Some(i) => {
            matches!(&toks[i].kind, TK::String(s) if s == v)
                && toks[i].span.end.0 as usize == prefix.len() + lit.len()
                && toks.len() == i + 3
                && matches!(toks[i + 1].kind, TK::RParen)
                && matches!(toks[i + 2].kind, TK::Eof)
                && i == 12
                && matches!(toks[i - 1].kind, TK::Comma)
        }
        None => false,
    };
    if !in_stmt_ok {
        return Some(StrFail {
            layer: 1,
            value: v.to_string(),
            what: format!("inside `{stmt}` the literal {lit} (value {v:?}) is not one String token with that value followed by `)`: {}", str_show_toks(&toks)),
            statement: stmt,
            got: str_show_toks(&toks),
        });
    }
    // ---- 2. parser
    let parsed: std::result::Result<Option<String>, String> = match guarded({ let s = stmt.clone(); move || np::parse(&s) }) {
        Ok(Ok(st)) => match st.kind {
            StatementKind::Insert(ins) => match ins.source {
                np::InsertSource::Values(rows) => match rows.first().and_then(|r| r.get(1)).map(|e| &e.kind) {
                    Some(ExprKind::Literal(Literal::String(s))) => Ok(Some(s.clone())),
                    other => Err(format!("second value is {other:?}")),
                },
                _ => Err("not a VALUES insert".into()),
            },
            _ => Err("not an INSERT".into()),
        },
        Ok(Err(e)) => Err(format!("parse error {}", kind_tag(&e.kind))),
        Err(p) => Err(format!("panic {p}")),
    };
    match &parsed {
        Ok(Some(s)) if s == v => {}
        other => {
            return Some(StrFail {
                layer: 2,
                value: v.to_string(),
                what: format!("`{stmt}`: the lexer's String token carries {v:?} but the parsed statement carries {other:?}"),
                statement: stmt,
                got: format!("{other:?}"),
            })
        }
    }
    // ---- 3. router: text on A, direct engine call on B
    let ra = guarded(std::panic::AssertUnwindSafe(|| cx.a.execute_parsed(&stmt)));
    let mut mm = std::collections::HashMap::new();
    mm.insert("k".to_string(), RV::Int(k));
    mm.insert("v".to_string(), RV::String(v.to_string()));
    let rb = cx.b.relational().insert("s", mm);
    let ra_ok = matches!(&ra, Ok(Ok(_)));
    if ra_ok != rb.is_ok() {
        return Some(StrFail {
            layer: 3,
            value: v.to_string(),
            what: format!("`{stmt}` through execute_parsed: {} ; RelationalEngine::insert with the value {v:?}: {}",
                match &ra { Ok(r) => canon_qr(r), Err(p) => format!("panic {p}") }, if rb.is_ok() { "ok" } else { "refused" }),
            statement: stmt,
            got: "result differs".into(),
        });
    }
    if ra_ok {
        let (sa, sb) = (str_read_text(&cx.a, k), str_read_direct(&cx.b, k));
        if sa.as_deref() != Ok(v) || sb.as_deref() != Ok(v) {
            return Some(StrFail {
                layer: 3,
                value: v.to_string(),
                what: format!("after `{stmt}` SELECT v through the text path reads {sa:?}; the direct insert of {v:?} read back by the direct select gives {sb:?}"),
                statement: stmt,
                got: format!("{sa:?}"),
            });
        }
        // the value as a search key, written with the other delimiter
        let sel = format!("SELECT k FROM s WHERE v = {}", str_render(v, other));
        if let Some(f) = str_parse_carries(&sel, v) {
            return Some(f);
        }
        let ka = match guarded(std::panic::AssertUnwindSafe(|| cx.a.execute_parsed(&sel))) {
            Ok(Ok(query_router::QueryResult::Rows(rows))) => Ok(str_keys(&rows)),
            Ok(other) => Err(canon_qr(&other)),
            Err(p) => Err(format!("panic {p}")),
        };
        let kb = match cx.b.relational().select("s", Condition::Eq("v".to_string(), RV::String(v.to_string()))) {
            Ok(rows) => Ok(str_keys(&rows)),
            Err(e) => Err(format!("error {}", vname(&e))),
        };
        if ka != kb || !matches!(&ka, Ok(ks) if ks.contains(&k)) {
            return Some(StrFail {
                layer: 3,
                value: v.to_string(),
                what: format!("`{sel}` finds the rows {ka:?}; RelationalEngine::select with Eq(v, {v:?}) finds {kb:?} (row {k} was inserted with that value)"),
                statement: sel,
                got: format!("{ka:?}"),
            });
        }
        if deep {
            // UPDATE … SET v = literal of the doubled value
            let upd = format!("UPDATE s SET v = {} WHERE k = {k}", str_render(&v2, q));
            if let Some(f) = str_parse_carries(&upd, &v2) {
                return Some(f);
            }
            let ua = guarded(std::panic::AssertUnwindSafe(|| cx.a.execute_parsed(&upd)));
            let mut up = std::collections::HashMap::new();
            up.insert("v".to_string(), RV::String(v2.clone()));
            let ub = cx.b.relational().update("s", Condition::Eq("k".to_string(), RV::Int(k)), up);
            let (sa, sb) = (str_read_text(&cx.a, k), str_read_direct(&cx.b, k));
            if !matches!(&ua, Ok(Ok(_))) || ub.is_err() || sa.as_deref() != Ok(v2.as_str()) || sb.as_deref() != Ok(v2.as_str()) {
                return Some(StrFail {
                    layer: 3,
                    value: v2.clone(),
                    what: format!("after `{upd}` SELECT v through the text path reads {sa:?}; after RelationalEngine::update with {v2:?} the direct select reads {sb:?}"),
                    statement: upd,
                    got: format!("{sa:?}"),
                });
            }
            // NODE CREATE with the literal as a property value
            let node = format!("NODE CREATE doc {{body: {lit}}}");
            if let Some(f) = str_parse_carries(&node, v) {
                return Some(f);
            }
            let na = guarded(std::panic::AssertUnwindSafe(|| cx.a.execute_parsed(&node)));
            let mut props = std::collections::HashMap::new();
            props.insert("body".to_string(), graph_engine::PropertyValue::String(v.to_string()));
            let nb = cx.b.graph().create_node("doc", props);
            let body = |q: &query_router::QueryRouter, id: u64| match q.graph().get_node(id) {
                Ok(n) => match n.properties.get("body") {
                    Some(graph_engine::PropertyValue::String(s)) => Ok(s.clone()),
                    other => Err(format!("property {other:?}")),
                },
                Err(e) => Err(format!("error {}", vname(&e))),
            };
            let pa = match &na {
                Ok(Ok(query_router::QueryResult::Ids(ids))) if ids.len() == 1 => body(&cx.a, ids[0]),
                Ok(other) => Err(canon_qr(other)),
                Err(p) => Err(format!("panic {p}")),
            };
            let pb = match &nb {
                Ok(id) => body(&cx.b, *id),
                Err(e) => Err(format!("error {}", vname(e))),
            };
            if pa.as_deref() != Ok(v) || pb.as_deref() != Ok(v) {
                return Some(StrFail {
                    layer: 3,
                    value: v.to_string(),
                    what: format!("`{node}` stores the property {pa:?}; GraphEngine::create_node with {v:?} stores {pb:?}"),
                    statement: node,
                    got: format!("{pa:?}"),
                });
            }
        }
    }
    None
}

fn str_shape_hits(rep: &mut Report, v: &str, q: char) {
    let other = if q == '\'' { '"' } else { '\'' };
    let cs: Vec<char> = v.chars().collect();
    let run = |c: char| -> usize {
        let (mut best, mut cur) = (0, 0);
        for x in &cs {
            if *x == c {
                cur += 1;
                best = best.max(cur);
            } else {
                cur = 0;
            }
        }
        best
    };
    rep.hit(if q == '\'' { "strlit.delimiter.apostrophe" } else { "strlit.delimiter.double_quote" });
    rep.hit(&format!("strlit.value.other_quote_run.{}", match run(other) { 0 => "0", 1 => "1", 2 => "2", 3 => "3", _ => "4+" }));
    rep.hit(&format!("strlit.value.delimiter_run.{}", match run(q) { 0 => "0", 1 => "1", 2 => "2", 3 => "3", _ => "4+" }));
    rep.hit(&format!("strlit.value.backslash_run.{}", match run('\\') { 0 => "0", 1 => "1", 2 => "2", _ => "3+" }));
    rep.hit(&format!("strlit.value.chars.{}", match cs.len() { 0 => "0", 1 => "1", 2 => "2", 3..=4 => "3-4", 5..=6 => "5-6", _ => "7+" }));
    if cs.contains(&'\n') {
        rep.hit("strlit.value.newline");
    }
}

/// one value, one delimiter: the oracle (shrunk to the shortest value that fails at the same layer), the two
/// reference functions against the Lean definitions, and (sampled) the literal through the lexer model
fn str_case(m: &mut Model, rep: &mut Report, cx: &mut StrCx, stream: &str, v: &str, q: char, deep: bool, to_model: bool) {
    let lit = str_render(v, q);
    rep.case(stream, if v.chars().count() >= 2 { Some(&lit) } else { None });
    str_shape_hits(rep, v, q);
    if let Some(f) = str_eval(cx, v, q, deep) {
        let class = str_class(f.layer);
        rep.hit(&format!("violation.{class}"));
        if cx.reported.insert(class.to_string()) {
            let chars: Vec<char> = v.chars().collect();
            let layer = f.layer;
            let small: String = shrink_list(&chars, &mut |cand: &[char]| {
                let s: String = cand.iter().collect();
                str_eval(cx, &s, q, deep).map(|g| g.layer) == Some(layer)
            })
            .into_iter()
            .collect();
            let f = match str_eval(cx, &small, q, deep) {
                Some(g) if g.layer == layer => g,
                _ => f,
            };
            rep.violation(
                class,
                &f.what,
                json!({"text": f.statement, "value_written": f.value, "value_code_points": str_cps(&f.value), "got": f.got,
                       "canonical_literals": [str_render(&f.value, '\''), str_render(&f.value, '"')], "first_failing_value": v}),
            );
        }
    } else {
        rep.hit("strlit.round_trip.holds");
    }
    if to_model {
        // the reference renderer / reference meaning are the Lean definitions
        let body = &lit[1..lit.len() - 1];
        let mr = m.ask(&format!("strrender {} {}", q as u32, str_cps(v)));
        rep.compare("strlit.reference_vs_model", || json!({"value": v, "delimiter": q.to_string(), "op": "strrender"}), &str_cps_ans("body", body), &mr);
        let mv = m.ask(&format!("strval {} {}", q as u32, str_cps(body)));
        rep.compare("strlit.reference_vs_model", || json!({"body": body, "delimiter": q.to_string(), "op": "strval"}), &str_cps_ans("value", v), &mv);
        rep.case("strlit.reference_vs_model", None);
    }
}

/// an arbitrary body (canonical or not): the token's value is what the body means
fn str_body_case(m: &mut Model, rep: &mut Report, cx: &mut StrCx, body: &str, q: char) {
    use np::TokenKind as TK;
    let want = str_ref_value(body, q);
    let mv = m.ask(&format!("strval {} {}", q as u32, str_cps(body)));
    let ref_ans = match &want {
        Some(v) => str_cps_ans("value", v),
        None => "none".to_string(),
    };
    rep.case("strlit.reference_vs_model", None);
    rep.compare("strlit.reference_vs_model", || json!({"body": body, "delimiter": q.to_string(), "op": "strval"}), &ref_ans, &mv);
    let Some(v) = want else {
        rep.hit("strlit.body.not_a_body");
        return;
    };
    let lit = format!("{q}{body}{q}");
    rep.case("strlit.body", Some(&lit));
    rep.hit(if body.contains('\\') { "strlit.body.with_backslash_escape" } else { "strlit.body.plain_and_doubled_only" });
    let toks = guarded({ let l = lit.clone(); move || np::tokenize(&l) });
    let ok = matches!(&toks, Ok(t) if t.len() == 2 && matches!(&t[0].kind, TK::String(s) if *s == v) && t[0].span.end.0 as usize == lit.len());
    if !ok {
        rep.hit(&format!("violation.{STR_LEX_CLASS}"));
        if cx.reported.insert(format!("{STR_LEX_CLASS}#body")) && !cx.reported.contains(STR_LEX_CLASS) {
            cx.reported.insert(STR_LEX_CLASS.to_string());
            let got = match &toks { Ok(t) => str_show_toks(t), Err(p) => format!("panic {p}") };
            rep.violation(STR_LEX_CLASS, &format!("the body of {lit} means {v:?} (doubled delimiter = one delimiter, escapes by the table, every other character itself) but it lexes as {got}"),
                json!({"text": lit, "value_written": v, "value_code_points": str_cps(&v), "delimiter": q.to_string(), "got": got}));
        }
    }
}

/// every string over `alphabet` of length ≤ `n`, shortest first
fn str_all(alphabet: &[char], n: usize) -> Vec<String> {
    let mut all = vec![String::new()];
    let mut frontier = vec![String::new()];
    for _ in 0..n {
        let mut next = Vec::with_capacity(frontier.len() * alphabet.len());
        for s in &frontier {
            for c in alphabet {
                let mut t = s.clone();
                t.push(*c);
                next.push(t);
            }
        }
        all.extend(next.iter().cloned());
        frontier = next;
    }
    all
}

const STR_DIRECTED: &[&str] = &[
    // the shortest values that need the rule "only the DELIMITER is un-doubled", and their neighbours
    "\"\"", "''", "\"", "'", "\"\"\"", "'''", "\"\"\"\"", "''''", "'\"", "\"'", "'\"\"'", "\"''\"", "''\"\"", "\"\"''",
    "{\"name\":\"\"}", "{\"a\":\"\",\"b\":1}", "it''s", "it's", "say \"\"hi\"\"", "say \"hi\"", "a''b\"\"c", "O''Brien said \"\"no\"\"",
    "", "a", "\\", "\\\\", "\\'", "\\\"", "\\n", "\n", "a\nb", "\\\\n", "'\\'", "\"\\\"", "\\''", "\\\"\"", "''\\", "\"\"\\",
    "\t", "\r", "\0", "é''é", "\u{1F600}\"\"", "-- ''", "/* \"\" */", "'' OR ''=''", "\"\" OR \"\"=\"\"",
];

const STR_PIECES: &[&str] = &[
    "'", "'", "''", "'''", "\"", "\"", "\"\"", "\"\"\"", "\\", "\\\\", "\\'", "\\\"", "a", "b", "n", "0", " ", "\n", "\t", "é", "{", "}", ":", ",",
    "'\"", "\"'", "''\"\"", "\"\"''", "--", "/*", "*/", "\u{1F600}", "x",
];

const STR_BODY_PIECES: &[&str] = &[
    "'", "''", "''''", "\"", "\"\"", "\"\"\"\"", "\\'", "\\\"", "\\\\", "\\n", "\\t", "\\0", "\\x", "\\", "a", "n", " ", "é", "'\"", "\"'", "\n",
];

fn str_directed(m: &mut Model, rep: &mut Report, cx: &mut StrCx) {
    for v in STR_DIRECTED {
        for q in ['\'', '"'] {
            str_case(m, rep, cx, "strlit.directed", v, q, true, true);
            lex_case(m, rep, &str_render(v, q), "lex.strings");
        }
    }
    // exhaustive: every value over {a, ', ", \} up to length 4, both delimiters
    for v in str_all(&['a', '\'', '"', '\\'], 4) {
        for q in ['\'', '"'] {
            str_case(m, rep, cx, "strlit.exhaustive", &v, q, v.chars().count() <= 2, true);
        }
    }
    // every BODY over {a, ', ", \} up to length 4 (most are not bodies of the delimiter at hand; those that are
    // include every escape spelling)
    for b in str_all(&['a', '\'', '"', '\\'], 4) {
        for q in ['\'', '"'] {
            str_body_case(m, rep, cx, &b, q);
        }
    }
}

fn stream_strings(m: &mut Model, rep: &mut Report, rng: &Rng, thorough: bool, cx: &mut StrCx) {
    let mut r = rng.fork("strlit.random");
    let n = if thorough { 20000 } else { 1500 };
    for i in 0..n {
        // 0..6 pieces, each a character or a run: values of 0..~14 characters rich in both quotes and backslashes;
        // now and then a longer JSON-like / prose value
        let mut v = String::new();
        if r.chance(1, 12) {
            let inner = |r: &mut Rng| (*r.pick(&["", "", "a", "it''s", "\"\"", "x\\y"])).to_string();
            v = match r.below(3) {
                0 => format!("{{\"name\":\"{}\",\"tags\":[\"{}\",\"\"]}}", inner(&mut r), inner(&mut r)),
                1 => format!("He said \"{}\" and ''{}''", inner(&mut r), inner(&mut r)),
                _ => format!("{}{}{}", "'".repeat(r.below(7) as usize), "\"".repeat(r.below(7) as usize), "\\".repeat(r.below(4) as usize)),
            };
            rep.hit("strlit.random.long_value");
        } else {
            for _ in 0..r.below(7) {
                v.push_str(*r.pick(STR_PIECES));
            }
        }
        let deep = i % 8 == 0;
        for q in ['\'', '"'] {
            str_case(m, rep, cx, "strlit.random", &v, q, deep, i % 4 == 0);
        }
        if i % 6 == 0 {
            lex_case(m, rep, &str_render(&v, if r.chance(1, 2) { '\'' } else { '"' }), "lex.strings");
        }
        // a raw body
        let mut b = String::new();
        for _ in 0..r.below(7) {
            b.push_str(*r.pick(STR_BODY_PIECES));
        }
        str_body_case(m, rep, cx, &b, if r.chance(1, 2) { '\'' } else { '"' });
    }
}

// ------------------------------------------------------------------ clauses the router evaluates itself (Exec.lean)
//
// Third clause of the property ("executing a statement given as text has the same effect and result as the
// equivalent direct engine call") for everything the router computes ITSELF on the engine's answer:
//   SELECT [proj] FROM t [JOIN u ON …] [WHERE …] [ORDER BY item, …] [LIMIT k] [OFFSET o]   (exec_select,
//   exec_select_with_joins), aggregates / GROUP BY / HAVING, INSERT / UPDATE / DELETE row counts, NODE LIST /
//   EDGE LIST / FIND … WHERE / SHOW EMBEDDINGS / SIMILAR with LIMIT [OFFSET], NEIGHBORS, PATH.
//
// One statement is executed clause by clause (R0 = without ORDER BY / OFFSET / LIMIT, R1 = + ORDER BY, R2 = + OFFSET,
// R3 = the statement) and every step is judged on the REAL outputs against the step before it:
//   R0 = the direct engine call's rows, in its order              …/rows_differ_from_direct_engine_call
//   R1 = a permutation of R0, sorted the way the items say        …/order_by_result_is_not_a_sorted_permutation_of_the_unordered_result
//        rows that tie on every item in R0's order                …/order_by_ties_are_not_in_engine_order
//   R2 = R1 without its first o rows                              …/offset_result_is_not_the_result_without_offset_minus_its_first_rows
//   R3 = the first k rows of R2                                   …/limit_result_is_not_the_prefix_of_the_unlimited_result
// (site = query_router::QueryRouter::exec_select | exec_select_with_joins), and R3 is compared with the Lean model
// `xsel` run on the direct call's rows (stream xsel.model: exact positions, ties and NULL placement included).
// k and o are drawn from the boundaries of the result size m: 0, 1, m-1, m, m+1 (and absent / not a literal).
// xsel.directed runs first: every shape × every boundary pair on tables of 0..4 rows.  A failing case is shrunk
// (rows of both tables, then clauses, then the numbers).

#[derive(Clone, Debug, PartialEq)]
struct XRow {
    a: Option<i64>,
    b: Option<i64>,
    name: Option<&'static str>,
}

#[derive(Clone, Debug, PartialEq)]
struct URow {
    a: Option<i64>,
    w: i64,
}

struct XDb {
    q: query_router::QueryRouter,
}

fn xdb(t: &[XRow], u: &[URow]) -> XDb {
    let q = query_router::QueryRouter::new();
    let st = Schema::new(vec![
        Column::new("a", ColumnType::Int).nullable(),
        Column::new("b", ColumnType::Int).nullable(),
        Column::new("name", ColumnType::String).nullable(),
    ]);
    q.relational().create_table("t", st).expect("create t");
    let su = Schema::new(vec![Column::new("a", ColumnType::Int).nullable(), Column::new("w", ColumnType::Int)]);
    q.relational().create_table("u", su).expect("create u");
    for r in t {
        q.relational().insert("t", x_row_map(r)).expect("insert t");
    }
    for r in u {
        let mut m = std::collections::HashMap::new();
        m.insert("a".to_string(), r.a.map_or(RV::Null, RV::Int));
        m.insert("w".to_string(), RV::Int(r.w));
        q.relational().insert("u", m).expect("insert u");
    }
    XDb { q }
}

fn x_row_map(r: &XRow) -> std::collections::HashMap<String, RV> {
    let mut m = std::collections::HashMap::new();
    m.insert("a".to_string(), r.a.map_or(RV::Null, RV::Int));
    m.insert("b".to_string(), r.b.map_or(RV::Null, RV::Int));
    m.insert("name".to_string(), r.name.map_or(RV::Null, |s| RV::String(s.to_string())));
    m
}

#[derive(Clone, Debug, PartialEq)]
enum XC {
    Absent,
    Lit(u64),
    /// an expression that is not an integer literal
    Other(&'static str),
}

impl XC {
    fn text(&self, kw: &str) -> String {
        match self {
            XC::Absent => String::new(),
            XC::Lit(n) => format!(" {kw} {n}"),
            XC::Other(e) => format!(" {kw} {e}"),
        }
    }
    fn model(&self) -> String {
        match self {
            XC::Absent => "-".into(),
            XC::Lit(n) => n.to_string(),
            XC::Other(_) => "x".into(),
        }
    }
}

/// column index of the model: t.a 0, t.b 1, t.name 2, u.a 3, u.w 4
fn x_col_index(name: &str) -> Option<usize> {
    match name {
        "a" | "t.a" => Some(0),
        "b" | "t.b" => Some(1),
        "name" | "t.name" => Some(2),
        "u.a" => Some(3),
        "w" | "u.w" => Some(4),
        _ => None,
    }
}

#[derive(Clone, Debug, PartialEq)]
struct XOrd {
    col: &'static str,
    desc: bool,
    /// `ASC` written out (no meaning; spelling only)
    asc_written: bool,
    nulls: Option<bool>,
}

#[derive(Clone, Debug)]
struct XStmt {
    /// None = `*`
    proj: Option<Vec<&'static str>>,
    /// join spelling, e.g. "JOIN u ON t.a = u.a", "CROSS JOIN u"
    join: Option<&'static str>,
    cond: Option<Cond>,
    order: Vec<XOrd>,
    limit: XC,
    offset: XC,
}

impl XStmt {
    fn site(&self) -> &'static str {
        if self.join.is_some() {
            "query_router::QueryRouter::exec_select_with_joins"
        } else {
            "query_router::QueryRouter::exec_select"
        }
    }
    fn text(&self, order: bool, offset: bool, limit: bool) -> String {
        let mut s = String::from("SELECT ");
        match &self.proj {
            None => s.push('*'),
            Some(cols) => s.push_str(&cols.join(", ")),
        }
        s.push_str(" FROM t");
        if let Some(j) = self.join {
            s.push(' ');
            s.push_str(j);
        }
        if let Some(c) = &self.cond {
            s.push_str(" WHERE ");
            c.print(false, &mut s);
        }
        if order && !self.order.is_empty() {
            let items: Vec<String> = self
                .order
                .iter()
                .map(|o| {
                    format!(
                        "{}{}{}",
                        o.col,
                        if o.desc { " DESC" } else if o.asc_written { " ASC" } else { "" },
                        match o.nulls {
                            None => "",
                            Some(true) => " NULLS FIRST",
                            Some(false) => " NULLS LAST",
                        }
                    )
                })
                .collect();
            s.push_str(" ORDER BY ");
            s.push_str(&items.join(", "));
        }
        // the grammar has LIMIT before OFFSET
        if limit {
            s.push_str(&self.limit.text("LIMIT"));
        }
        if offset {
            s.push_str(&self.offset.text("OFFSET"));
        }
        s
    }
    fn model_order(&self) -> String {
        if self.order.is_empty() {
            return "-".into();
        }
        self.order
            .iter()
            .map(|o| {
                format!(
                    "{}.{}.{}",
                    x_col_index(o.col).map_or("99".to_string(), |c| c.to_string()),
                    if o.desc { "d" } else { "a" },
                    match o.nulls {
                        None => "-",
                        Some(true) => "f",
                        Some(false) => "l",
                    }
                )
            })
            .collect::<Vec<_>>()
            .join(";")
    }
}

/// one row as the oracles see it: identity (canonical text) + the sort keys of the cells it has
#[derive(Clone, Debug, PartialEq)]
struct XB {
    canon: String,
    keys: Vec<(usize, Option<i64>)>,
}

fn x_key(v: &RV) -> Option<Option<i64>> {
    match v {
        RV::Null => Some(None),
        RV::Int(i) => Some(Some(*i)),
        // order-isomorphic: the generated names are single letters
        RV::String(s) => Some(Some(s.bytes().next().map_or(-1, |b| b as i64))),
        _ => None,
    }
}

fn x_of_row(r: &relational_engine::Row, join: bool) -> XB {
    let mut keys = Vec::new();
    let mut cells = Vec::new();
    for (k, v) in &r.values {
        if !join && k == "_id" {
            continue;
        }
        cells.push(format!("{k}={v:?}"));
        if let (Some(c), Some(key)) = (x_col_index(k), x_key(v)) {
            // an unqualified name in a join row cannot occur (merge_rows qualifies every column)
            keys.push((c, key));
        }
    }
    if join {
        // merged rows: the identity is the pair of row ids inside the cells; cell order is merge order
        XB { canon: cells.join(","), keys }
    } else {
        XB { canon: format!("#{} {}", r.id, cells.join(",")), keys }
    }
}

type XRows = std::result::Result<Vec<XB>, String>;

fn x_run(q: &query_router::QueryRouter, text: &str, join: bool) -> XRows {
    let t2 = text.to_string();
    match guarded(std::panic::AssertUnwindSafe(|| q.execute_parsed(&t2))) {
        Err(p) => Err(format!("panic {p}")),
        Ok(Ok(query_router::QueryResult::Rows(rows))) => Ok(rows.iter().map(|r| x_of_row(r, join)).collect()),
        Ok(other) => Err(canon_qr(&other)),
    }
}

fn x_join_cond_holds(c: &Cond, b: &XB) -> bool {
    // WHERE of a join statement is generated as one comparison on u.w (never NULL); a row without u.w (LEFT JOIN
    // without partner) does not satisfy it
    if let Cond::Leaf(col, op, v) = c {
        let key = x_col_index(col).and_then(|ci| b.keys.iter().find(|(c2, _)| *c2 == ci).and_then(|(_, k)| *k));
        match key {
            None => false,
            Some(x) => match *op {
                "=" => x == *v,
                "!=" => x != *v,
                "<" => x < *v,
                "<=" => x <= *v,
                ">" => x > *v,
                _ => x >= *v,
            },
        }
    } else {
        true
    }
}

/// the equivalent direct engine call (and, for joins, the row merge and the filter the statement describes)
fn x_direct(db: &XDb, st: &XStmt) -> XRows {
    let rel = db.q.relational();
    match st.join {
        None => {
            let cond = st.cond.as_ref().map_or(Condition::True, |c| c.direct());
            let opts = relational_engine::ColumnarScanOptions {
                projection: st.proj.as_ref().map(|p| p.iter().map(|c| c.to_string()).collect()),
                prefer_columnar: true,
            };
            let rows = rel.select_columnar("t", cond.clone(), opts).map_err(|e| format!("error {e:?}"))?;
            // cross-check with the row API: same rows (as a set of id + projected cells)
            if let Ok(plain) = rel.select("t", cond) {
                let want_ids: Vec<u64> = plain.iter().map(|r| r.id).collect();
                let got_ids: Vec<u64> = rows.iter().map(|r| r.id).collect();
                if want_ids != got_ids {
                    return Err(format!("direct calls disagree: select {want_ids:?} select_columnar {got_ids:?}"));
                }
            }
            Ok(rows.iter().map(|r| x_of_row(r, false)).collect())
        }
        Some(j) => {
            type P = (Option<relational_engine::Row>, Option<relational_engine::Row>);
            let e = |e: relational_engine::RelationalError| format!("error {e:?}");
            let pairs: Vec<P> = if j.starts_with("CROSS") {
                rel.cross_join("t", "u").map_err(e)?.into_iter().map(|(a, b)| (Some(a), Some(b))).collect()
            } else if j.starts_with("NATURAL") {
                rel.natural_join("t", "u").map_err(e)?.into_iter().map(|(a, b)| (Some(a), Some(b))).collect()
            } else if j.starts_with("LEFT") {
                rel.left_join("t", "u", "a", "a").map_err(e)?.into_iter().map(|(a, b)| (Some(a), b)).collect()
            } else if j.starts_with("RIGHT") {
                rel.right_join("t", "u", "a", "a").map_err(e)?.into_iter().map(|(a, b)| (a, Some(b))).collect()
            } else if j.starts_with("FULL") {
                rel.full_join("t", "u", "a", "a").map_err(e)?.into_iter().collect()
            } else {
                rel.join("t", "u", "a", "a").map_err(e)?.into_iter().map(|(a, b)| (Some(a), Some(b))).collect()
            };
            let mut out = Vec::new();
            for (a, b) in pairs {
                let mut values = Vec::new();
                // what the statement describes: the two rows side by side, every column qualified by its table,
                // each row's id as `<table>._id`
                for (alias, row) in [("t", &a), ("u", &b)] {
                    if let Some(row) = row {
                        values.push((format!("{alias}._id"), RV::Int(row.id as i64)));
                        for (k, v) in row.values.iter().filter(|(k, _)| k != "_id") {
                            values.push((format!("{alias}.{k}"), v.clone()));
                        }
                    }
                }
                let merged = relational_engine::Row { id: 0, values };
                let xb = x_of_row(&merged, true);
                if st.cond.as_ref().map_or(true, |c| x_join_cond_holds(c, &xb)) {
                    out.push(xb);
                }
            }
            Ok(out)
        }
    }
}

/// the order the items ask for, where the clause's meaning is not in question: ASC / DESC order the values,
/// NULLs go where the NULLS clause says; default NULLS LAST (ASC) / NULLS FIRST (DESC).  `None` = the statement has
/// an item this oracle does not judge (explicit NULLS clause under DESC, sort column outside the select list: see
/// the candidate-finding observations and ExecProps) — then only "permutation" is required here.
/// `join`: the rows are merged rows of a join statement; the select list of a join is not applied, so a cell that a
/// merged row does not have is a column of the other table in an outer-join row without partner — SQL's NULL.
fn x_doc_cmp(order: &[XOrd], a: &XB, b: &XB, join: bool) -> Option<std::cmp::Ordering> {
    use std::cmp::Ordering::*;
    for it in order {
        let ci = x_col_index(it.col)?;
        let ka = a.keys.iter().find(|(c, _)| *c == ci).map(|(_, k)| *k);
        let kb = b.keys.iter().find(|(c, _)| *c == ci).map(|(_, k)| *k);
        let (ka, kb) = match (ka, kb) {
            (Some(x), Some(y)) => (x, y),
            _ if join => (ka.unwrap_or(None), kb.unwrap_or(None)),
            _ => return None,
        };
        if it.desc && it.nulls.is_some() {
            return None;
        }
        let nulls_first = it.nulls.unwrap_or(it.desc);
        let c = match (ka, kb) {
            (None, None) => Equal,
            (None, Some(_)) => if nulls_first { Less } else { Greater },
            (Some(_), None) => if nulls_first { Greater } else { Less },
            (Some(x), Some(y)) => if it.desc { y.cmp(&x) } else { x.cmp(&y) },
        };
        if c != Equal {
            return Some(c);
        }
    }
    Some(Equal)
}

fn x_show(rows: &XRows) -> String {
    match rows {
        Ok(v) => {
            let s = format!("{} rows [{}]", v.len(), v.iter().map(|b| b.canon.clone()).collect::<Vec<_>>().join(" | "));
            s.chars().take(300).collect()
        }
        Err(e) => e.chars().take(200).collect(),
    }
}

struct XEval {
    /// (class, what)
    viol: Vec<(String, String)>,
    /// model line and the real statement's answer in the model's vocabulary (None: the direct call failed)
    model: Option<(String, String)>,
    base_len: usize,
    final_len: usize,
    /// some sort column is missing in one row of the engine's answer and NULL in another (outer join holding both a
    /// NULL = NULL partner row and a row without partner; Exec.mixedCol).  Until /repo 1133d8d8 the closure of
    /// sort_rows was not an order on such rows and sort_by panicked on 21 of them; they are judged like all others
    mixed: bool,
}

fn xs_eval(db: &XDb, st: &XStmt) -> XEval {
    let join = st.join.is_some();
    let site = st.site();
    let mut viol: Vec<(String, String)> = Vec::new();
    let base = x_direct(db, st);
    // R0
    let t0 = st.text(false, false, false);
    let r0 = x_run(&db.q, &t0, join);
    let same = |a: &XRows, b: &XRows| match (a, b) {
        (Ok(x), Ok(y)) => x.iter().map(|r| &r.canon).eq(y.iter().map(|r| &r.canon)),
        (Err(_), Err(_)) => true,
        _ => false,
    };
    if !same(&r0, &base) {
        viol.push((
            format!("{site}/rows_differ_from_direct_engine_call"),
            format!("`{t0}` returned {} but the direct engine call returns {}", x_show(&r0), x_show(&base)),
        ));
    }
    // R1
    let has_order = !st.order.is_empty();
    let mixed = match &base {
        Ok(b) => st.order.iter().any(|it| match x_col_index(it.col) {
            Some(ci) => {
                let cell = |r: &XB| r.keys.iter().find(|(c, _)| *c == ci).map(|(_, k)| *k);
                b.iter().any(|r| cell(r).is_none()) && b.iter().any(|r| cell(r) == Some(None))
            }
            None => false,
        }),
        Err(_) => false,
    };
    let t1 = st.text(true, false, false);
    let r1 = if has_order { x_run(&db.q, &t1, join) } else { r0.clone() };
    let order_panicked = matches!(&r1, Err(e) if e.starts_with("panic"));
    if has_order && order_panicked && mixed && r0.is_ok() {
        // regression of /repo 1133d8d8 (known_findings: fixed): kind computed from the trace — the statement without
        // ORDER BY answers, the one with ORDER BY panics, and a sort column is missing in one row and NULL in another
        viol.push((
            format!("{site}/order_by_panics_on_outer_join_rows"),
            format!("`{t1}` panicked ({}) on {} rows in which a sort column is missing in one row (no join partner) and NULL in another; without ORDER BY: {}",
                r1.as_ref().err().map_or("", |e| e.as_str()), r0.as_ref().map_or(0, |v| v.len()), x_show(&r0)),
        ));
    } else if has_order {
        let ok = match (&r0, &r1) {
            (Ok(x), Ok(y)) => {
                let mut cx: Vec<&String> = x.iter().map(|r| &r.canon).collect();
                let mut cy: Vec<&String> = y.iter().map(|r| &r.canon).collect();
                cx.sort();
                cy.sort();
                cx == cy && y.windows(2).all(|w| x_doc_cmp(&st.order, &w[0], &w[1], join).map_or(true, |c| c != std::cmp::Ordering::Greater))
            }
            (Err(_), Err(_)) => true,
            _ => false,
        };
        if !ok {
            viol.push((
                format!("{site}/order_by_result_is_not_a_sorted_permutation_of_the_unordered_result"),
                format!("`{t1}` returned {} ; without ORDER BY: {}", x_show(&r1), x_show(&r0)),
            ));
        } else if let (Ok(x), Ok(y)) = (&r0, &r1) {
            // rows that tie on every item stay in the engine's order (ExecProps.order_by_keeps_ties_in_engine_order):
            // this is what makes `ORDER BY … LIMIT k OFFSET o` a function of the statement and the engine's answer
            let pos = |r: &XB| x.iter().position(|b| b.canon == r.canon);
            let bad = y.windows(2).find(|w| x_doc_cmp(&st.order, &w[0], &w[1], join) == Some(std::cmp::Ordering::Equal) && pos(&w[0]) > pos(&w[1]));
            if let Some(w) = bad {
                viol.push((
                    format!("{site}/order_by_ties_are_not_in_engine_order"),
                    format!("`{t1}` returned [{}] before [{}]; they tie on every ORDER BY item and the engine returns them the other way round ({} rows)", w[0].canon, w[1].canon, y.len()),
                ));
            }
        }
    }
    // R2
    let t2 = st.text(true, true, false);
    let r2 = if st.offset != XC::Absent { x_run(&db.q, &t2, join) } else { r1.clone() };
    if let XC::Lit(o) = st.offset {
        let want: XRows = r1.clone().map(|v| v.into_iter().skip(o as usize).collect());
        if !same(&r2, &want) {
            viol.push((
                format!("{site}/offset_result_is_not_the_result_without_offset_minus_its_first_rows"),
                format!("`{t2}` returned {} ; without OFFSET: {}", x_show(&r2), x_show(&r1)),
            ));
        }
    }
    // R3
    let t3 = st.text(true, true, true);
    let r3 = if st.limit != XC::Absent { x_run(&db.q, &t3, join) } else { r2.clone() };
    if let XC::Lit(k) = st.limit {
        let want: XRows = r2.clone().map(|v| v.into_iter().take(k as usize).collect());
        if !same(&r3, &want) {
            viol.push((
                format!("{site}/limit_result_is_not_the_prefix_of_the_unlimited_result"),
                format!("`{t3}` returned {} ; the same statement without LIMIT returns {}", x_show(&r3), x_show(&r2)),
            ));
        }
    }
    // the model's input is the direct call's answer
    let model = match &base {
        Ok(b) => {
            let rows = if b.is_empty() {
                "-".to_string()
            } else {
                b.iter()
                    .map(|r| {
                        if r.keys.is_empty() {
                            "_".to_string()
                        } else {
                            r.keys.iter().map(|(c, k)| format!("{c}={}", k.map_or("n".to_string(), |x| x.to_string()))).collect::<Vec<_>>().join(",")
                        }
                    })
                    .collect::<Vec<_>>()
                    .join(";")
            };
            let line = format!("xsel 0 {} {} {} {}", st.model_order(), st.limit.model(), st.offset.model(), rows);
            let real = match &r3 {
                Ok(v) => {
                    let pos: Vec<String> = v
                        .iter()
                        .map(|r| b.iter().position(|x| x.canon == r.canon).map_or("?".to_string(), |p| p.to_string()))
                        .collect();
                    format!("rows {}", if pos.is_empty() { "-".to_string() } else { pos.join(",") })
                }
                // the kind only (panic / error variant), no message text on a compared line
                Err(e) => format!("error {}", if e.starts_with("panic") { "panic".to_string() } else { e.split(' ').take(2).collect::<Vec<_>>().join(" ") }),
            };
            Some((line, real))
        }
        Err(_) => None,
    };
    XEval { viol, model, base_len: base.as_ref().map_or(0, |b| b.len()), final_len: r3.as_ref().map_or(0, |v| v.len()), mixed }
}

fn xs_fails(t: &[XRow], u: &[URow], st: &XStmt, class: &str) -> bool {
    let db = xdb(t, u);
    xs_eval(&db, st).viol.iter().any(|(c, _)| c == class)
}

/// smaller tables first, then fewer clauses, then smaller numbers; the class must stay the same
fn xs_shrink(t: &[XRow], u: &[URow], st: &XStmt, class: &str) -> (Vec<XRow>, Vec<URow>, XStmt) {
    let mut st = st.clone();
    let mut t: Vec<XRow> = t.to_vec();
    let mut u: Vec<URow> = u.to_vec();
    for _round in 0..3 {
        let (st2, u2) = (st.clone(), u.clone());
        t = shrink_list(&t, &mut |rows: &[XRow]| xs_fails(rows, &u2, &st2, class));
        let t2 = t.clone();
        u = shrink_list(&u, &mut |rows: &[URow]| xs_fails(&t2, rows, &st2, class));
        let mut changed = false;
        loop {
            let mut cands: Vec<XStmt> = Vec::new();
            if st.cond.is_some() {
                let mut c = st.clone();
                c.cond = None;
                cands.push(c);
            }
            if st.proj.is_some() {
                let mut c = st.clone();
                c.proj = None;
                cands.push(c);
            }
            for i in 0..st.order.len() {
                let mut c = st.clone();
                c.order.remove(i);
                cands.push(c);
            }
            for i in 0..st.order.len() {
                if st.order[i].nulls.is_some() || st.order[i].desc || st.order[i].asc_written {
                    let mut c = st.clone();
                    c.order[i].nulls = None;
                    c.order[i].desc = false;
                    c.order[i].asc_written = false;
                    cands.push(c);
                }
            }
            if st.offset != XC::Absent {
                let mut c = st.clone();
                c.offset = XC::Absent;
                cands.push(c);
            }
            if let XC::Lit(o) = st.offset {
                for o2 in [0, 1, o / 2, o.saturating_sub(1)] {
                    if o2 < o {
                        let mut c = st.clone();
                        c.offset = XC::Lit(o2);
                        cands.push(c);
                    }
                }
            }
            if st.limit != XC::Absent {
                let mut c = st.clone();
                c.limit = XC::Absent;
                cands.push(c);
            }
            if let XC::Lit(k) = st.limit {
                for k2 in [0, 1, k / 2, k.saturating_sub(1)] {
                    if k2 < k {
                        let mut c = st.clone();
                        c.limit = XC::Lit(k2);
                        cands.push(c);
                    }
                }
            }
            match cands.into_iter().find(|c| xs_fails(&t, &u, c, class)) {
                Some(c) => {
                    st = c;
                    changed = true;
                }
                None => break,
            }
        }
        if !changed {
            break;
        }
    }
    (t, u, st)
}

fn x_rows_json(t: &[XRow], u: &[URow]) -> serde_json::Value {
    json!({
        "t(a, b, name)": t.iter().map(|r| json!([r.a, r.b, r.name])).collect::<Vec<_>>(),
        "u(a, w)": u.iter().map(|r| json!([r.a, r.w])).collect::<Vec<_>>(),
    })
}

struct XCtx {
    reported: std::collections::BTreeSet<String>,
    /// stop consulting the model after its first disagreement (the oracles go on, real-only)
    model_on: bool,
}

/// run one statement on `db` (built from t, u): oracles on the real outputs, then the model
fn xs_case(m: &mut Model, rep: &mut Report, cx: &mut XCtx, db: &XDb, t: &[XRow], u: &[URow], st: &XStmt, stream: &str) {
    let ev = xs_eval(db, st);
    let text = st.text(true, true, true);
    let case_key = format!("{text}|{:?}|{:?}", t, u);
    rep.case(stream, if ev.base_len >= 2 { Some(&case_key) } else { None });
    let m_ = ev.base_len as u64;
    for (kw, c) in [("limit", &st.limit), ("offset", &st.offset)] {
        let tag = match c {
            XC::Absent => "absent".to_string(),
            XC::Other(_) => "not_a_literal".to_string(),
            XC::Lit(n) => {
                if *n == 0 { "0".into() } else if *n == m_ { "m".into() } else if *n == m_ + 1 { "m+1".into() } else if *n + 1 == m_ { "m-1".into() } else if *n == 1 { "1".into() } else if *n < m_ { "inside".into() } else { "beyond".into() }
            }
        };
        rep.hit(&format!("xsel.{kw}.{tag}"));
        if tag == "0" && ev.base_len > 0 {
            rep.hit(&format!("xsel.{kw}.0.on_nonempty_result"));
        }
    }
    rep.hit(if st.join.is_some() { "xsel.shape.join" } else { "xsel.shape.single_table" });
    if !st.order.is_empty() {
        rep.hit(&format!("xsel.order.items.{}", st.order.len().min(3)));
        if st.order.iter().any(|o| o.desc) {
            rep.hit("xsel.order.desc");
        }
        if st.order.iter().any(|o| o.nulls.is_some()) {
            rep.hit("xsel.order.nulls_clause");
        }
    }
    if st.proj.is_some() {
        rep.hit("xsel.projection.columns");
    }
    if st.cond.is_some() {
        rep.hit("xsel.where");
    }
    rep.hit(&format!("xsel.result_rows.{}", ev.final_len.min(9)));
    for (class, what) in &ev.viol {
        rep.hit(&format!("xsel.violation.{class}"));
        if cx.reported.insert(class.clone()) {
            let (t2, u2, st2) = xs_shrink(t, u, st, class);
            let db2 = xdb(&t2, &u2);
            let ev2 = xs_eval(&db2, &st2);
            let what2 = ev2.viol.iter().find(|(c, _)| c == class).map_or(what.clone(), |(_, w)| w.clone());
            rep.violation(
                class,
                &what2,
                json!({"text": st2.text(true, true, true), "tables": x_rows_json(&t2, &u2), "found_as": text, "found_on": x_rows_json(t, u)}),
            );
        }
    }
    if ev.mixed {
        rep.hit("xsel.order.outer_join_rows_with_missing_and_null_sort_keys");
        if ev.base_len > 20 {
            rep.hit("xsel.order.outer_join_rows_with_missing_and_null_sort_keys.more_than_20_rows");
        }
    }
    if cx.model_on {
        if let Some((line, real)) = &ev.model {
            let ans = m.ask(line);
            if !rep.compare("xsel.model", || json!({"text": text, "tables": x_rows_json(t, u), "model_op": line}), real, &ans) {
                cx.model_on = false;
            }
        }
    }
}

fn x_boundaries(m: usize) -> Vec<XC> {
    let mut v = vec![XC::Absent, XC::Lit(0), XC::Lit(1)];
    for n in [m.saturating_sub(1), m, m + 1] {
        if !v.contains(&XC::Lit(n as u64)) {
            v.push(XC::Lit(n as u64));
        }
    }
    v
}

const X_JOINS: [&str; 8] = [
    "JOIN u ON t.a = u.a",
    "INNER JOIN u ON t.a = u.a",
    "LEFT JOIN u ON t.a = u.a",
    "RIGHT JOIN u ON t.a = u.a",
    "FULL JOIN u ON t.a = u.a",
    "CROSS JOIN u",
    "NATURAL JOIN u",
    "LEFT OUTER JOIN u ON t.a = u.a",
];

fn x_ord(col: &'static str, desc: bool, nulls: Option<bool>) -> XOrd {
    XOrd { col, desc, asc_written: false, nulls }
}

fn x_directed_rows(n: usize) -> (Vec<XRow>, Vec<URow>) {
    // ties on a, NULLs in every column, names out of order
    let all = [
        XRow { a: Some(2), b: Some(1), name: Some("y") },
        XRow { a: None, b: Some(1), name: Some("x") },
        XRow { a: Some(1), b: None, name: Some("z") },
        XRow { a: Some(2), b: Some(0), name: None },
        XRow { a: Some(1), b: Some(1), name: Some("x") },
    ];
    let us = [URow { a: Some(2), w: 20 }, URow { a: Some(1), w: 10 }, URow { a: Some(2), w: 21 }, URow { a: None, w: 30 }, URow { a: Some(9), w: 90 }];
    (all[..n.min(all.len())].to_vec(), us[..(n + 1).min(us.len())].to_vec())
}

fn x_shapes() -> Vec<XStmt> {
    let base = XStmt { proj: None, join: None, cond: None, order: vec![], limit: XC::Absent, offset: XC::Absent };
    let mut v = vec![base.clone()];
    v.push(XStmt { cond: Some(Cond::Leaf("a", ">=", 1)), ..base.clone() });
    v.push(XStmt { order: vec![x_ord("a", false, None)], ..base.clone() });
    v.push(XStmt { order: vec![x_ord("a", true, None), x_ord("b", false, None)], ..base.clone() });
    v.push(XStmt { order: vec![x_ord("name", false, Some(true))], cond: Some(Cond::Leaf("b", "!=", 7)), ..base.clone() });
    v.push(XStmt { proj: Some(vec!["name", "a"]), order: vec![x_ord("a", false, Some(false))], ..base.clone() });
    v.push(XStmt { proj: Some(vec!["b"]), ..base.clone() });
    v.push(XStmt { join: Some(X_JOINS[0]), ..base.clone() });
    v.push(XStmt { join: Some(X_JOINS[0]), order: vec![x_ord("u.w", true, None)], ..base.clone() });
    v.push(XStmt { join: Some(X_JOINS[2]), order: vec![x_ord("t.b", false, None), x_ord("w", false, None)], ..base.clone() });
    v.push(XStmt { join: Some(X_JOINS[5]), cond: Some(Cond::Leaf("u.w", ">", 10)), ..base.clone() });
    v.push(XStmt { join: Some(X_JOINS[6]), ..base });
    v
}

/// the tables of known_findings `…exec_select_with_joins/order_by_panics_on_outer_join_rows` (fixed, /repo 1133d8d8):
/// 21 rows of t, u.a = [NULL, 1, 2] (+ `extra` rows of u without partner in t, for RIGHT / FULL joins)
fn x_outer_join_tables(extra: bool) -> (Vec<XRow>, Vec<URow>) {
    let ta: [Option<i64>; 21] = [Some(4), Some(3), Some(4), Some(1), Some(3), Some(4), Some(3), Some(1), Some(2), Some(1), None, Some(3), None, Some(4), None, Some(2), None, Some(2), Some(3), Some(2), Some(1)];
    let t: Vec<XRow> = ta.iter().enumerate().map(|(i, a)| XRow { a: *a, b: if extra { if i % 5 == 0 { None } else { Some(i as i64 % 2) } } else { None }, name: None }).collect();
    let mut u = vec![URow { a: None, w: 0 }, URow { a: Some(1), w: 1 }, URow { a: Some(2), w: 2 }];
    if extra {
        u.extend([URow { a: Some(9), w: 3 }, URow { a: None, w: 4 }, URow { a: Some(8), w: 5 }]);
    }
    (t, u)
}

/// Regression cases of repaired defects; they run before everything else of the xsel streams.
/// /repo 1133d8d8: ORDER BY over the rows of an outer join in which a sort column is missing in one row and NULL in
/// another.  The shortest history in which the repaired comparator is the only thing between the statement and a
/// panic: more than 20 such rows (sort_by's small-slice path never notices an inconsistent comparator), exactly the
/// statement of the finding first; then every outer join × sort column × direction × NULLS clause on those tables.
fn xs_regressions(m: &mut Model, rep: &mut Report, cx: &mut XCtx) {
    let base = XStmt { proj: None, join: None, cond: None, order: vec![], limit: XC::Absent, offset: XC::Absent };
    let (t, u) = x_outer_join_tables(false);
    let db = xdb(&t, &u);
    let st = XStmt { join: Some("LEFT JOIN u ON t.a = u.a"), order: vec![x_ord("u.a", true, None)], ..base.clone() };
    xs_case(m, rep, cx, &db, &t, &u, &st, "xsel.directed.regression");
    let ev = xs_eval(&db, &st);
    if ev.mixed && ev.base_len > 20 && ev.viol.is_empty() {
        rep.hit("xsel.regression.order_by_on_outer_join_rows.sorted");
    }
    for extra in [false, true] {
        let (t, u) = x_outer_join_tables(extra);
        let db = xdb(&t, &u);
        for join in ["LEFT JOIN u ON t.a = u.a", "RIGHT JOIN u ON t.a = u.a", "FULL JOIN u ON t.a = u.a", "LEFT OUTER JOIN u ON t.a = u.a"] {
            for cols in [vec!["u.a"], vec!["t.a"], vec!["w"], vec!["b"], vec!["u.a", "t.b"], vec!["t.a", "u.w"]] {
                for desc in [false, true] {
                    for nulls in [None, Some(true), Some(false)] {
                        let order = cols.iter().enumerate().map(|(i, c)| x_ord(c, desc != (i == 1), if i == 0 { nulls } else { None })).collect();
                        let st = XStmt { join: Some(join), order, ..base.clone() };
                        xs_case(m, rep, cx, &db, &t, &u, &st, "xsel.directed.regression");
                    }
                }
            }
        }
        // windows of the ordered rows at the boundary between the NULL / missing block and the values
        let st = XStmt { join: Some("FULL JOIN u ON t.a = u.a"), order: vec![x_ord("u.a", true, None)], limit: XC::Lit(7), offset: XC::Lit(3), ..base.clone() };
        xs_case(m, rep, cx, &db, &t, &u, &st, "xsel.directed.regression");
    }
}

fn xs_directed(m: &mut Model, rep: &mut Report, cx: &mut XCtx, rng: &Rng) {
    let mut r = rng.fork("xsel.directed");
    xs_regressions(m, rep, cx);
    // the smallest history first: one row, LIMIT 0 (and its neighbours LIMIT 1, LIMIT 2), with and without a join
    for n in [1usize, 2, 0, 3, 4, 5] {
        let (t, u) = x_directed_rows(n);
        let db = xdb(&t, &u);
        for shape in x_shapes() {
            let m_rows = x_direct(&db, &shape).map_or(0, |b| b.len());
            for lim in x_boundaries(m_rows) {
                for off in x_boundaries(m_rows) {
                    let st = XStmt { limit: lim.clone(), offset: off, ..shape.clone() };
                    xs_case(m, rep, cx, &db, &t, &u, &st, "xsel.directed");
                }
            }
        }
        xs_aggregates(rep, cx, &db, &t, &u, &mut r, "xsel.directed.aggregate");
        xs_dml(rep, cx, &t, &u, &mut r, "xsel.directed.dml");
    }
}

/// `big`: 21..60 rows with few distinct values — many ties, and the sizes at which `sort_by` leaves its small-slice path
fn x_gen_rows(r: &mut Rng, big: bool) -> (Vec<XRow>, Vec<URow>) {
    let n = if big { 21 + r.below(40) as usize } else if r.chance(1, 8) { 0 } else { 1 + r.below(8) as usize };
    let t = (0..n)
        .map(|_| XRow {
            a: if r.chance(1, 4) { None } else { Some(r.below(3) as i64) },
            b: if r.chance(1, 4) { None } else { Some(r.below(2) as i64) },
            name: if r.chance(1, 5) { None } else { Some(*r.pick(&["x", "y", "z"])) },
        })
        .collect();
    let k = r.below(5) as usize;
    let u = (0..k).map(|i| URow { a: if r.chance(1, 5) { None } else { Some(r.below(4) as i64) }, w: 10 * (1 + r.below(3) as i64) + i as i64 % 2 }).collect();
    (t, u)
}

fn x_gen_shape(r: &mut Rng) -> XStmt {
    let join = if r.chance(1, 3) { Some(*r.pick(&X_JOINS)) } else { None };
    let cond = if r.chance(1, 2) {
        None
    } else if join.is_some() {
        Some(Cond::Leaf("u.w", *r.pick(&["=", "!=", "<", "<=", ">", ">="]), 10 * (1 + r.below(3) as i64)))
    } else {
        let leaf = |r: &mut Rng| {
            if r.chance(1, 5) {
                Cond::Name(*r.pick(&["=", "!="]), *r.pick(&["x", "y", "z"]))
            } else {
                Cond::Leaf(*r.pick(&["a", "b"]), *r.pick(&["=", "!=", "<", "<=", ">", ">="]), r.below(3) as i64)
            }
        };
        let l = leaf(r);
        Some(if r.chance(1, 3) {
            let rr = leaf(r);
            if r.chance(1, 2) { Cond::And(Box::new(l), Box::new(rr)) } else { Cond::Or(Box::new(l), Box::new(rr)) }
        } else {
            l
        })
    };
    let proj = if join.is_none() && r.chance(1, 3) {
        let mut cols = vec!["a", "b", "name"];
        r.shuffle(&mut cols);
        cols.truncate(1 + r.below(3) as usize);
        Some(cols)
    } else {
        None
    };
    let n_items = if r.chance(1, 3) { 0 } else { 1 + r.below(3) as usize };
    let pool: &[&'static str] = if join.is_some() { &["t.a", "t.b", "t.name", "u.a", "u.w", "w", "b", "name"] } else { &["a", "b", "name"] };
    let order = (0..n_items)
        .map(|_| XOrd {
            col: *r.pick(pool),
            desc: r.chance(1, 2),
            asc_written: r.chance(1, 3),
            nulls: if r.chance(1, 3) { Some(r.chance(1, 2)) } else { None },
        })
        .collect();
    XStmt { proj, join, cond, order, limit: XC::Absent, offset: XC::Absent }
}

fn x_gen_clause(r: &mut Rng, m: usize) -> XC {
    match r.below(12) {
        0 | 1 => XC::Absent,
        2 | 3 => XC::Lit(0),
        4 => XC::Lit(1),
        5 => XC::Lit(m.saturating_sub(1) as u64),
        6 => XC::Lit(m as u64),
        7 => XC::Lit(m as u64 + 1),
        8 | 9 => XC::Lit(r.below(m as u64 + 3)),
        10 => XC::Lit(1000 + r.below(1 << 40)),
        _ => XC::Other(*r.pick(&["1 + 1", "-1", "2.0", "NULL", "'1'"])),
    }
}

fn stream_xsel(m: &mut Model, rep: &mut Report, rng: &Rng, thorough: bool, cx: &mut XCtx) {
    let mut r = rng.fork("xsel");
    let dbs = if thorough { 1500 } else { 120 };
    for i in 0..dbs {
        let big = i % 8 == 7;
        let (t, u) = x_gen_rows(&mut r, big);
        rep.hit(if big { "xsel.table.21_to_60_rows" } else { "xsel.table.0_to_8_rows" });
        let db = xdb(&t, &u);
        xs_aggregates(rep, cx, &db, &t, &u, &mut r, "xsel.random.aggregate");
        if i % 4 == 0 {
            xs_dml(rep, cx, &t, &u, &mut r, "xsel.random.dml");
        }
        for _ in 0..(if big { 12 } else { 40 }) {
            let shape = x_gen_shape(&mut r);
            let m_rows = x_direct(&db, &shape).map_or(0, |b| b.len());
            let st = XStmt { limit: x_gen_clause(&mut r, m_rows), offset: x_gen_clause(&mut r, m_rows), ..shape };
            xs_case(m, rep, cx, &db, &t, &u, &st, "xsel.random");
        }
    }
}


// ---- aggregates, GROUP BY / HAVING: the text route against the engine's aggregate calls and against groups
// computed from the direct row query

fn x_val(v: &RV) -> String {
    match v {
        // floats that are exactly representable here (sums / averages of small integers) compare as bits
        RV::Float(f) => format!("Float({:016x})", f.to_bits()),
        other => format!("{other:?}"),
    }
}

fn x_cells_sorted(r: &relational_engine::Row) -> String {
    let mut c: Vec<String> = r.values.iter().map(|(k, v)| format!("{k}={}", x_val(v))).collect();
    c.sort();
    c.join(",")
}

fn xs_aggregates(rep: &mut Report, cx: &mut XCtx, db: &XDb, t: &[XRow], u: &[URow], r: &mut Rng, stream: &str) {
    let rel = db.q.relational();
    let conds: Vec<Option<Cond>> = vec![
        None,
        Some(Cond::Leaf("b", "=", 1)),
        Some(Cond::Leaf("a", ">=", r.below(3) as i64)),
        Some(Cond::Leaf("a", ">", 99)),
        Some(Cond::Or(Box::new(Cond::Leaf("a", "=", 1)), Box::new(Cond::Name("=", "x")))),
    ];
    for c in conds {
        let (wtext, direct) = match &c {
            None => (String::new(), Condition::True),
            Some(c) => {
                let mut w = String::from(" WHERE ");
                c.print(false, &mut w);
                (w, c.direct())
            }
        };
        // ---- whole-table aggregates = the engine's aggregate calls
        let tail = ["", " LIMIT 0", " LIMIT 5 OFFSET 3", " ORDER BY a DESC"][r.below(4) as usize];
        let text = format!("SELECT COUNT(*), COUNT(a), SUM(a), AVG(a), MIN(a), MAX(a), MIN(name), MAX(name) FROM t{wtext}{tail}");
        rep.case(stream, Some(&format!("{text}|{t:?}")));
        rep.hit("xsel.family.aggregate");
        let got = match guarded(std::panic::AssertUnwindSafe(|| db.q.execute_parsed(&text))) {
            Ok(Ok(query_router::QueryResult::Rows(rows))) => rows.iter().map(x_cells_sorted).collect::<Vec<_>>().join(" | "),
            Ok(o) => canon_qr(&o),
            Err(p) => format!("panic {p}"),
        };
        let want = (|| -> std::result::Result<String, String> {
            let e = |e: relational_engine::RelationalError| format!("error {e:?}");
            let opt = |v: Option<RV>| v.unwrap_or(RV::Null);
            let mut cells = vec![
                format!("COUNT(*)={}", x_val(&RV::Int(rel.count("t", direct.clone()).map_err(e)? as i64))),
                format!("COUNT(a)={}", x_val(&RV::Int(rel.count_column("t", "a", direct.clone()).map_err(e)? as i64))),
                format!("SUM(a)={}", x_val(&RV::Float(rel.sum("t", "a", direct.clone()).map_err(e)?))),
                format!("AVG(a)={}", x_val(&rel.avg("t", "a", direct.clone()).map_err(e)?.map_or(RV::Null, RV::Float))),
                format!("MIN(a)={}", x_val(&opt(rel.min("t", "a", direct.clone()).map_err(e)?))),
                format!("MAX(a)={}", x_val(&opt(rel.max("t", "a", direct.clone()).map_err(e)?))),
                format!("MIN(name)={}", x_val(&opt(rel.min("t", "name", direct.clone()).map_err(e)?))),
                format!("MAX(name)={}", x_val(&opt(rel.max("t", "name", direct.clone()).map_err(e)?))),
            ];
            cells.sort();
            Ok(cells.join(","))
        })()
        .unwrap_or_else(|e| e);
        if got != want {
            let class = "query_router::QueryRouter::try_exec_aggregates/aggregate_differs_from_direct_engine_call";
            rep.hit(&format!("xsel.violation.{class}"));
            if cx.reported.insert(class.to_string()) {
                rep.violation(class, &format!("`{text}` returned [{got}] but the engine's aggregate calls return [{want}]"),
                    json!({"text": text, "tables": x_rows_json(t, u)}));
            }
        }
        // ---- GROUP BY a [HAVING COUNT(*) > h]: groups computed from the direct row query
        let having = if r.chance(1, 2) { Some(r.below(3) as i64) } else { None };
        let text = format!(
            "SELECT a, COUNT(*), COUNT(b), SUM(b), MIN(name) FROM t{wtext} GROUP BY a{}",
            having.map_or(String::new(), |h| format!(" HAVING COUNT(*) > {h}"))
        );
        rep.case(stream, Some(&format!("{text}|{t:?}")));
        rep.hit(if having.is_some() { "xsel.family.group_by_having" } else { "xsel.family.group_by" });
        let got = match guarded(std::panic::AssertUnwindSafe(|| db.q.execute_parsed(&text))) {
            Ok(Ok(query_router::QueryResult::Rows(rows))) => {
                let mut v: Vec<String> = rows.iter().map(x_cells_sorted).collect();
                v.sort();
                v.join(" | ")
            }
            Ok(o) => canon_qr(&o),
            Err(p) => format!("panic {p}"),
        };
        let want = match rel.select("t", direct.clone()) {
            Err(e) => format!("error {e:?}"),
            Ok(rows) => {
                let get = |r: &relational_engine::Row, c: &str| r.values.iter().find(|(k, _)| k == c).map_or(RV::Null, |(_, v)| v.clone());
                let mut groups: Vec<(RV, Vec<&relational_engine::Row>)> = Vec::new();
                for row in &rows {
                    let k = get(row, "a");
                    match groups.iter_mut().find(|(g, _)| format!("{g:?}") == format!("{k:?}")) {
                        Some((_, v)) => v.push(row),
                        None => groups.push((k, vec![row])),
                    }
                }
                let mut v: Vec<String> = groups
                    .iter()
                    .filter(|(_, g)| having.map_or(true, |h| g.len() as i64 > h))
                    .map(|(k, g)| {
                        let count_b = g.iter().filter(|r| !matches!(get(r, "b"), RV::Null)).count();
                        let sum_b: f64 = g.iter().map(|r| if let RV::Int(i) = get(r, "b") { i as f64 } else { 0.0 }).sum();
                        let min_name = g.iter().filter_map(|r| if let RV::String(s) = get(r, "name") { Some(s) } else { None }).min();
                        let mut cells = vec![
                            format!("a={}", x_val(k)),
                            format!("COUNT(*)={}", x_val(&RV::Int(g.len() as i64))),
                            format!("COUNT(b)={}", x_val(&RV::Int(count_b as i64))),
                            format!("SUM(b)={}", x_val(&RV::Float(sum_b))),
                            format!("MIN(name)={}", x_val(&min_name.map_or(RV::Null, RV::String))),
                        ];
                        cells.sort();
                        cells.join(",")
                    })
                    .collect();
                v.sort();
                v.join(" | ")
            }
        };
        if got != want {
            let class = "query_router::QueryRouter::exec_grouped_aggregates/groups_differ_from_direct_engine_call";
            rep.hit(&format!("xsel.violation.{class}"));
            if cx.reported.insert(class.to_string()) {
                rep.violation(class, &format!("`{text}` returned [{got}] but grouping the rows of RelationalEngine::select gives [{want}]"),
                    json!({"text": text, "tables": x_rows_json(t, u)}));
            }
        }
    }
}

// ---- INSERT / UPDATE / DELETE: result (row count / ids) AND table state, text on A, direct call on B

fn xs_dml(rep: &mut Report, cx: &mut XCtx, t: &[XRow], u: &[URow], r: &mut Rng, stream: &str) {
    let lit = |v: &Option<i64>| v.map_or("NULL".to_string(), |x| x.to_string());
    let gen_cond = |r: &mut Rng| -> Option<Cond> {
        match r.below(4) {
            0 => None,
            1 => Some(Cond::Leaf(*r.pick(&["a", "b"]), *r.pick(&["=", "!=", "<", ">="]), r.below(3) as i64)),
            2 => Some(Cond::Name(*r.pick(&["=", "!="]), *r.pick(&["x", "y", "z"]))),
            _ => Some(Cond::Leaf("a", ">", 99)),
        }
    };
    for kind in 0..4 {
        let (a, b) = (xdb(t, u), xdb(t, u));
        let c = gen_cond(r);
        let (wtext, direct) = match &c {
            None => (String::new(), Condition::True),
            Some(c) => {
                let mut w = String::from(" WHERE ");
                c.print(false, &mut w);
                (w, c.direct())
            }
        };
        let (text, got, want) = match kind {
            0 => {
                let text = format!("DELETE FROM t{wtext}");
                rep.hit(if c.is_none() { "xsel.family.delete_all" } else { "xsel.family.delete_where" });
                let want = match b.q.relational().delete_rows("t", direct) {
                    Ok(n) => format!("count {n}"),
                    Err(e) => format!("error {e:?}"),
                };
                (text.clone(), canon_qr(&a.q.execute_parsed(&text)), want)
            }
            1 => {
                let (vb, vn) = (r.below(9) as i64 + 10, *r.pick(&["p", "q"]));
                let text = format!("UPDATE t SET b = {vb}, name = '{vn}'{wtext}");
                rep.hit("xsel.family.update");
                let mut up = std::collections::HashMap::new();
                up.insert("b".to_string(), RV::Int(vb));
                up.insert("name".to_string(), RV::String(vn.to_string()));
                let want = match b.q.relational().update("t", direct, up) {
                    Ok(n) => format!("count {n}"),
                    Err(e) => format!("error {e:?}"),
                };
                (text.clone(), canon_qr(&a.q.execute_parsed(&text)), want)
            }
            2 => {
                // several rows in one statement, NULLs included
                let k = 1 + r.below(3) as usize;
                let rows: Vec<XRow> = (0..k)
                    .map(|_| XRow {
                        a: if r.chance(1, 3) { None } else { Some(r.below(50) as i64) },
                        b: if r.chance(1, 3) { None } else { Some(r.below(50) as i64) },
                        name: if r.chance(1, 3) { None } else { Some(*r.pick(&["x", "y", "z"])) },
                    })
                    .collect();
                let tuples: Vec<String> = rows
                    .iter()
                    .map(|x| format!("({}, {}, {})", lit(&x.a), lit(&x.b), x.name.map_or("NULL".to_string(), |s| format!("'{s}'"))))
                    .collect();
                let text = format!("INSERT INTO t (a, b, name) VALUES {}", tuples.join(", "));
                rep.hit("xsel.family.insert_rows");
                let mut ids = Vec::new();
                let mut err = None;
                for x in &rows {
                    match b.q.relational().insert("t", x_row_map(x)) {
                        Ok(id) => ids.push(id),
                        Err(e) => {
                            err = Some(format!("error {e:?}"));
                            break;
                        }
                    }
                }
                (text.clone(), canon_qr(&a.q.execute_parsed(&text)), err.unwrap_or(format!("ids {ids:?}")))
            }
            _ => {
                // no column list: values in schema order
                let x = XRow { a: Some(r.below(50) as i64), b: Some(r.below(50) as i64), name: Some(*r.pick(&["x", "y", "z"])) };
                let text = format!("INSERT INTO t VALUES ({}, {}, '{}')", lit(&x.a), lit(&x.b), x.name.unwrap());
                rep.hit("xsel.family.insert_positional");
                let want = match b.q.relational().insert("t", x_row_map(&x)) {
                    Ok(id) => format!("ids [{id}]"),
                    Err(e) => format!("error {e:?}"),
                };
                (text.clone(), canon_qr(&a.q.execute_parsed(&text)), want)
            }
        };
        rep.case(stream, Some(&format!("{text}|{t:?}")));
        let (sa, sb) = (table_state(&a.q), table_state(&b.q));
        if sa != sb {
            let class = "query_router::QueryRouter::execute_parsed/effect_differs_from_direct_call";
            rep.hit(&format!("xsel.violation.{class}"));
            if cx.reported.insert(class.to_string()) {
                rep.violation(class, &format!("after `{text}` the table is [{}] ; after the direct call [{}]", &sa[..sa.len().min(200)], &sb[..sb.len().min(200)]),
                    json!({"text": text, "tables": x_rows_json(t, u)}));
            }
        }
        if got != want {
            let class = "query_router::QueryRouter::execute_parsed/result_differs_from_direct_call";
            rep.hit(&format!("xsel.violation.{class}"));
            if cx.reported.insert(class.to_string()) {
                rep.violation(class, &format!("`{text}` answered {got} ; the direct call {want}"), json!({"text": text, "tables": x_rows_json(t, u)}));
            }
        }
    }
}

// ---- INSERT … VALUES with several tuples of DIFFERENT lengths (Parse/Insert.lean, op `insrows`).
// The row a tuple produces is a function of the target column list and of THAT tuple only: the first
// min(|columns|, |tuple|) columns get the tuple's values, every other column of the table is NULL / absent —
// whatever the other tuples of the statement are.  The statement runs as text on database A; on the twin B the
// rows are built by `ins_row` (written from the model's rule) and inserted by direct RelationalEngine::insert
// calls; ids, the table state row by row, and the model's rows are compared.  xsel.insert.directed runs first
// (the minimal history: a longer tuple followed by a shorter one, and its neighbours), then xsel.insert.random.
// A failing statement is shrunk (tuples, then trailing values, then the column list).

#[derive(Clone, Debug, PartialEq)]
enum IV {
    Null,
    Int(i64),
    Str(&'static str),
}

impl IV {
    fn sql(&self) -> String {
        match self {
            IV::Null => "NULL".into(),
            IV::Int(n) => n.to_string(),
            IV::Str(s) => format!("'{s}'"),
        }
    }
    fn rv(&self) -> RV {
        match self {
            IV::Null => RV::Null,
            IV::Int(n) => RV::Int(*n),
            IV::Str(s) => RV::String(s.to_string()),
        }
    }
    fn token(&self) -> String {
        match self {
            IV::Null => "n".into(),
            IV::Int(n) => n.to_string(),
            IV::Str(s) => format!("s{s}"),
        }
    }
}

#[derive(Clone, Debug, PartialEq)]
struct InsCase {
    /// None: no column list, the values go to the table's columns in schema order
    cols: Option<Vec<&'static str>>,
    tuples: Vec<Vec<IV>>,
}

const INS_SCHEMA: [&str; 3] = ["a", "b", "name"];

impl InsCase {
    fn target(&self) -> Vec<&'static str> {
        self.cols.clone().unwrap_or_else(|| INS_SCHEMA.to_vec())
    }
    fn text(&self) -> String {
        let cl = self.cols.as_ref().map_or(String::new(), |c| format!(" ({})", c.join(", ")));
        let tuples: Vec<String> = self.tuples.iter().map(|t| format!("({})", t.iter().map(IV::sql).collect::<Vec<_>>().join(", "))).collect();
        format!("INSERT INTO t{cl} VALUES {}", tuples.join(", "))
    }
    fn model_line(&self) -> String {
        format!(
            "insrows {} {} {}",
            INS_SCHEMA.join(","),
            self.cols.as_ref().map_or("-".to_string(), |c| c.join(",")),
            self.tuples.iter().map(|t| t.iter().map(IV::token).collect::<Vec<_>>().join(",")).collect::<Vec<_>>().join(";")
        )
    }
    fn shape(&self) -> &'static str {
        let l: Vec<usize> = self.tuples.iter().map(Vec::len).collect();
        let down = l.windows(2).any(|w| w[1] < w[0]);
        let up = l.windows(2).any(|w| w[1] > w[0]);
        match (l.len(), down, up) {
            (0 | 1, _, _) => "single_tuple",
            (_, true, true) => "shorter_and_longer_mixed",
            (_, true, false) => "shorter_after_longer",
            (_, false, true) => "longer_after_shorter",
            _ => "equal_lengths",
        }
    }
}

/// The row of ONE tuple: column list zipped with the tuple (a later duplicate column wins); nothing else.
fn ins_row(target: &[&'static str], tuple: &[IV]) -> std::collections::HashMap<String, RV> {
    let mut m = std::collections::HashMap::new();
    for (c, v) in target.iter().zip(tuple.iter()) {
        m.insert(c.to_string(), v.rv());
    }
    m
}

fn ins_value_for(r: &mut Rng, col: &str) -> IV {
    if r.chance(1, 6) {
        IV::Null
    } else if col == "name" {
        IV::Str(*r.pick(&["x", "y", "z", "p"]))
    } else {
        IV::Int(r.below(90) as i64 + 1)
    }
}

/// rows of database `q` with the given ids, cells in schema order, NULL and absent cells both left out
fn ins_rows_of(q: &query_router::QueryRouter, ids: &[u64]) -> String {
    let rows = q.relational().select("t", Condition::True).unwrap_or_default();
    let shown: Vec<String> = ids
        .iter()
        .map(|id| match rows.iter().find(|r| r.id == *id) {
            None => "?".to_string(),
            Some(r) => {
                let cells: Vec<String> = INS_SCHEMA
                    .iter()
                    .filter_map(|c| match r.values.iter().find(|(k, _)| k == c).map(|(_, v)| v) {
                        None | Some(RV::Null) => None,
                        Some(RV::Int(n)) => Some(format!("{c}={n}")),
                        Some(RV::String(s)) => Some(format!("{c}=s{s}")),
                        Some(o) => Some(format!("{c}=?{o:?}")),
                    })
                    .collect();
                if cells.is_empty() { "_".to_string() } else { cells.join(",") }
            }
        })
        .collect();
    format!("rows {}", if shown.is_empty() { "-".to_string() } else { shown.join(";") })
}

struct InsEval {
    /// (oracle class, description)
    viol: Vec<(&'static str, String)>,
    /// rows the statement created on A, in statement order (None: the statement did not answer with ids)
    real_rows: Option<String>,
}

fn ins_eval(t: &[XRow], c: &InsCase) -> InsEval {
    let (a, b) = (xdb(t, &[]), xdb(t, &[]));
    let text = c.text();
    let text2 = text.clone();
    let res = guarded(std::panic::AssertUnwindSafe(|| a.q.execute_parsed(&text2)));
    let mut viol = Vec::new();
    let target = c.target();
    let mut ids = Vec::new();
    let mut err = None;
    for tp in &c.tuples {
        match b.q.relational().insert("t", ins_row(&target, tp)) {
            Ok(id) => ids.push(id),
            Err(e) => {
                err = Some(format!("error {e:?}"));
                break;
            }
        }
    }
    // an engine error (none is generated on purpose): the kind only, the router wraps the engine's error
    let want = match &err {
        Some(_) => "error".to_string(),
        None => format!("ids {ids:?}"),
    };
    let (got, real_ids) = match &res {
        Ok(r) => {
            let g = canon_qr(r);
            (if g.starts_with("error") { "error".to_string() } else { g }, if let Ok(query_router::QueryResult::Ids(v)) = r { Some(v.clone()) } else { None })
        }
        Err(p) => (format!("panic {p}"), None),
    };
    // table state, row by row
    let rows_of = |q: &query_router::QueryRouter| -> Vec<String> {
        let mut v: Vec<String> = q
            .relational()
            .select("t", Condition::True)
            .unwrap_or_default()
            .iter()
            .map(|r| {
                let mut cols: Vec<String> = r.values.iter().filter(|(k, v)| k != "_id" && !matches!(v, RV::Null)).map(|(k, v)| format!("{k}={v:?}")).collect();
                cols.sort();
                format!("#{} {}", r.id, cols.join(","))
            })
            .collect();
        v.sort();
        v
    };
    let (ra, rb) = (rows_of(&a.q), rows_of(&b.q));
    if ra != rb {
        let first = ra.iter().zip(rb.iter()).find(|(x, y)| x != y).map(|(x, y)| format!("row [{x}] by text, [{y}] by the direct call"))
            .unwrap_or_else(|| format!("{} rows by text, {} rows by direct calls", ra.len(), rb.len()));
        viol.push(("query_router::QueryRouter::exec_insert/values_row_differs_from_direct_call",
            format!("after `{text}` on a table of {} rows: {first} (every row is built from the column list and its own tuple only)", t.len())));
    }
    if got != want {
        viol.push(("query_router::QueryRouter::exec_insert/values_result_differs_from_direct_call", format!("`{text}` answered {got} ; the direct calls {want}")));
    }
    InsEval { viol, real_rows: real_ids.map(|v| ins_rows_of(&a.q, &v)) }
}

fn ins_shrink(t: &[XRow], c: &InsCase, class: &str) -> (Vec<XRow>, InsCase) {
    let fails = |t: &[XRow], c: &InsCase| !c.tuples.is_empty() && ins_eval(t, c).viol.iter().any(|(k, _)| *k == class);
    let mut t = t.to_vec();
    let mut c = c.clone();
    if fails(&[], &c) {
        t.clear();
    }
    let c0 = c.clone();
    c.tuples = shrink_list(&c.tuples, &mut |tp: &[Vec<IV>]| fails(&t, &InsCase { tuples: tp.to_vec(), ..c0.clone() }));
    // trailing values of every tuple
    let mut progress = true;
    while progress {
        progress = false;
        for i in 0..c.tuples.len() {
            if c.tuples[i].len() > 1 {
                let mut d = c.clone();
                d.tuples[i].pop();
                if fails(&t, &d) {
                    c = d;
                    progress = true;
                }
            }
        }
    }
    // the column list: absent, or in schema order
    for cand in [None, Some(INS_SCHEMA.to_vec())] {
        let d = InsCase { cols: cand, ..c.clone() };
        if d == c {
            break;
        }
        if fails(&t, &d) {
            c = d;
            break;
        }
    }
    (t, c)
}

fn ins_case(m: &mut Model, rep: &mut Report, cx: &mut XCtx, t: &[XRow], c: &InsCase, stream: &str) {
    let text = c.text();
    rep.case(stream, Some(&format!("{text}|{}", t.len())));
    rep.hit(&format!("xsel.insert.shape.{}", c.shape()));
    rep.hit(match &c.cols {
        None => "xsel.insert.columns.none_schema_order",
        Some(v) if v.as_slice() == &INS_SCHEMA[..v.len()] => "xsel.insert.columns.listed_in_schema_order",
        Some(_) => "xsel.insert.columns.listed_permuted",
    });
    if c.tuples.iter().any(|tp| tp.len() < c.target().len()) {
        rep.hit("xsel.insert.tuple_omits_trailing_columns");
    }
    let ev = ins_eval(t, c);
    for (class, what) in &ev.viol {
        rep.hit(&format!("xsel.violation.{class}"));
        if cx.reported.insert(class.to_string()) {
            let (ts, cs) = ins_shrink(t, c, class);
            let what = ins_eval(&ts, &cs).viol.iter().find(|(k, _)| k == class).map_or(what.clone(), |(_, w)| w.clone());
            rep.violation(class, &what, json!({"text": cs.text(), "tables": x_rows_json(&ts, &[]), "model_op": cs.model_line(), "unshrunk_text": text}));
        }
    }
    if cx.model_on {
        if let Some(real) = &ev.real_rows {
            let line = c.model_line();
            let ans = m.ask(&line);
            if !rep.compare("xsel.model.insert", || json!({"text": text, "tables": x_rows_json(t, &[]), "model_op": line}), real, &ans) {
                cx.model_on = false;
            }
        }
    }
}

fn ins_directed(m: &mut Model, rep: &mut Report, cx: &mut XCtx) {
    use IV::*;
    let t0: Vec<XRow> = vec![];
    let t1 = vec![XRow { a: Some(5), b: None, name: Some("y") }];
    let cases: Vec<InsCase> = vec![
        // the minimal history: a full tuple, then a shorter one (no column list)
        InsCase { cols: None, tuples: vec![vec![Int(1), Int(10), Str("x")], vec![Int(2)]] },
        InsCase { cols: None, tuples: vec![vec![Int(1), Int(10), Str("x")], vec![Int(2), Int(20)], vec![Int(3)]] },
        // its neighbours: equal lengths, longer after shorter, single short tuple, short-long-short
        InsCase { cols: None, tuples: vec![vec![Int(1), Int(10)], vec![Int(2), Int(20)]] },
        InsCase { cols: None, tuples: vec![vec![Int(1)], vec![Int(2), Int(20), Str("y")]] },
        InsCase { cols: None, tuples: vec![vec![Int(1)]] },
        InsCase { cols: None, tuples: vec![vec![Int(1)], vec![Int(2), Int(20), Str("y")], vec![Int(3), Int(30)], vec![Int(4)]] },
        // explicit column list, permuted
        InsCase { cols: Some(vec!["a", "name", "b"]), tuples: vec![vec![Int(7), Str("z"), Int(70)], vec![Int(8), Str("p")]] },
        InsCase { cols: Some(vec!["name", "b", "a"]), tuples: vec![vec![Str("x"), Int(1), Int(2)], vec![Str("y")], vec![Str("z"), Int(3)]] },
        InsCase { cols: Some(vec!["b", "a"]), tuples: vec![vec![Int(1), Int(2)], vec![Int(3)]] },
        InsCase { cols: Some(vec!["b", "a"]), tuples: vec![vec![Int(3)], vec![Int(1), Int(2)]] },
        InsCase { cols: Some(vec!["a", "b", "name"]), tuples: vec![vec![Int(1), Int(2), Str("x")], vec![Null, Int(4)], vec![Int(5)]] },
        // an explicit NULL after a value, an explicit NULL before an omission
        InsCase { cols: None, tuples: vec![vec![Int(1), Int(10), Str("x")], vec![Int(2), Null, Null], vec![Int(3)]] },
        InsCase { cols: None, tuples: vec![vec![Int(1), Null, Str("x")], vec![Int(2)]] },
    ];
    for c in &cases {
        for t in [&t0, &t1] {
            ins_case(m, rep, cx, t, c, "xsel.insert.directed");
        }
    }
    // every pair of tuple lengths × (no list | each permutation of the three columns)
    let perms: [Option<Vec<&'static str>>; 7] = [
        None,
        Some(vec!["a", "b", "name"]),
        Some(vec!["a", "name", "b"]),
        Some(vec!["b", "a", "name"]),
        Some(vec!["b", "name", "a"]),
        Some(vec!["name", "a", "b"]),
        Some(vec!["name", "b", "a"]),
    ];
    let val = |col: &str, k: i64| if col == "name" { Str(["x", "y", "z"][(k % 3) as usize]) } else { Int(10 * k + 1) };
    for cols in &perms {
        let target = cols.clone().unwrap_or_else(|| INS_SCHEMA.to_vec());
        for l1 in 1..=3usize {
            for l2 in 1..=3usize {
                for l3 in [0usize, 1, 3] {
                    let mut tuples = Vec::new();
                    for (k, l) in [l1, l2, l3].iter().enumerate() {
                        if *l > 0 {
                            tuples.push(target[..*l].iter().map(|c| val(c, k as i64 + 1)).collect::<Vec<_>>());
                        }
                    }
                    ins_case(m, rep, cx, &t0, &InsCase { cols: cols.clone(), tuples }, "xsel.insert.directed");
                }
            }
        }
    }
}

fn ins_gen(r: &mut Rng) -> InsCase {
    let cols: Option<Vec<&'static str>> = if r.chance(1, 3) {
        None
    } else {
        let mut v = INS_SCHEMA.to_vec();
        r.shuffle(&mut v);
        let keep = if r.chance(2, 3) { 3 } else { 2 };
        v.truncate(keep);
        Some(v)
    };
    let target = cols.clone().unwrap_or_else(|| INS_SCHEMA.to_vec());
    let k = 2 + r.below(4) as usize;
    let tuples = (0..k)
        .map(|_| {
            let l = 1 + r.below(target.len() as u64) as usize;
            target[..l].iter().map(|c| ins_value_for(r, c)).collect::<Vec<_>>()
        })
        .collect();
    InsCase { cols, tuples }
}

fn stream_insert(m: &mut Model, rep: &mut Report, rng: &Rng, thorough: bool, cx: &mut XCtx) {
    let mut r = rng.fork("xsel.insert");
    let n = if thorough { 3000 } else { 300 };
    for i in 0..n {
        let t = if i % 3 == 0 { x_gen_rows(&mut r, false).0 } else { Vec::new() };
        let c = ins_gen(&mut r);
        ins_case(m, rep, cx, &t, &c, "xsel.insert.random");
    }
}

// ---- graph and vector statement families: LIST / FIND / SHOW EMBEDDINGS / SIMILAR windows, NEIGHBORS, PATH

fn xs_families(m: &mut Model, rep: &mut Report, cx: &mut XCtx, thorough: bool) {
    let q = query_router::QueryRouter::new();
    let setup = [
        "NODE CREATE person {name: 'A', age: 1}",
        "NODE CREATE person {name: 'B', age: 2}",
        "NODE CREATE person {name: 'C', age: 3}",
        "NODE CREATE person {name: 'D', age: 4}",
        "NODE CREATE person {name: 'E', age: 5}",
        "NODE CREATE city {name: 'X'}",
        "NODE CREATE city {name: 'Y'}",
        "EDGE CREATE 1 -> 2 : knows",
        "EDGE CREATE 2 -> 3 : knows",
        "EDGE CREATE 3 -> 4 : knows",
        "EDGE CREATE 4 -> 5 : knows",
        "EDGE CREATE 1 -> 6 : lives",
        "EDGE CREATE 2 -> 6 : lives",
        "EDGE CREATE 3 -> 7 : lives",
        "EMBED STORE 'k0' [1.0, 0.0]",
        "EMBED STORE 'k1' [0.0, 1.0]",
        "EMBED STORE 'k2' [1.0, 1.0]",
        "EMBED STORE 'k3' [1.0, 0.5]",
        "EMBED STORE 'k4' [0.25, 1.0]",
    ];
    for s in setup {
        if let Err(e) = q.execute_parsed(s) {
            rep.note(&format!("xsel.families: setup statement `{s}` failed: {e:?}"));
            return;
        }
    }
    let viol = |rep: &mut Report, cx: &mut XCtx, class: &str, what: String, text: &str| {
        rep.hit(&format!("xsel.violation.{class}"));
        if cx.reported.insert(class.to_string()) {
            rep.violation(class, &what, json!({"text": text, "setup": setup}));
        }
    };
    let clause = |c: &XC, kw: &str| c.text(kw);
    let mut other_budget = 2;
    // NODE LIST / EDGE LIST
    for (what, filters) in [("NODE", vec![None, Some("person"), Some("city"), Some("nosuch")]), ("EDGE", vec![None, Some("knows"), Some("lives")])] {
        for f in filters {
            let ids: Vec<u64> = if what == "NODE" {
                match f {
                    None => q.graph().all_nodes().iter().map(|n| n.id).collect(),
                    Some(l) => q.graph().find_nodes_by_label(l).map(|v| v.iter().map(|n| n.id).collect()).unwrap_or_default(),
                }
            } else {
                match f {
                    None => q.graph().all_edges().iter().map(|e| e.id).collect(),
                    Some(t) => q.graph().find_edges_by_type(t).map(|v| v.iter().map(|e| e.id).collect()).unwrap_or_default(),
                }
            };
            let n = ids.len();
            let mut bounds = x_boundaries(n);
            bounds.push(XC::Other("-1"));
            for lim in &bounds {
                for off in &bounds {
                    if matches!(lim, XC::Other(_)) || matches!(off, XC::Other(_)) {
                        if other_budget == 0 && !thorough {
                            continue;
                        }
                        other_budget -= if other_budget > 0 { 1 } else { 0 };
                    }
                    let text = format!("{what} LIST{}{}{}", f.map_or(String::new(), |l| format!(" {l}")), clause(lim, "LIMIT"), clause(off, "OFFSET"));
                    rep.case("xsel.family.list", Some(&text));
                    rep.hit(if what == "NODE" { "xsel.family.node_list" } else { "xsel.family.edge_list" });
                    let got: std::result::Result<Vec<u64>, String> = match guarded(std::panic::AssertUnwindSafe(|| q.execute_parsed(&text))) {
                        Ok(Ok(query_router::QueryResult::Nodes(v))) => Ok(v.iter().map(|x| x.id).collect()),
                        Ok(Ok(query_router::QueryResult::Edges(v))) => Ok(v.iter().map(|x| x.id).collect()),
                        Ok(o) => Err(canon_qr(&o)),
                        Err(p) => Err(format!("panic {p}")),
                    };
                    let ans = m.ask(&format!("xlist {} {} {n}", lim.model(), off.model()));
                    let real = match &got {
                        Ok(v) => format!("{} items", v.len()),
                        Err(e) if e.starts_with("error InvalidArgument") => "error".to_string(),
                        Err(e) => e.clone(),
                    };
                    let model_len = if ans == "error" { "error".to_string() } else if ans == "items -" { "0 items".to_string() } else { format!("{} items", ans.trim_start_matches("items ").split(',').count()) };
                    rep.compare("xsel.model.list", || json!({"text": text, "engine_answer_size": n}), &real, &model_len);
                    // the property on the real output: a window of the engine's answer of the size the clauses say
                    if let (XC::Absent | XC::Lit(_), XC::Absent | XC::Lit(_)) = (lim, off) {
                        let k = if let XC::Lit(k) = lim { *k as usize } else { 1000 };
                        let o = if let XC::Lit(o) = off { *o as usize } else { 0 };
                        let want_len = k.min(n.saturating_sub(o));
                        let ok = match &got {
                            Ok(v) => {
                                let set: std::collections::BTreeSet<u64> = v.iter().copied().collect();
                                v.len() == want_len && set.len() == v.len() && v.iter().all(|i| ids.contains(i))
                            }
                            Err(_) => false,
                        };
                        if !ok {
                            let class = format!("query_router::QueryRouter::exec_{}/list_result_is_not_a_window_of_the_direct_call_of_the_size_limit_and_offset_say", what.to_lowercase());
                            viol(rep, cx, &class, format!("`{text}` returned {got:?}; the direct call has {n} items {ids:?}, so the window has {want_len}"), &text);
                        }
                    }
                }
            }
        }
    }
    // FIND NODE … [WHERE …] [LIMIT k]
    for (pat, wh, matching) in [("FIND NODE person", " WHERE age > 2", vec![3u64, 4, 5]), ("FIND NODE person", "", vec![1, 2, 3, 4, 5]), ("FIND EDGE knows", "", vec![1, 2, 3, 4])] {
        let n = matching.len();
        for lim in x_boundaries(n) {
            let text = format!("{pat}{wh}{}", lim.text("LIMIT"));
            rep.case("xsel.family.find", Some(&text));
            rep.hit("xsel.family.find");
            let got: std::result::Result<Vec<u64>, String> = match guarded(std::panic::AssertUnwindSafe(|| q.execute_parsed(&text))) {
                Ok(Ok(query_router::QueryResult::Unified(u))) => Ok(u.items.iter().map(|i| i.id.parse::<u64>().unwrap_or(0)).collect()),
                Ok(o) => Err(canon_qr(&o)),
                Err(p) => Err(format!("panic {p}")),
            };
            if !wh.is_empty() {
                let ans = m.ask(&format!("xtake {} {n}", lim.model()));
                let model_len = if ans == "items -" { "0 items".to_string() } else { format!("{} items", ans.trim_start_matches("items ").split(',').count()) };
                let real = got.as_ref().map_or_else(|e| e.clone(), |v| format!("{} items", v.len()));
                rep.compare("xsel.model.find", || json!({"text": text}), &real, &model_len);
            }
            let want_len = if let XC::Lit(k) = lim { (k as usize).min(n) } else { n };
            let ok = match &got {
                Ok(v) => {
                    let set: std::collections::BTreeSet<u64> = v.iter().copied().collect();
                    v.len() == want_len && set.len() == v.len() && v.iter().all(|i| matching.contains(i))
                }
                Err(_) => false,
            };
            if !ok {
                viol(rep, cx, "query_router::QueryRouter::exec_find/result_is_not_the_first_rows_of_the_matching_items",
                    format!("`{text}` returned {got:?}; matching items {matching:?}, expected {want_len} of them"), &text);
            }
        }
    }
    // SHOW EMBEDDINGS [LIMIT k]
    let keys = q.vector().list_keys();
    for lim in x_boundaries(keys.len()) {
        let text = format!("SHOW EMBEDDINGS{}", lim.text("LIMIT"));
        rep.case("xsel.family.show_embeddings", Some(&text));
        rep.hit("xsel.family.show_embeddings");
        let got = match guarded(std::panic::AssertUnwindSafe(|| q.execute_parsed(&text))) {
            Ok(Ok(query_router::QueryResult::Value(s))) => Ok(s),
            Ok(o) => Err(canon_qr(&o)),
            Err(p) => Err(format!("panic {p}")),
        };
        let want_len = if let XC::Lit(k) = lim { (k as usize).min(keys.len()) } else { keys.len().min(100) };
        let ok = match &got {
            Ok(s) => {
                let listed: Vec<&String> = keys.iter().filter(|k| s.contains(&format!("\"{k}\""))).collect();
                listed.len() == want_len && s.matches('"').count() == 2 * want_len
            }
            Err(_) => false,
        };
        if !ok {
            viol(rep, cx, "query_router::QueryRouter::execute_statement/show_embeddings_is_not_the_first_keys_of_the_direct_call",
                format!("`{text}` returned {got:?}; VectorEngine::list_keys has {} keys, expected {want_len} of them", keys.len()), &text);
        }
    }
    // SIMILAR <key | vector> [LIMIT k] = VectorEngine::search_similar(query, k) (10 when not written)
    for (qtext, qv) in [("'k0'", vec![1.0f32, 0.0]), ("[0.5, 1.0]", vec![0.5f32, 1.0]), ("'k4'", vec![0.25f32, 1.0])] {
        for lim in x_boundaries(keys.len()) {
            let text = format!("SIMILAR {qtext}{}", lim.text("LIMIT"));
            rep.case("xsel.family.similar", Some(&text));
            rep.hit("xsel.family.similar");
            let show = |v: Vec<(String, f32)>| v.iter().map(|(k, s)| format!("{k}:{:08x}", s.to_bits())).collect::<Vec<_>>().join(",");
            let got = match guarded(std::panic::AssertUnwindSafe(|| q.execute_parsed(&text))) {
                Ok(Ok(query_router::QueryResult::Similar(v))) => show(v.into_iter().map(|r| (r.key, r.score)).collect()),
                Ok(o) => canon_qr(&o),
                Err(p) => format!("panic {p}"),
            };
            let k = if let XC::Lit(k) = lim { k as usize } else { 10 };
            let want = match q.vector().search_similar(&qv, k) {
                Ok(v) => show(v.into_iter().map(|r| (r.key, r.score)).collect()),
                Err(_) => "error VectorError".to_string(),
            };
            if got != want {
                viol(rep, cx, "query_router::QueryRouter::exec_similar/result_differs_from_direct_call",
                    format!("`{text}` returned {got}; VectorEngine::search_similar(query, {k}) returns {want}"), &text);
            }
        }
    }
    // NEIGHBORS / PATH: delegated entirely; the ids must be the direct call's
    for id in 1..=7u64 {
        for (dtext, dir) in [("OUTGOING", graph_engine::Direction::Outgoing), ("INCOMING", graph_engine::Direction::Incoming), ("BOTH", graph_engine::Direction::Both)] {
            for ty in [None, Some("knows"), Some("lives")] {
                let text = format!("NEIGHBORS {id} {dtext}{}", ty.map_or(String::new(), |t| format!(" : {t}")));
                rep.case("xsel.family.neighbors", Some(&text));
                rep.hit("xsel.family.neighbors");
                let got = match guarded(std::panic::AssertUnwindSafe(|| q.execute_parsed(&text))) {
                    Ok(Ok(query_router::QueryResult::Ids(mut v))) => {
                        v.sort();
                        format!("{v:?}")
                    }
                    Ok(o) => canon_qr(&o),
                    Err(p) => format!("panic {p}"),
                };
                let want = match q.graph().neighbors(id, ty, dir, None) {
                    Ok(v) => {
                        let mut ids: Vec<u64> = v.iter().map(|n| n.id).collect();
                        ids.sort();
                        format!("{ids:?}")
                    }
                    Err(_) => "error GraphError".to_string(),
                };
                if got != want {
                    viol(rep, cx, "query_router::QueryRouter::exec_neighbors/result_differs_from_direct_call",
                        format!("`{text}` returned {got}; GraphEngine::neighbors returns {want}"), &text);
                }
            }
        }
        for to in [1u64, 5, 6, 7] {
            let text = format!("PATH SHORTEST {id} -> {to}");
            rep.case("xsel.family.path", Some(&text));
            rep.hit("xsel.family.path");
            let got = match guarded(std::panic::AssertUnwindSafe(|| q.execute_parsed(&text))) {
                Ok(Ok(query_router::QueryResult::Path(v))) => format!("{v:?}"),
                Ok(o) => canon_qr(&o),
                Err(p) => format!("panic {p}"),
            };
            let want = match q.graph().find_path(id, to, None) {
                Ok(p) => format!("{:?}", p.nodes),
                Err(graph_engine::GraphError::PathNotFound) => "[]".to_string(),
                Err(_) => "error GraphError".to_string(),
            };
            if got != want {
                viol(rep, cx, "query_router::QueryRouter::exec_path/result_differs_from_direct_call",
                    format!("`{text}` returned {got}; GraphEngine::find_path returns {want}"), &text);
            }
        }
    }
}

// ---- candidate findings on the UNCHANGED tree: clauses that are parsed and then not (or not as written) applied.
// They are outside what the oracles above judge; each is re-established on the real outputs at every run and kept
// as an observation (ExecProps has the corresponding statements about the model of the code).

fn xs_candidates(rep: &mut Report) {
    let (t, u) = x_directed_rows(5);
    let db = xdb(&t, &u);
    let run = |text: &str, join: bool| x_run(&db.q, text, join);
    let cells = |b: &XB| b.canon.splitn(2, ' ').nth(1).unwrap_or("").to_string();
    // 1. DISTINCT
    let text = "SELECT DISTINCT a FROM t";
    if let Ok(rows) = run(text, false) {
        let distinct: std::collections::BTreeSet<String> = rows.iter().map(cells).collect();
        if distinct.len() < rows.len() {
            rep.hit("xsel.candidate.distinct_returns_duplicates");
            rep.observe(json!({"candidate_finding": "query_router::QueryRouter::exec_select/distinct_is_not_applied", "text": text, "tables": x_rows_json(&t, &u),
                "returned_rows": rows.len(), "distinct_rows": distinct.len(), "model": "ExecProps.distinct_is_read_by_no_execution_path"}));
        }
    }
    // 2. sort_rows: DESC reverses the NULLS clause.  (The third ORDER BY finding of the earlier rounds — a sort column
    //    missing in some rows and NULL in others compared `Greater` both ways round, sort_by panicking on a 21-row LEFT
    //    JOIN — is repaired by /repo 1133d8d8 and is now an oracle: xs_eval, class …/order_by_panics_on_outer_join_rows,
    //    regression cases in xs_regressions.)
    let mut sort_cases = Vec::new();
    let text = "SELECT * FROM t ORDER BY a DESC NULLS FIRST";
    if let Ok(rows) = run(text, false) {
        let is_null = |b: &XB| b.keys.iter().any(|(c, k)| *c == 0 && k.is_none());
        if rows.iter().any(is_null) && rows.first().map_or(false, |f| !is_null(f)) {
            rep.hit("xsel.candidate.desc_nulls_first_puts_nulls_last");
            sort_cases.push(json!({"candidate_finding": "query_router::QueryRouter::sort_rows/desc_reverses_the_nulls_clause", "text": text, "tables": x_rows_json(&t, &u),
                "returned": x_show(&Ok(rows)), "note": "DESC NULLS LAST puts them first likewise", "model": "ExecProps.desc_nulls_first_puts_nulls_last_witness"}));
        }
    }
    if !sort_cases.is_empty() {
        rep.observe(json!({"candidate_findings": "ORDER BY (query_router::QueryRouter::sort_rows)", "cases": sort_cases}));
    }
    // 3. ORDER BY a column that is not in the select list
    let (text, text_all) = ("SELECT name FROM t ORDER BY a", "SELECT name, a FROM t ORDER BY a");
    if let (Ok(rows), Ok(plain), Ok(all)) = (run(text, false), run("SELECT name FROM t", false), run(text_all, false)) {
        let ids = |v: &[XB]| v.iter().map(|b| b.canon.split(' ').next().unwrap_or("").to_string()).collect::<Vec<_>>();
        if ids(&rows) == ids(&plain) && ids(&rows) != ids(&all) {
            rep.hit("xsel.candidate.order_by_column_outside_select_list_does_not_sort");
            rep.observe(json!({"candidate_finding": "query_router::QueryRouter::exec_select/order_by_column_outside_the_select_list_does_not_sort", "text": text, "tables": x_rows_json(&t, &u),
                "returned_ids": ids(&rows), "ids_when_the_column_is_selected_too": ids(&all), "model": "ExecProps.order_by_column_outside_the_select_list_does_not_sort"}));
        }
    }
    // 4. aggregates / GROUP BY never reach ORDER BY / LIMIT / OFFSET
    let (t1, t2) = ("SELECT COUNT(*) FROM t LIMIT 0", "SELECT a, COUNT(*) FROM t GROUP BY a LIMIT 1");
    if let (Ok(r1), Ok(r2)) = (run(t1, false), run(t2, false)) {
        if !r1.is_empty() || r2.len() > 1 {
            rep.hit("xsel.candidate.aggregate_select_ignores_limit");
            rep.observe(json!({"candidate_finding": "query_router::QueryRouter::try_exec_aggregates/order_by_limit_offset_not_applied", "texts": [t1, t2], "tables": x_rows_json(&t, &u),
                "returned_rows": [r1.len(), r2.len()], "model": "ExecProps.aggregate_select_ignores_order_limit_offset"}));
        }
    }
    // 5. clauses that are silently dropped: LIMIT / OFFSET that are not integer literals, the select list of a join,
    //    a compound WHERE of a join
    let mut dropped = Vec::new();
    for text in ["SELECT * FROM t LIMIT 1 + 1", "SELECT * FROM t LIMIT -1", "SELECT * FROM t LIMIT 2.0", "SELECT * FROM t OFFSET 1 + 1"] {
        if let (Ok(rows), Ok(all)) = (run(text, false), run("SELECT * FROM t", false)) {
            if rows.len() == all.len() {
                dropped.push(json!({"text": text, "returned_rows": rows.len(), "as_if": "the clause were absent (no error)"}));
            }
        }
    }
    if let (Ok(rows), Ok(all)) = (run("SELECT t.name FROM t JOIN u ON t.a = u.a", true), run("SELECT * FROM t JOIN u ON t.a = u.a", true)) {
        if !rows.is_empty() && rows == all {
            dropped.push(json!({"text": "SELECT t.name FROM t JOIN u ON t.a = u.a", "as_if": "SELECT * (the select list of a join statement is not applied)"}));
        }
    }
    if let (Ok(rows), Ok(one)) = (run("SELECT * FROM t JOIN u ON t.a = u.a WHERE u.w >= 10 AND t.b >= 0", true), run("SELECT * FROM t JOIN u ON t.a = u.a WHERE u.w >= 10", true)) {
        if rows.is_empty() && !one.is_empty() {
            dropped.push(json!({"text": "SELECT * FROM t JOIN u ON t.a = u.a WHERE u.w >= 10 AND t.b >= 0", "returned_rows": 0,
                "note": "evaluate_join_condition reads the operands of AND / OR as column values, so a compound WHERE of a join matches nothing"}));
        }
    }
    if !dropped.is_empty() {
        rep.hit("xsel.candidate.clauses_silently_dropped");
        rep.observe(json!({"candidate_finding": "query_router::QueryRouter::exec_select/clause_silently_dropped", "cases": dropped, "tables": x_rows_json(&t, &u),
            "model": "ExecProps.select_ignores_limit_and_offset_that_are_not_integer_literals"}));
    }
}

// ------------------------------------------------------------------ main

fn main() {
    let args = parse_args();
    if args.extra.iter().any(|a| a == "--child") {
        child_main();
        return;
    }
    let rng = Rng::new(args.seed);
    let mut rep = Report::new(
        "non-trivial = a generated expression tree of depth ≥ 2 (distinct rendered text per parenthesisation mode) whose real parse is a compound AST, or a token-soup case of ≥ 3 tokens (distinct text)",
    );
    let mut m = Model::spawn(&args.driver);
    // every arm of the model (prefix arms, loop exits, `expectRParen`, depth check, `finish`) has a
    // distribution key it must show up under; missing ones are listed as uncovered_model_branches
    for b in BIN.iter() {
        rep.expected_branches.push(format!("tree.bin.{}", b.0));
    }
    for k in [
        "tree.un.neg", "tree.un.not", "tree.un.bitnot", "tree.atom", "tree.wildcard", "tree.unit",
        "soup.result.ok", "soup.result.err_eof_expression", "soup.result.err_eof_rparen",
        "soup.result.err_unexpected_expression", "soup.result.err_unexpected_rparen",
        "soup.result.err_unexpected_end_of_expression", "boundary.result.err_too_deep", "boundary.result.ok",
        "normal_form.reprinted_differently", "normal_form.already_minimal",
    ] {
        rep.expected_branches.push(k.to_string());
    }
    rep.note("statement parser's expression loop corresponds to model op `parse` (MAX_DEPTH = 64, /repo 59c7cb56); the start-up probe stmt.depth_limit_probe compares 63/64/70/200-level chains and fails the correspondence if the limit is missing");
    for k in [
        "select.result.ok", "select.result.err_too_deep", "select.result.err_eof_expression", "select.result.err_eof_identifier",
        "select.result.err_eof_SELECT", "select.result.err_eof_lparen", "select.result.err_eof_rparen",
        "select.result.err_unexpected_expression", "select.result.err_unexpected_identifier", "select.result.err_unexpected_SELECT",
        "select.result.err_unexpected_lparen", "select.result.err_unexpected_rparen", "select.outside",
        "select.chain.closed.ok", "select.chain.closed.too_deep",
    ] {
        rep.expected_branches.push(k.to_string());
    }
    for k in [
        "nest.result.ok", "nest.result.err_too_deep", "nest.result.child.err_too_deep", "nest.result.err_eof_expression",
        "nest.result.err_eof_identifier", "nest.result.err_eof_SELECT", "nest.result.err_eof_lparen", "nest.result.err_eof_rparen",
        "nest.result.err_unexpected_expression", "nest.result.err_unexpected_identifier", "nest.result.err_unexpected_SELECT",
        "nest.result.err_unexpected_lparen", "nest.result.err_unexpected_rparen", "nest.outside", "nest.expected.over_deep",
        "nest.expected.within_limits", "nest.directed.ok", "nest.directed.err_too_deep", "nest.accepted.live_frames.64",
    ] {
        rep.expected_branches.push(k.to_string());
    }
    for k in ["probe.below_limit", "probe.distinguishes_prefix_code", "probe.real.err_too_deep", "stmt.soup.too_deep", "known.negative_number.reproduced"] {
        rep.expected_branches.push(k.to_string());
    }
    for k in [
        "full.tree.lit", "full.tree.null", "full.tree.ident", "full.tree.kw", "full.tree.wildcard", "full.tree.unit",
        "full.tree.tuple", "full.tree.un", "full.tree.bin", "full.tree.isnull", "full.tree.in", "full.tree.between",
        "full.tree.like", "full.tree.qual", "full.tree.qualwild", "full.tree.call", "full.tree.array", "full.tree.case",
        "full.under.isnull.un", "full.under.isnull.bin", "full.under.isnull.between", "full.under.isnull.like",
        "full.under.un.isnull", "full.under.un.between", "full.under.between.bin", "full.under.between.between",
        "full.under.like.un", "full.under.qual.call", "full.under.in.bin",
        "full.result.ok", "full.result.err_too_deep", "full.result.err_eof_expression", "full.result.err_eof_rparen",
        "full.result.err_eof_rbracket", "full.result.err_eof_lparen", "full.result.err_eof_NULL", "full.result.err_eof_identifier",
        "full.result.err_eof_AND", "full.result.err_eof_THEN", "full.result.err_eof_END",
        "full.result.err_unexpected_expression", "full.result.err_unexpected_rparen", "full.result.err_unexpected_rbracket",
        "full.result.err_unexpected_lparen", "full.result.err_unexpected_NULL", "full.result.err_unexpected_identifier",
        "full.result.err_unexpected_AND", "full.result.err_unexpected_THEN", "full.result.err_unexpected_END",
        "full.result.err_unexpected_end_of_expression", "full.result.err_invalid_qualwild",
        "full.result.err_invalid_case_no_when", "full.result.err_invalid_exists", "full.stmt.outside",
        "full.stmt.result.ok", "full.stmt.result.err_too_deep",
        "full.normal_form.already_minimal", "full.normal_form.reprinted_differently",
    ] {
        rep.expected_branches.push(k.to_string());
    }
    for kw in ["limit", "offset"] {
        for k in ["absent", "0", "1", "m-1", "m", "m+1", "inside", "beyond", "not_a_literal", "0.on_nonempty_result"] {
            rep.expected_branches.push(format!("xsel.{kw}.{k}"));
        }
    }
    for k in ["xsel.shape.join", "xsel.shape.single_table", "xsel.order.items.1", "xsel.order.items.2", "xsel.order.items.3", "xsel.order.desc",
        "xsel.order.nulls_clause", "xsel.projection.columns", "xsel.where", "xsel.result_rows.0", "xsel.result_rows.1", "xsel.result_rows.2",
        "xsel.family.aggregate", "xsel.family.group_by", "xsel.family.group_by_having", "xsel.family.delete_all", "xsel.family.delete_where",
        "xsel.family.update", "xsel.family.insert_rows", "xsel.family.insert_positional", "xsel.family.node_list", "xsel.family.edge_list",
        "xsel.family.find", "xsel.family.show_embeddings", "xsel.family.similar", "xsel.family.neighbors", "xsel.family.path",
        "xsel.table.21_to_60_rows", "xsel.table.0_to_8_rows", "xsel.order.outer_join_rows_with_missing_and_null_sort_keys",
        "xsel.order.outer_join_rows_with_missing_and_null_sort_keys.more_than_20_rows", "xsel.regression.order_by_on_outer_join_rows.sorted",
        "xsel.insert.shape.single_tuple", "xsel.insert.shape.equal_lengths", "xsel.insert.shape.shorter_after_longer", "xsel.insert.shape.longer_after_shorter",
        "xsel.insert.shape.shorter_and_longer_mixed", "xsel.insert.columns.none_schema_order", "xsel.insert.columns.listed_in_schema_order",
        "xsel.insert.columns.listed_permuted", "xsel.insert.tuple_omits_trailing_columns"] {
        rep.expected_branches.push(k.to_string());
    }
    directed_known(&mut rep);
    let mut scx = StrCx::new();
    str_directed(&mut m, &mut rep, &mut scx);
    let mut xcx = XCtx { reported: Default::default(), model_on: true };
    let t_x = Instant::now();
    ins_directed(&mut m, &mut rep, &mut xcx);
    xs_directed(&mut m, &mut rep, &mut xcx, &rng);
    xs_candidates(&mut rep);
    xs_families(&mut m, &mut rep, &mut xcx, args.thorough);
    if std::env::var("C15_TIMING").is_ok() { eprintln!("xs_directed {:?}", t_x.elapsed()); }
    cmt_directed(&mut m, &mut rep);
    probe_stmt_depth_limit(&mut m, &mut rep, &rng);
    nest_directed(&mut m, &mut rep, &rng);
    f_directed(&mut m, &mut rep, &rng);
    stream_trees(&mut m, &mut rep, &rng, args.thorough);
    stream_soup(&mut m, &mut rep, &rng, args.thorough);
    stream_boundary(&mut m, &mut rep, &rng);
    stream_select(&mut m, &mut rep, &rng, args.thorough);
    stream_nest(&mut m, &mut rep, &rng, args.thorough);
    stream_clause(&mut m, &mut rep, &rng, args.thorough);
    stream_lex(&mut m, &mut rep, &rng, args.thorough);
    stream_comments(&mut m, &mut rep, &rng, args.thorough);
    stream_strings(&mut m, &mut rep, &rng, args.thorough, &mut scx);
    stream_text(&mut m, &mut rep, &rng, args.thorough);
    f_chains(&mut m, &mut rep, &rng, args.thorough);
    stream_full(&mut m, &mut rep, &rng, args.thorough);
    stream_adversarial(&mut rep, &rng, args.thorough);
    stream_exec(&mut rep, &rng, args.thorough);
    stream_xsel(&mut m, &mut rep, &rng, args.thorough, &mut xcx);
    stream_insert(&mut m, &mut rep, &rng, args.thorough, &mut xcx);
    rep.note("expr.* / stmt.* / soup: postfix/special forms (IS NULL, IN, BETWEEN, LIKE, calls, CASE, arrays, tuples, qualified names) are opaque atoms of the Pratt model `parse`; full.*: the same forms are tokens and trees of the complete expression grammar model (Full.lean, ops `full expr|stmt`, `fprint`, `fframes`), compared with the real ExprParser and with the WHERE clause of the real statement parser; stmt-mode inputs the model answers `outside` (EXISTS, CAST, IN ( SELECT) are counted under full.stmt.outside and not compared");
    rep.note("statement-parser error behaviour (trailing tokens are not rejected by parse()) is outside the expression-core model; stmt.* streams compare accepted expressions and TooDeep answers only");
    rep.write(&args.out);
}
