//! C12 correspondence: real `LockManager` / `WaitForGraph` / `DeadlockDetector` vs the Lean model
//! (`drv_locks`), plus implementation-level oracles (exclusivity, all-or-nothing, nothing left
//! behind, cycle soundness/completeness, victim membership) and a real-thread exclusivity monitor.
//!
//! Time: the real code reads the wall clock.  The lock table is driven on a *virtual tick clock*
//! (1 tick = 100 s of wall time): "advance d ticks" is performed through the public
//! `to_serializable` -> `SerializableLockState::new(..shifted acquired_at_ms..)` -> `from_serializable`
//! path, timeouts are `to*TICK + TICK/2` ms, so the few ms of real drift in a case can never flip an
//! expiry decision.  A second small stream uses the untouched API (Duration::ZERO timeout + 3 ms sleeps).
//! With the hook `tensor_chain::distributed_tx::verif_clock::set_now_ms` (/repo 654184dd) a third family
//! of streams (`table.clock*`, `sched.*`, the directed coordinator scenarios) freezes the millisecond
//! clock itself: timeouts are plain milliseconds, "advance d" moves the frozen clock by d ms, and the
//! exact `elapsed == timeout` boundary of `KeyLock::is_expired` (`>`: not expired AT the boundary,
//! expired one millisecond later) is compared with the model directly.
//!
//! Threads: `sched.*` runs real threads under `nverif::sched::run_threads`.  LockManager and the
//! coordinator do not go through TensorStore, so there is no yield point INSIDE their operations; the
//! harness yields between operations, which makes the stream a deterministic exploration of
//! operation-level interleavings whose linearisation is replayed on the model.  Races inside an
//! operation are left to the OS-thread hammers (`threads.*`).  The one window the property depends on —
//! between "conflict found" and "wait-for edge recorded" inside `try_lock_with_wait_tracking` — has its own
//! stream `threads.prepare_vs_end.*` (spin-aligned rounds of exactly the two racing calls, judged after both
//! returned), a Lean model at step granularity (Locks/SectionModel.lean, tied to the source at call granularity
//! by `section.calls`) and a scheduled stream `sched.prepare_vs_end` that follows the model's witness schedule
//! on the real code once the proposed yield hook (/verif/proposed/C12-hook-wait-tracking-yield.diff) exists.
use nverif::*;
use serde_json::json;
use std::collections::{BTreeMap, BTreeSet, HashMap};
use std::sync::atomic::{AtomicU64, AtomicUsize, Ordering};
use std::sync::Arc;
use std::time::{Duration, SystemTime, UNIX_EPOCH};
use tensor_chain::deadlock::{DeadlockDetector, DeadlockDetectorConfig, VictimSelectionPolicy, WaitForGraph};
use tensor_chain::consensus::{ConsensusConfig, ConsensusManager};
use tensor_chain::distributed_tx::verif_clock;
use tensor_chain::distributed_tx::{CoordinatorState, DistributedTxConfig, DistributedTxCoordinator, KeyLock, LockManager, PrepareRequest, PrepareVote, SerializableLockState, TxPhase, VoteRecordError};
use tensor_chain::Transaction;
use tensor_store::{ScalarValue, SparseVector, TensorData, TensorStore, TensorValue};

const TICK: u64 = 100_000;
const INJ_BASE_REAL: u64 = 1 << 60;
const INJ_BASE_MODEL: u64 = 1_000_000;

fn now_ms() -> u64 {
    SystemTime::now().duration_since(UNIX_EPOCH).unwrap_or_default().as_millis() as u64
}
fn kname(k: u64) -> String {
    format!("k{k}")
}
fn kid(s: &str) -> u64 {
    s.trim_start_matches('k').parse().unwrap_or(999_999)
}
fn commas(v: &[u64]) -> String {
    if v.is_empty() {
        "-".into()
    } else {
        v.iter().map(|x| x.to_string()).collect::<Vec<_>>().join(",")
    }
}
fn dotted(v: &[u64]) -> String {
    v.iter().map(|x| x.to_string()).collect::<Vec<_>>().join(".")
}

// ------------------------------------------------------------------ lock table on a virtual clock

#[derive(Clone, Debug, PartialEq)]
struct LockRow {
    k: u64,
    key: u64,
    tx: u64,
    h: u64, // model numbering
    acq: i128,
    to: u64,
}
#[derive(Clone, Debug, PartialEq)]
struct Image {
    locks: Vec<LockRow>,
    txl: Vec<(u64, Vec<u64>)>,
    dto: u64,
}
impl Image {
    fn show(&self) -> String {
        let l: Vec<String> = self.locks.iter().map(|r| format!("{}:{}:{}:{}:{}:{}", r.k, r.key, r.tx, r.h, r.acq, r.to)).collect();
        let t: Vec<String> = self.txl.iter().map(|(tx, ks)| format!("{}:{}", tx, dotted(ks))).collect();
        format!("L {};T {};D {};N {}", l.join(","), t.join(","), self.dto, self.locks.len())
    }
    fn expired(r: &LockRow, now: u64) -> bool {
        (now as i128 - r.acq).max(0) > r.to as i128
    }
}

struct RealTable {
    lm: LockManager,
    vnow: u64,
    handles: Vec<u64>, // model handle i -> real handle
    /// true: the clock hook is frozen at `vnow` ms and 1 tick = 1 ms exactly; false: virtual ticks of
    /// 100 s realised through serialize/restore on the wall clock
    hooked: bool,
}
/// frozen-clock base: far from 0 so that `acquired_at - 6` style injected images stay positive
const HOOK_BASE: u64 = 100;
impl Drop for RealTable {
    fn drop(&mut self) {
        if self.hooked {
            verif_clock::set_now_ms(None);
        }
    }
}
impl RealTable {
    fn new(to_ticks: u64) -> Self {
        RealTable { lm: LockManager::with_default_timeout(Duration::from_millis(to_ticks * TICK + TICK / 2)), vnow: 100, handles: vec![], hooked: false }
    }
    /// timeouts in plain milliseconds on the frozen clock
    fn new_hooked(to_ms: u64) -> Self {
        verif_clock::set_now_ms(Some(HOOK_BASE));
        RealTable { lm: LockManager::with_default_timeout(Duration::from_millis(to_ms)), vnow: HOOK_BASE, handles: vec![], hooked: true }
    }
    fn h_to_model(&mut self, real: u64) -> u64 {
        if real >= INJ_BASE_REAL {
            return real - INJ_BASE_REAL + INJ_BASE_MODEL;
        }
        if let Some(i) = self.handles.iter().position(|&x| x == real) {
            return i as u64;
        }
        self.handles.push(real);
        (self.handles.len() - 1) as u64
    }
    fn h_to_real(&self, model: u64) -> u64 {
        if model >= INJ_BASE_MODEL {
            INJ_BASE_REAL + (model - INJ_BASE_MODEL)
        } else {
            self.handles.get(model as usize).copied().unwrap_or(INJ_BASE_REAL - 1 - model)
        }
    }
    fn image(&mut self) -> Image {
        let st = self.lm.to_serializable();
        if self.hooked {
            let mut raw: Vec<(&String, &KeyLock)> = st.locks().iter().collect();
            raw.sort_by_key(|(k, _)| kid(k));
            let mut locks = Vec::new();
            for (k, l) in raw {
                let h = self.h_to_model(l.lock_handle);
                locks.push(LockRow { k: kid(k), key: kid(&l.key), tx: l.tx_id, h, acq: l.acquired_at_ms as i128, to: l.timeout_ms });
            }
            let mut txl: Vec<(u64, Vec<u64>)> = st.tx_locks().iter().map(|(t, ks)| (*t, ks.iter().map(|k| kid(k)).collect())).collect();
            txl.sort();
            return Image { locks, txl, dto: st.default_timeout_ms() };
        }
        let rn = now_ms() as i128;
        let mut locks: Vec<LockRow> = Vec::new();
        let mut raw: Vec<(&String, &KeyLock)> = st.locks().iter().collect();
        raw.sort_by_key(|(k, _)| kid(k));
        // handles are renamed in order of first appearance in *grant* order, which `lock` registers;
        // here only lookups happen (unknown handles would be registered, and then disagree)
        for (k, l) in raw {
            let d = l.acquired_at_ms as i128 - rn;
            let ticks = (d + if d >= 0 { TICK as i128 / 2 } else { -(TICK as i128) / 2 }) / TICK as i128;
            let h = self.h_to_model(l.lock_handle);
            locks.push(LockRow { k: kid(k), key: kid(&l.key), tx: l.tx_id, h, acq: self.vnow as i128 + ticks, to: l.timeout_ms / TICK });
        }
        let mut txl: Vec<(u64, Vec<u64>)> = st.tx_locks().iter().map(|(t, ks)| (*t, ks.iter().map(|k| kid(k)).collect())).collect();
        txl.sort();
        Image { locks, txl, dto: st.default_timeout_ms() / TICK }
    }
    fn advance(&mut self, d: u64) {
        if self.hooked {
            self.vnow += d;
            verif_clock::set_now_ms(Some(self.vnow));
            return;
        }
        let st = self.lm.to_serializable();
        let mut locks = st.locks().clone();
        for l in locks.values_mut() {
            l.acquired_at_ms = l.acquired_at_ms.saturating_sub(d * TICK);
        }
        self.lm = LockManager::from_serializable(SerializableLockState::new(locks, st.tx_locks().clone(), st.default_timeout_ms()));
        self.vnow += d;
    }
    fn serialize_restore(&mut self) -> Result<(), String> {
        let st = self.lm.to_serializable();
        let bytes = bitcode::serialize(&st).map_err(|e| format!("serialize: {e}"))?;
        let back: SerializableLockState = bitcode::deserialize(&bytes).map_err(|e| format!("deserialize: {e}"))?;
        self.lm = LockManager::from_serializable(back);
        Ok(())
    }
    fn inject(&mut self, locks: &[LockRow], txl: &[(u64, Vec<u64>)], dto: u64) {
        if self.hooked {
            let mut m: HashMap<String, KeyLock> = HashMap::new();
            for r in locks {
                m.insert(kname(r.k), KeyLock { key: kname(r.key), tx_id: r.tx, lock_handle: self.h_to_real(r.h), acquired_at_ms: r.acq.max(0) as u64, timeout_ms: r.to });
            }
            let t: HashMap<u64, Vec<String>> = txl.iter().map(|(tx, ks)| (*tx, ks.iter().map(|k| kname(*k)).collect())).collect();
            self.lm = LockManager::from_serializable(SerializableLockState::new(m, t, dto));
            return;
        }
        let rn = now_ms() as i128;
        let mut m: HashMap<String, KeyLock> = HashMap::new();
        for r in locks {
            let acq = rn + (r.acq - self.vnow as i128) * TICK as i128;
            m.insert(
                kname(r.k),
                KeyLock { key: kname(r.key), tx_id: r.tx, lock_handle: self.h_to_real(r.h), acquired_at_ms: acq.max(0) as u64, timeout_ms: r.to * TICK + TICK / 2 },
            );
        }
        let t: HashMap<u64, Vec<String>> = txl.iter().map(|(tx, ks)| (*tx, ks.iter().map(|k| kname(*k)).collect())).collect();
        self.lm = LockManager::from_serializable(SerializableLockState::new(m, t, dto * TICK + TICK / 2));
    }
}

#[derive(Clone, Debug)]
enum Op {
    Lock(u64, Vec<u64>),
    Rel(u64),
    RelH(u64),
    Clean,
    Adv(u64),
    Sr,
    Query(u64),
    Inject(Vec<LockRow>, Vec<(u64, Vec<u64>)>, u64),
}

/// ghost grant: (key, tx, at, to) — a transaction was granted `key` and has not released it
#[derive(Clone, Debug)]
struct Grant {
    k: u64,
    tx: u64,
    at: u64,
    to: u64,
}

fn gen_keys(r: &mut Rng, nkeys: u64) -> Vec<u64> {
    match r.below(12) {
        0 => vec![],
        1 => {
            let k = r.below(nkeys);
            vec![k, k]
        }
        _ => {
            let n = 1 + r.below(3);
            (0..n).map(|_| r.below(nkeys)).collect()
        }
    }
}

fn gen_table_ops(r: &mut Rng, n: usize, allow_inject: bool) -> (u64, Vec<Op>) {
    let to = *r.pick(&[0u64, 1, 2, 3, 5]);
    let ntx = 2 + r.below(4);
    let nkeys = 2 + r.below(5);
    let mut ops = Vec::new();
    let mut issued = 0u64;
    for _ in 0..n {
        let op = match r.below(100) {
            0..=41 => {
                issued += 1;
                Op::Lock(1 + r.below(ntx), gen_keys(r, nkeys))
            }
            42..=53 => Op::Rel(1 + r.below(ntx + 1)),
            54..=66 => Op::RelH(if issued > 0 && r.chance(5, 6) { r.below(issued) } else { 2_000_000 + r.below(3) }),
            67..=74 => Op::Clean,
            75..=88 => Op::Adv(r.below(5)),
            89..=92 => Op::Sr,
            93..=97 => Op::Query(r.below(nkeys)),
            _ if allow_inject => {
                let mut locks = Vec::new();
                let mut txl: BTreeMap<u64, Vec<u64>> = BTreeMap::new();
                let consistent = r.chance(2, 3);
                for k in 0..nkeys {
                    if r.chance(1, 2) {
                        let tx = 1 + r.below(ntx);
                        let h = INJ_BASE_MODEL + if consistent { tx } else { r.below(3) };
                        let acq = 100 + r.below(12) as i128 - 6;
                        locks.push(LockRow { k, key: if consistent || r.chance(3, 4) { k } else { r.below(nkeys) }, tx, h, acq, to: r.below(4) });
                        if consistent || r.chance(1, 2) {
                            txl.entry(tx).or_default().push(k);
                        }
                    }
                }
                if !consistent && r.chance(1, 2) {
                    txl.entry(1 + r.below(ntx)).or_default().push(r.below(nkeys));
                }
                Op::Inject(locks, txl.into_iter().collect(), to)
            }
            _ => Op::Clean,
        };
        ops.push(op);
    }
    (to, ops)
}

fn op_text(op: &Op) -> String {
    match op {
        Op::Lock(tx, ks) => format!("lock {tx} {}", commas(ks)),
        Op::Rel(tx) => format!("rel {tx}"),
        Op::RelH(h) => format!("relh {h}"),
        Op::Clean => "clean".into(),
        Op::Adv(d) => format!("adv {d}"),
        Op::Sr => "sr".into(),
        Op::Query(k) => format!("q {k}"),
        Op::Inject(l, t, d) => format!("inject {} locks {} idx to={d}", l.len(), t.len()),
    }
}

/// Runs one op sequence on the real LockManager and the model; returns true when everything agreed.
fn run_table_case(m: &mut Model, rep: &mut Report, stream: &str, to: u64, ops: &[Op], record: bool) -> bool {
    run_table_case_on(m, rep, stream, to, ops, record, false)
}

/// `hooked`: drive the real LockManager on the frozen millisecond clock (timeout `to` ms, `Adv(d)` = d ms)
fn run_table_case_on(m: &mut Model, rep: &mut Report, stream: &str, to: u64, ops: &[Op], record: bool, hooked: bool) -> bool {
    let mut real = if hooked { RealTable::new_hooked(to) } else { RealTable::new(to) };
    let mut agreed = m.ask(&format!("reset {to} 0")) == "ok";
    let mut ghost: Vec<Grant> = Vec::new();
    let mut tainted = false; // an inconsistent image was injected: invariants-based oracles are off
    let mut grants = 0;
    let mut state_changes = 0;
    let trace = || json!({"timeout_ticks": to, "ops": ops.iter().map(op_text).collect::<Vec<_>>()});
    for (i, op) in ops.iter().enumerate() {
        let before = real.image();
        let now = real.vnow;
        let (imp, line): (String, String) = match op {
            Op::Lock(tx, ks) => {
                let keys: Vec<String> = ks.iter().map(|k| kname(*k)).collect();
                if hooked && record {
                    for r in before.locks.iter().filter(|r| ks.contains(&r.k) && r.tx != *tx) {
                        let el = now as i128 - r.acq;
                        if el == r.to as i128 { rep.hit("clock.lock.elapsed_eq_timeout"); }
                        if el == r.to as i128 + 1 { rep.hit("clock.lock.elapsed_eq_timeout_plus_1"); }
                        if el + 1 == r.to as i128 { rep.hit("clock.lock.elapsed_eq_timeout_minus_1"); }
                    }
                }
                let res = real.lm.try_lock(*tx, &keys);
                let line = format!("lock {now} {tx} {}", commas(ks));
                match res {
                    Ok(h) => {
                        let hm = real.h_to_model(h);
                        grants += 1;
                        if record { rep.hit(if ks.is_empty() { "table.lock.grant_empty" } else { "table.lock.grant" }); }
                        let after = real.image();
                        // oracle: all-or-nothing — every requested key now belongs to tx under the new handle
                        for k in ks {
                            match after.locks.iter().find(|r| r.k == *k) {
                                Some(r) if r.tx == *tx && r.h == hm => {}
                                _ => rep.violation("LockManager.try_lock/partial_grant", "granted but a requested key is not held by the grantee", json!({"step": i, "key": k, "trace": trace()})),
                            }
                        }
                        // oracle: nothing else moved
                        for r in &before.locks {
                            if !ks.contains(&r.k) && !after.locks.contains(r) {
                                rep.violation("LockManager.try_lock/foreign_lock_disturbed", "a grant changed a lock outside the requested set", json!({"step": i, "trace": trace()}));
                            }
                        }
                        // oracle: granted over an unexpired foreign lock?
                        for r in &before.locks {
                            if ks.contains(&r.k) && r.tx != *tx && !Image::expired(r, now) {
                                if record { rep.hit("oracle.grant_over_live_lock"); }
                                rep.violation("LockManager.try_lock/two_unexpired_holders", "granted a key held by another unexpired transaction", json!({"step": i, "key": r.k, "holder": r.tx, "trace": trace()}));
                            }
                        }
                        for k in ks {
                            ghost.push(Grant { k: *k, tx: *tx, at: now, to: after.dto });
                        }
                        (format!("ok {hm}"), line)
                    }
                    Err(c) => {
                        if record { rep.hit("table.lock.conflict"); }
                        let after = real.image();
                        if after != before {
                            rep.violation("LockManager.try_lock/conflict_state_changed", "refused prepare changed the lock table", json!({"step": i, "trace": trace()}));
                        }
                        if !before.locks.iter().any(|r| ks.contains(&r.k) && r.tx == c && c != *tx && !Image::expired(r, now)) {
                            rep.violation("LockManager.try_lock/spurious_conflict", "refused although the named holder has no live lock on a requested key", json!({"step": i, "named": c, "trace": trace()}));
                        }
                        (format!("conflict {c}"), line)
                    }
                }
            }
            Op::Rel(tx) => {
                real.lm.release(*tx);
                if record { rep.hit("table.release"); }
                ghost.retain(|g| g.tx != *tx);
                let after = real.image();
                if !tainted && (after.locks.iter().any(|r| r.tx == *tx) || after.txl.iter().any(|(t, _)| t == tx)) {
                    rep.violation("LockManager.release/locks_remain", "locks or index entries of the released transaction remain", json!({"step": i, "tx": tx, "trace": trace()}));
                }
                ("ok".into(), format!("rel {tx}"))
            }
            Op::RelH(h) => {
                let rh = real.h_to_real(*h);
                for r in before.locks.iter().filter(|r| r.h == *h) {
                    ghost.retain(|g| !(g.k == r.k && g.tx == r.tx));
                }
                real.lm.release_by_handle(rh);
                if record { rep.hit(if before.locks.iter().any(|r| r.h == *h) { "table.release_by_handle.hit" } else { "table.release_by_handle.miss" }); }
                let after = real.image();
                if after.locks.iter().any(|r| r.h == *h) {
                    rep.violation("LockManager.release_by_handle/locks_remain", "a lock with the released handle remains", json!({"step": i, "trace": trace()}));
                }
                ("ok".into(), format!("relh {h}"))
            }
            Op::Clean => {
                let n = real.lm.cleanup_expired();
                if record { rep.hit(if n > 0 { "table.cleanup.removed" } else { "table.cleanup.none" }); }
                let after = real.image();
                let expect = before.locks.iter().filter(|r| Image::expired(r, now)).count();
                if after.locks.iter().any(|r| Image::expired(r, now)) || n != expect {
                    rep.violation("LockManager.cleanup_expired/expired_remains", "expired lock left behind or wrong count", json!({"step": i, "trace": trace()}));
                }
                if after.locks.iter().any(|r| !before.locks.contains(r)) || before.locks.iter().any(|r| !Image::expired(r, now) && !after.locks.contains(r)) {
                    rep.violation("LockManager.cleanup_expired/live_lock_removed", "cleanup touched an unexpired lock", json!({"step": i, "trace": trace()}));
                }
                (n.to_string(), format!("clean {now}"))
            }
            Op::Adv(d) => {
                real.advance(*d);
                if record { rep.hit("table.advance"); }
                // the model has no state change: time is an argument. Compare the image under the new clock.
                ("ok".into(), "sr".into())
            }
            Op::Sr => {
                if record { rep.hit("table.serialize_restore"); }
                match real.serialize_restore() {
                    Ok(()) => ("ok".into(), "sr".into()),
                    Err(e) => {
                        rep.violation("LockManager.serialize_restore/codec_error", &e, json!({"step": i, "trace": trace()}));
                        ("err".into(), "sr".into())
                    }
                }
            }
            Op::Query(k) => {
                let l = real.lm.is_locked(&kname(*k));
                let h = real.lm.lock_holder(&kname(*k));
                if record { rep.hit(if l { "table.query.locked" } else { "table.query.free" }); }
                let ans = format!("locked={} holder={}", l, h.map_or("-".to_string(), |x| x.to_string()));
                if agreed {
                    let mo = m.ask(&format!("q {now} {k}"));
                    if !rep.compare(stream, || json!({"step": i, "trace": trace()}), &ans, &mo) {
                        agreed = false;
                    }
                }
                continue;
            }
            Op::Inject(l, t, d) => {
                real.inject(l, t, *d);
                if record { rep.hit("table.inject_raw_image"); }
                tainted = true;
                ghost.clear();
                let ls: Vec<String> = l.iter().map(|r| format!("{}:{}:{}:{}:{}:{}", r.k, r.key, r.tx, r.h, r.acq, r.to)).collect();
                let ts: Vec<String> = t.iter().map(|(tx, ks)| format!("{}:{}", tx, dotted(ks))).collect();
                ("ok".into(), format!("inject {} {} {d}", if ls.is_empty() { "-".into() } else { ls.join(",") }, if ts.is_empty() { "-".into() } else { ts.join(",") }))
            }
        };
        let after = real.image();
        if after != before { state_changes += 1; }
        let imp_line = format!("{imp} | {}", after.show());
        // after the first model disagreement the rest of the sequence still runs on the real code so that
        // the implementation-level oracles below can turn the divergence into a property-level failing input
        if agreed {
            let mo = m.ask(&line);
            if !rep.compare(stream, || json!({"step": i, "op": op_text(op), "trace": trace()}), &imp_line, &mo) {
                agreed = false;
            }
        }
        // ---- oracles on the implementation's own image
        let now = real.vnow;
        if !tainted {
            for r in &after.locks {
                if r.key != r.k || !after.txl.iter().any(|(t, ks)| *t == r.tx && ks.contains(&r.k)) {
                    rep.violation("LockManager/tx_index_inconsistent", "a held lock is missing from its transaction's index", json!({"step": i, "key": r.k, "trace": trace()}));
                }
            }
            // exclusivity over ghost grants
            for a in 0..ghost.len() {
                for b in a + 1..ghost.len() {
                    let (x, y) = (&ghost[a], &ghost[b]);
                    if x.k == y.k && x.tx != y.tx && now <= x.at + x.to && now <= y.at + y.to {
                        rep.violation("LockManager/two_unexpired_holders", "two unexpired transactions were both granted the same key and neither released it", json!({"step": i, "key": x.k, "tx": [x.tx, y.tx], "trace": trace()}));
                    }
                }
            }
        }
    }
    if record {
        let key = format!("{:?}", ops);
        rep.case(stream, if grants >= 1 && state_changes >= 1 { Some(&key) } else { None });
    }
    agreed
}


// ------------------------------------------------------------------ frozen clock: the exact expiry boundary

/// Directed: a lock acquired at t0 with timeout T, observed at t0+T-1, t0+T, t0+T+1 through every
/// operation whose answer depends on expiry (is_locked, lock_holder, try_lock by another transaction,
/// try_lock_with_wait_tracking, cleanup_expired, cleanup_expired_with_wait_cleanup), real vs model.
fn clock_boundary(m: &mut Model, rep: &mut Report) {
    let stream = "table.clock.boundary";
    for to in [0u64, 1, 2, 5, 40, 30_000] {
        for delta in [-1i64, 0, 1] {
            if to == 0 && delta < 0 { continue; }
            for probe in ["query", "lock", "lockw", "clean", "cleanw"] {
                let mut real = RealTable::new_hooked(to);
                let g = WaitForGraph::new();
                if m.ask(&format!("reset {to} 0")) != "ok" { rep.disagree(stream, json!({}), "ok", "reset refused"); return; }
                let t0 = real.vnow;
                let h = real.lm.try_lock(1, &[kname(7)]);
                let imp0 = match h { Ok(h) => format!("ok {}", real.h_to_model(h)), Err(c) => format!("conflict {c}") };
                let img0 = real.image();
                let mo0 = m.ask(&format!("lock {t0} 1 7"));
                if !rep.compare(stream, || json!({"timeout_ms": to, "step": "grant"}), &format!("{imp0} | {}", img0.show()), &mo0) { return; }
                let at = (t0 + to) as i64 + delta;
                real.advance((at as u64) - t0);
                let now = real.vnow;
                let expect_expired = delta > 0; // `elapsed > timeout`
                let (imp, line) = match probe {
                    "query" => {
                        let l = real.lm.is_locked(&kname(7));
                        let hd = real.lm.lock_holder(&kname(7));
                        if l == expect_expired || hd.is_some() == expect_expired {
                            rep.violation("KeyLock.is_expired/boundary", "is_locked / lock_holder disagree with `elapsed > timeout`", json!({"timeout_ms": to, "elapsed_minus_timeout": delta}));
                        }
                        (format!("locked={} holder={}", l, hd.map_or("-".to_string(), |x| x.to_string())), format!("q {now} 7"))
                    }
                    "lock" => {
                        let r = real.lm.try_lock(2, &[kname(7), kname(8)]);
                        if r.is_ok() != expect_expired {
                            rep.violation("KeyLock.is_expired/boundary", "try_lock by another transaction disagrees with `elapsed > timeout`", json!({"timeout_ms": to, "elapsed_minus_timeout": delta}));
                        }
                        let a = match r { Ok(h) => format!("ok {}", real.h_to_model(h)), Err(c) => format!("conflict {c}") };
                        (format!("{a} | {}", real.image().show()), format!("lock {now} 2 7,8"))
                    }
                    "lockw" => {
                        let r = real.lm.try_lock_with_wait_tracking(2, &[kname(7)], &g, Some(3));
                        let a = match r { Ok(h) => format!("ok {}", real.h_to_model(h)), Err(w) => format!("conflict {}", commas(&w.conflicting_keys.iter().map(|k| kid(k)).collect::<Vec<_>>())) };
                        let Some(v) = view(&g) else { return; };
                        (format!("{a} | {} | {}", real.image().show(), graph_img(&v, 0)), format!("lockw {now} {now} 2 7 3"))
                    }
                    "clean" => {
                        let n = real.lm.cleanup_expired();
                        if (n == 1) != expect_expired {
                            rep.violation("KeyLock.is_expired/boundary", "cleanup_expired disagrees with `elapsed > timeout`", json!({"timeout_ms": to, "elapsed_minus_timeout": delta}));
                        }
                        (format!("{n} | {}", real.image().show()), format!("clean {now}"))
                    }
                    _ => {
                        let n = real.lm.cleanup_expired_with_wait_cleanup(&g);
                        let Some(v) = view(&g) else { return; };
                        (format!("{n} | {} | {}", real.image().show(), graph_img(&v, 0)), format!("cleanw {now}"))
                    }
                };
                let mo = m.ask(&line);
                rep.hit(&format!("clock.boundary.elapsed_minus_timeout.{}", match delta { -1 => "minus1", 0 => "zero", _ => "plus1" }));
                rep.hit(&format!("clock.boundary.probe.{probe}"));
                rep.case(stream, Some(&format!("{to}/{delta}/{probe}")));
                rep.compare(stream, || json!({"timeout_ms": to, "elapsed_minus_timeout": delta, "probe": probe, "line": line}), &imp, &mo);
            }
        }
    }
    // wait_started is the frozen clock too: add_wait twice at different times keeps the first
    {
        let real = RealTable::new_hooked(5);
        let g = WaitForGraph::new();
        g.add_wait(1, 2, None);
        verif_clock::set_now_ms(Some(real.vnow + 7));
        g.add_wait(1, 3, Some(1));
        let ws = g.get_wait_start(1);
        rep.case(stream, Some("wait_started"));
        if ws != Some(real.vnow) {
            rep.violation("WaitForGraph.add_wait/wait_started_overwritten", "second add_wait of a waiting transaction changed its wait start", json!({"got": ws, "want": real.vnow}));
        }
        // cleanup_stale_edges uses the same `>` comparison
        verif_clock::set_now_ms(Some(real.vnow + 10));
        let n_eq = g.cleanup_stale_edges(10);
        verif_clock::set_now_ms(Some(real.vnow + 11));
        let n_gt = g.cleanup_stale_edges(10);
        rep.observe(json!({"cleanup_stale_edges": "ttl 10 ms: removed at elapsed==ttl / elapsed==ttl+1", "removed": [n_eq, n_gt]}));
        rep.hit(&format!("clock.stale_edges.eq_{n_eq}.gt_{n_gt}"));
    }
}

// ------------------------------------------------------------------ deterministic scheduler on real threads

#[derive(Clone, Debug)]
enum SOp {
    Lock(u64, Vec<u64>),
    Rel(u64),
    RelH(usize), // i-th handle this thread was granted (if any)
    Clean,
    Query(u64),
    Tick, // advance the frozen clock by 1 ms (an op of its own, scheduled like the others)
}

/// 2..4 real threads run scripts of LockManager operations under `nverif::sched::run_threads`; the
/// harness yields before every operation (site `lm.op`).  Outcome: (1) the executed trace contains no
/// yield site other than the harness's own — no operation of LockManager yields, each is atomic for
/// the scheduler; (2) the linearisation chosen by the scheduler, replayed on the Lean model, gives
/// the same result for every operation and the same final table.
fn sched_lockmanager_case(m: &mut Model, rep: &mut Report, r: &mut Rng) {
    let stream = "sched.lockmanager";
    let to = *r.pick(&[0u64, 1, 2, 3, 50]);
    let nthreads = 2 + r.below(3) as usize;
    let nkeys = 2 + r.below(3);
    let mut scripts: Vec<Vec<SOp>> = Vec::new();
    for t in 0..nthreads {
        let n = 2 + r.below(5) as usize;
        let mut sc = Vec::new();
        let mut granted = 0usize;
        for _ in 0..n {
            sc.push(match r.below(100) {
                0..=49 => { granted += 1; SOp::Lock(10 * (t as u64 + 1) + r.below(2), gen_keys(r, nkeys)) }
                50..=61 => SOp::Rel(10 * (t as u64 + 1) + r.below(2)),
                62..=73 => SOp::RelH(if granted > 0 { r.below(granted as u64) as usize } else { 0 }),
                74..=81 => SOp::Clean,
                82..=89 => SOp::Query(r.below(nkeys)),
                _ => SOp::Tick,
            });
        }
        scripts.push(sc);
    }
    let base = HOOK_BASE;
    verif_clock::set_now_ms(Some(base));
    let lm = Arc::new(LockManager::with_default_timeout(Duration::from_millis(to)));
    // log of (thread, op index, op, clock at the op, result text)
    let log: Arc<std::sync::Mutex<Vec<(usize, SOp, u64, String)>>> = Arc::new(std::sync::Mutex::new(Vec::new()));
    let clock = Arc::new(AtomicU64::new(base));
    let tasks: Vec<Box<dyn FnOnce() + Send>> = scripts
        .iter()
        .cloned()
        .enumerate()
        .map(|(t, sc)| {
            let (lm, log, clock) = (lm.clone(), log.clone(), clock.clone());
            Box::new(move || {
                let mut mine: Vec<u64> = Vec::new();
                for op in sc {
                    tensor_store::verif::yield_point("lm.op", "");
                    let now = clock.load(Ordering::SeqCst);
                    let res = match &op {
                        SOp::Lock(tx, ks) => {
                            let keys: Vec<String> = ks.iter().map(|k| kname(*k)).collect();
                            match lm.try_lock(*tx, &keys) {
                                Ok(h) => { mine.push(h); format!("ok {h}") }
                                Err(c) => format!("conflict {c}"),
                            }
                        }
                        SOp::Rel(tx) => { lm.release(*tx); "ok".into() }
                        SOp::RelH(i) => match mine.get(*i) {
                            Some(h) => { lm.release_by_handle(*h); format!("relh {h}") }
                            None => "skip".into(),
                        },
                        SOp::Clean => lm.cleanup_expired().to_string(),
                        SOp::Query(k) => format!("locked={} holder={}", lm.is_locked(&kname(*k)), lm.lock_holder(&kname(*k)).map_or("-".to_string(), |x| x.to_string())),
                        SOp::Tick => { let n = clock.fetch_add(1, Ordering::SeqCst) + 1; verif_clock::set_now_ms(Some(n)); "ok".into() }
                    };
                    log.lock().unwrap().push((t, op, now, res));
                }
            }) as Box<dyn FnOnce() + Send>
        })
        .collect();
    let mut sr = r.fork("schedule");
    let trace = nverif::sched::run_threads(tasks, move |_, parked| sr.below(parked.len() as u64) as usize);
    // (1) yield sites: only the harness's own
    let foreign: Vec<&str> = trace.iter().map(|s| s.site).filter(|s| *s != "lm.op" && *s != "thread.start").collect();
    rep.hit_n("sched.lm.steps", trace.len() as u64);
    if !foreign.is_empty() {
        rep.hit("sched.lm.yield_inside_operation");
        rep.observe(json!({"lockmanager_operation_yielded_at": foreign}));
    } else {
        rep.hit("sched.lm.no_yield_inside_operations");
    }
    if trace.iter().any(|s| !s.blocked.is_empty()) { rep.hit("sched.lm.blocked_runner_seen"); }
    let switches = trace.windows(2).filter(|w| w[0].thread != w[1].thread).count();
    rep.hit(&format!("sched.lm.context_switches.{}", switches.min(9)));
    // (2) replay the linearisation on the model
    let log = log.lock().unwrap().clone();
    let order: Vec<String> = log.iter().map(|(t, op, _, _)| format!("T{t}:{op:?}")).collect();
    if m.ask(&format!("reset {to} 0")) != "ok" { return; }
    let mut handles: Vec<u64> = Vec::new(); // model handle i -> real handle
    let mut grants = 0;
    for (i, (t, op, now, res)) in log.iter().enumerate() {
        let (line, imp): (String, String) = match op {
            SOp::Lock(tx, ks) => {
                let imp = if let Some(h) = res.strip_prefix("ok ") {
                    let h: u64 = h.parse().unwrap_or(0);
                    handles.push(h);
                    grants += 1;
                    format!("ok {}", handles.len() - 1)
                } else { res.clone() };
                (format!("lock {now} {tx} {}", commas(ks)), imp)
            }
            SOp::Rel(tx) => (format!("rel {tx}"), "ok".into()),
            SOp::RelH(_) => match res.strip_prefix("relh ") {
                Some(h) => {
                    let h: u64 = h.parse().unwrap_or(0);
                    let hm = handles.iter().position(|x| *x == h).map_or(3_000_000, |p| p as u64);
                    (format!("relh {hm}"), "ok".into())
                }
                None => continue,
            },
            SOp::Clean => (format!("clean {now}"), res.clone()),
            SOp::Query(k) => (format!("q {now} {k}"), res.clone()),
            SOp::Tick => continue,
        };
        let mo = m.ask(&line);
        let mo_res = mo.split(" | ").next().unwrap_or("").to_string();
        rep.hit(&format!("sched.lm.op.{}", line.split(' ').next().unwrap_or("")));
        if !rep.compare(stream, || json!({"linearisation": order, "step": i, "thread": t, "timeout_ms": to}), &imp, &mo_res) {
            verif_clock::set_now_ms(None);
            return;
        }
    }
    // final table
    let mut rt = RealTable { lm: LockManager::from_serializable(lm.to_serializable()), vnow: clock.load(Ordering::SeqCst), handles, hooked: true };
    let img = rt.image().show();
    let mo = m.ask("sr");
    let mo_img = mo.split(" | ").nth(1).unwrap_or("").to_string();
    rep.compare(stream, || json!({"linearisation": order, "step": "final image", "timeout_ms": to}), &img, &mo_img);
    drop(rt); // resets the hook
    let key = order.join(";");
    rep.case(stream, if grants >= 1 && switches >= 2 { Some(&key) } else { None });
}

// ------------------------------------------------------------------ wait-for graph

/// Parse `field: RwLock { data: {k: {a, b}, ...} }` or `{k: v, ...}` from the Debug text, keeping
/// the text order (= the hash map's iteration order).
fn dbg_field<'a>(dbg: &'a str, field: &str) -> Option<&'a str> {
    let pat = format!(" {field}: RwLock {{ data: ");
    let start = dbg.find(&pat)? + pat.len();
    let bytes = dbg.as_bytes();
    let mut depth = 0i32;
    for i in start..bytes.len() {
        match bytes[i] {
            b'{' => depth += 1,
            b'}' => {
                depth -= 1;
                if depth == 0 {
                    return Some(&dbg[start + 1..i]);
                }
            }
            _ => {}
        }
    }
    None
}
fn parse_set_map(body: &str) -> Option<Vec<(u64, Vec<u64>)>> {
    let mut out = Vec::new();
    let mut rest = body.trim();
    while !rest.is_empty() {
        let colon = rest.find(':')?;
        let k: u64 = rest[..colon].trim().parse().ok()?;
        let open = rest.find('{')?;
        let close = rest.find('}')?;
        let inner = rest[open + 1..close].trim();
        let vs: Vec<u64> = if inner.is_empty() { vec![] } else { inner.split(',').map(|x| x.trim().parse().ok()).collect::<Option<Vec<_>>>()? };
        out.push((k, vs));
        rest = rest[close + 1..].trim_start_matches(',').trim();
    }
    Some(out)
}
fn parse_nat_map(body: &str) -> Option<Vec<(u64, u64)>> {
    let body = body.trim();
    if body.is_empty() {
        return Some(vec![]);
    }
    body.split(',')
        .map(|e| {
            let (k, v) = e.split_once(':')?;
            Some((k.trim().parse().ok()?, v.trim().parse().ok()?))
        })
        .collect()
}

struct GraphView {
    edges: Vec<(u64, Vec<u64>)>, // iteration order
    reverse: Vec<(u64, Vec<u64>)>,
    ws: Vec<(u64, u64)>,
    pr: Vec<(u64, u64)>,
}
fn view(g: &WaitForGraph) -> Option<GraphView> {
    let d = format!("{g:?}");
    Some(GraphView {
        edges: parse_set_map(dbg_field(&d, "edges")?)?,
        reverse: parse_set_map(dbg_field(&d, "reverse_edges")?)?,
        ws: parse_nat_map(dbg_field(&d, "wait_started")?)?,
        pr: parse_nat_map(dbg_field(&d, "priorities")?)?,
    })
}
fn show_adj(a: &[(u64, Vec<u64>)]) -> String {
    if a.is_empty() {
        "-".into()
    } else {
        a.iter().map(|(k, vs)| format!("{k}:{}", dotted(vs))).collect::<Vec<_>>().join(",")
    }
}
fn show_nat_map(a: &[(u64, u64)], sep: char) -> String {
    a.iter().map(|(k, v)| format!("{k}{sep}{v}")).collect::<Vec<_>>().join(",")
}
fn graph_img(v: &GraphView, base: u64) -> String {
    let canon = |m: &[(u64, Vec<u64>)]| {
        let mut m: Vec<(u64, Vec<u64>)> = m.iter().map(|(k, vs)| { let mut vs = vs.clone(); vs.sort(); (*k, vs) }).collect();
        m.sort();
        m.iter().map(|(k, vs)| format!("{k}:{}", dotted(vs))).collect::<Vec<_>>().join(",")
    };
    let mut ws: Vec<(u64, u64)> = v.ws.iter().map(|(k, t)| (*k, t.saturating_sub(base))).collect();
    ws.sort();
    let mut pr = v.pr.clone();
    pr.sort();
    format!("E {};R {};W {};P {}", canon(&v.edges), canon(&v.reverse), show_nat_map(&ws, '='), show_nat_map(&pr, '=')).trim_end().to_string()
}
fn show_cycles(cs: &[Vec<u64>]) -> String {
    if cs.is_empty() {
        "-".into()
    } else {
        cs.iter().map(|c| dotted(c)).collect::<Vec<_>>().join(";")
    }
}

/// independent oracle: does the edge relation contain a cycle? (iteratively strip sinks)
fn oracle_has_cycle(edges: &[(u64, u64)]) -> bool {
    let mut es: Vec<(u64, u64)> = edges.to_vec();
    loop {
        let before = es.len();
        let sources: BTreeSet<u64> = es.iter().map(|e| e.0).collect();
        es.retain(|e| sources.contains(&e.1)); // drop edges into sinks
        if es.len() == before {
            return !es.is_empty();
        }
    }
}
fn oracle_is_cycle(edges: &BTreeSet<(u64, u64)>, c: &[u64]) -> bool {
    if c.is_empty() {
        return false;
    }
    let distinct: BTreeSet<u64> = c.iter().copied().collect();
    if distinct.len() != c.len() {
        return false;
    }
    for i in 0..c.len() {
        if !edges.contains(&(c[i], c[(i + 1) % c.len()])) {
            return false;
        }
    }
    true
}

fn policy_name(p: VictimSelectionPolicy) -> &'static str {
    match p {
        VictimSelectionPolicy::Youngest => "youngest",
        VictimSelectionPolicy::Oldest => "oldest",
        VictimSelectionPolicy::LowestPriority => "lowest_priority",
        VictimSelectionPolicy::MostLocks => "most_locks",
    }
}
const POLICIES: [VictimSelectionPolicy; 4] = [VictimSelectionPolicy::Youngest, VictimSelectionPolicy::Oldest, VictimSelectionPolicy::LowestPriority, VictimSelectionPolicy::MostLocks];

/// checks one real detection result against the independent oracle
fn check_detection(rep: &mut Report, site: &str, edge_list: &[(u64, u64)], cycles: &[Vec<u64>], victims: Option<&[u64]>, complete_expected: bool, input: &dyn Fn() -> serde_json::Value) {
    let eset: BTreeSet<(u64, u64)> = edge_list.iter().copied().collect();
    let has = oracle_has_cycle(edge_list);
    rep.hit(if has { "graph.cyclic" } else { "graph.acyclic" });
    if has && cycles.is_empty() && complete_expected {
        rep.violation(&format!("{site}/cycle_missed"), "the wait-for relation contains a cycle but none was reported", input());
    }
    if !has && !cycles.is_empty() {
        rep.violation(&format!("{site}/false_cycle"), "a cycle was reported on an acyclic wait-for relation", input());
    }
    for (i, c) in cycles.iter().enumerate() {
        if !oracle_is_cycle(&eset, c) {
            rep.violation(&format!("{site}/reported_cycle_not_a_cycle"), "a reported cycle is not a cycle of the recorded wait-for edges", input());
        }
        if let Some(vs) = victims {
            if !c.contains(&vs[i]) {
                rep.violation(&format!("{site}/victim_not_in_cycle"), "the victim is not a member of its cycle", input());
            }
        }
    }
}

fn exhaustive_graphs(m: &mut Model, rep: &mut Report, n: u64, stride: u64) {
    let pairs: Vec<(u64, u64)> = (1..=n).flat_map(|a| (1..=n).filter(move |b| *b != a).map(move |b| (a, b))).collect();
    let total: u64 = 1 << pairs.len();
    let stream = format!("graph.exhaustive.n{n}");
    let mut code = 0u64;
    while code < total {
        let edge_list: Vec<(u64, u64)> = pairs.iter().enumerate().filter(|(i, _)| code >> i & 1 == 1).map(|(_, e)| *e).collect();
        let pol = POLICIES[(code % 4) as usize];
        let mut det = DeadlockDetector::new(DeadlockDetectorConfig::default().with_policy(pol));
        if pol == VictimSelectionPolicy::MostLocks && code % 8 >= 4 {
            det.set_lock_count_fn(|tx| ((tx * 7) % 5) as usize);
        }
        let has_fn = pol == VictimSelectionPolicy::MostLocks && code % 8 >= 4;
        for (a, b) in &edge_list {
            det.graph().add_wait(*a, *b, if (a + b + code) % 3 == 0 { Some(((a * 3 + b) % 4) as u32) } else { None });
        }
        let cycles = det.graph().detect_cycles();
        let infos = det.detect();
        let input = || json!({"n": n, "edges": edge_list});
        check_detection(rep, "WaitForGraph.detect_cycles", &edge_list, &cycles, None, true, &input);
        let dc: Vec<Vec<u64>> = infos.iter().map(|d| d.cycle.clone()).collect();
        let dv: Vec<u64> = infos.iter().map(|d| d.victim_tx_id).collect();
        check_detection(rep, "DeadlockDetector.detect", &edge_list, &dc, Some(&dv), true, &input);
        // model (every `stride`-th graph; the oracle above runs on all of them)
        if code % stride != 0 {
            let okey = format!("{code}");
            rep.case(&format!("{stream}.oracle_only"), if !cycles.is_empty() { Some(&okey) } else { None });
            code += 1;
            continue;
        }
        match view(det.graph()) {
            None => rep.disagree(&stream, input(), "unparseable Debug output of WaitForGraph", ""),
            Some(v) => {
                // NB: two calls of detect_cycles on the same unmodified map iterate identically
                let mo = m.ask(&format!("xcycles {}", show_adj(&v.edges)));
                rep.compare(&stream, || json!({"n": n, "order": show_adj(&v.edges)}), &show_cycles(&cycles), &mo);
                let base = v.ws.iter().map(|x| x.1).min().unwrap_or(0);
                let ws: Vec<(u64, u64)> = v.ws.iter().map(|(k, t)| (*k, t - base + 1)).collect();
                let lc = if has_fn { show_nat_map(&(1..=n).map(|tx| (tx, (tx * 7) % 5)).collect::<Vec<_>>(), ':') } else { "none".into() };
                let line = format!(
                    "xdetect 1 {} 100 3 {} {} {} {}",
                    policy_name(pol), lc,
                    if ws.is_empty() { "-".into() } else { show_nat_map(&ws, ':') },
                    if v.pr.is_empty() { "-".into() } else { show_nat_map(&v.pr, ':') },
                    show_adj(&v.edges)
                );
                let imp = if infos.is_empty() { "-".to_string() } else { infos.iter().map(|d| format!("{}>{}", dotted(&d.cycle), d.victim_tx_id)).collect::<Vec<_>>().join(";") };
                let mo = m.ask(&line);
                rep.compare(&stream, || json!({"n": n, "line": line}), &imp, &mo);
                if infos.len() < cycles.len() { rep.hit("detect.cascade_skipped"); }
            }
        }
        rep.hit(&format!("detect.policy.{}", policy_name(pol)));
        let key = format!("{code}");
        rep.case(&stream, if !cycles.is_empty() { Some(&key) } else { None });
        code += 1;
    }
}

fn random_graph_case(m: &mut Model, rep: &mut Report, r: &mut Rng, case_no: u64) {
    let stream = "graph.random";
    let n = 3 + r.below(6); // 3..8 transactions
    let max_edges = if r.chance(1, 4) { 1 + r.below(3) } else { 0 };
    let pol = *r.pick(&POLICIES);
    let maxlen = if r.chance(1, 4) { 1 + r.below(4) } else { 100 };
    let casc = *r.pick(&[0u32, 1, 3]);
    let mut cfg = DeadlockDetectorConfig::default().with_policy(pol).with_max_cycle_length(maxlen as usize).with_victim_cascade_depth(casc).with_max_edges_per_tx(max_edges as usize);
    let enabled = !r.chance(1, 25);
    cfg.enabled = enabled;
    let mut det = DeadlockDetector::new(cfg);
    let counts: Vec<(u64, u64)> = (1..=n).map(|tx| (tx, r.below(4))).collect();
    let has_fn = r.chance(1, 2);
    if has_fn {
        let c = counts.clone();
        det.set_lock_count_fn(move |tx| c.iter().find(|x| x.0 == tx).map_or(0, |x| x.1 as usize));
    }
    let base = now_ms() - 1; // relative timestamps start at 1: 0 would tie with "absent" (unwrap_or(0)) in the model only
    let mut ok = m.ask(&format!("reset 3 {max_edges}")) == "ok";
    ok &= m.ask(&format!("gcfg {} {} {maxlen} {casc} {}", u8::from(enabled), policy_name(pol), if has_fn { show_nat_map(&counts, ':') } else { "none".into() })) == "ok";
    if !ok {
        rep.disagree(stream, json!({"case": case_no}), "ok", "model refused reset/gcfg");
        return;
    }
    let nops = 4 + r.below(24);
    let mut trace: Vec<String> = Vec::new();
    let mut nontrivial = false;
    for _ in 0..nops {
        let g = det.graph();
        let (line, what) = match r.below(100) {
            0..=69 => {
                let (w, h) = (1 + r.below(n), 1 + r.below(n));
                let p = if r.chance(1, 3) { Some(r.below(5) as u32) } else { None };
                if r.chance(1, 12) { std::thread::sleep(Duration::from_millis(2)); }
                let was_waiting = g.get_wait_start(w).is_some();
                let t0 = now_ms();
                g.add_wait(w, h, p);
                let wnow = if was_waiting { now_ms() } else { g.get_wait_start(w).unwrap_or(t0) };
                rep.hit(if w == h { "graph.add_wait.self" } else { "graph.add_wait" });
                (format!("gadd {} {w} {h} {}", wnow.saturating_sub(base), p.map_or("-".to_string(), |x| x.to_string())), "add")
            }
            70..=81 => {
                let tx = 1 + r.below(n);
                g.remove_transaction(tx);
                rep.hit("graph.remove_transaction");
                (format!("grm {tx}"), "rm")
            }
            82..=91 => {
                let (w, h) = (1 + r.below(n), 1 + r.below(n));
                g.remove_wait(w, h);
                rep.hit("graph.remove_wait");
                (format!("grmw {w} {h}"), "rmw")
            }
            _ => {
                // detection in the middle of the sequence
                ("".to_string(), "detect")
            }
        };
        let _ = what;
        if !line.is_empty() {
            trace.push(line.clone());
            let Some(v) = view(det.graph()) else { rep.disagree(stream, json!({"trace": trace}), "unparseable Debug", ""); return; };
            let imp = format!("ok | {}", graph_img(&v, base));
            let mo = m.ask(&line);
            if !rep.compare(stream, || json!({"trace": trace}), &imp, &mo) { return; }
            // oracle: reverse index mirrors forward edges
            let fwd: BTreeSet<(u64, u64)> = v.edges.iter().flat_map(|(k, vs)| vs.iter().map(move |x| (*k, *x))).collect();
            let rev: BTreeSet<(u64, u64)> = v.reverse.iter().flat_map(|(k, vs)| vs.iter().map(move |x| (*x, *k))).collect();
            if fwd != rev {
                rep.violation("WaitForGraph/reverse_index_diverged", "reverse_edges is not the transpose of edges", json!({"trace": trace}));
            }
            if line.starts_with("grm ") {
                let tx: u64 = line[4..].parse().unwrap();
                if fwd.iter().any(|e| e.0 == tx || e.1 == tx) || v.ws.iter().any(|x| x.0 == tx) {
                    rep.violation("WaitForGraph.remove_transaction/still_present", "removed transaction still appears as waiter or holder", json!({"trace": trace}));
                }
            }
            continue;
        }
        // detection
        let Some(v) = view(det.graph()) else { return; };
        let edge_list: Vec<(u64, u64)> = v.edges.iter().flat_map(|(k, vs)| vs.iter().map(move |x| (*k, *x))).collect();
        let cycles = det.graph().detect_cycles();
        let infos = det.detect();
        let tr = trace.clone();
        let input = move || json!({"trace": tr, "policy": policy_name(pol), "max_cycle_length": maxlen, "cascade": casc});
        check_detection(rep, "WaitForGraph.detect_cycles", &edge_list, &cycles, None, true, &input);
        let dc: Vec<Vec<u64>> = infos.iter().map(|d| d.cycle.clone()).collect();
        let dv: Vec<u64> = infos.iter().map(|d| d.victim_tx_id).collect();
        if enabled {
            check_detection(rep, "DeadlockDetector.detect", &edge_list, &dc, Some(&dv), maxlen >= n, &input);
        } else if !infos.is_empty() {
            rep.violation("DeadlockDetector.detect/disabled_reports", "disabled detector reported a deadlock", input());
        }
        let mo = m.ask(&format!("gcycles {}", show_adj(&v.edges)));
        if !rep.compare(stream, &input, &show_cycles(&cycles), &mo) { return; }
        let imp = if infos.is_empty() { "-".to_string() } else { infos.iter().map(|d| format!("{}>{}", dotted(&d.cycle), d.victim_tx_id)).collect::<Vec<_>>().join(";") };
        let mo = m.ask(&format!("gdetect {}", show_adj(&v.edges)));
        if !rep.compare(stream, &input, &imp, &mo) { return; }
        if !cycles.is_empty() { nontrivial = true; }
        if cycles.iter().any(|c| c.len() as u64 > maxlen) { rep.hit("detect.filtered_by_max_cycle_length"); }
        if infos.len() < dc.len().max(cycles.iter().filter(|c| c.len() as u64 <= maxlen).count()) { rep.hit("detect.cascade_skipped"); }
        if !enabled { rep.hit("detect.disabled"); }
        rep.hit(&format!("detect.policy.{}", policy_name(pol)));
        // victim of arbitrary lists (empty / singleton / non-cycle)
        let c: Vec<u64> = (0..r.below(4)).map(|_| 1 + r.below(n)).collect();
        let imp = det.select_victim(&c).to_string();
        let mo = m.ask(&format!("gvictim {}", if c.is_empty() { "-".to_string() } else { dotted(&c) }));
        rep.compare(stream, || json!({"victim_of": c}), &imp, &mo);
    }
    let key = trace.join(";");
    rep.case(stream, if nontrivial { Some(&key) } else { None });
}

/// independent oracle: is `to` reachable from `from` along the edges (zero or more steps)?
fn oracle_reach(edges: &BTreeSet<(u64, u64)>, from: u64, to: u64) -> bool {
    let mut seen: BTreeSet<u64> = BTreeSet::new();
    let mut todo = vec![from];
    while let Some(x) = todo.pop() {
        if x == to { return true; }
        if seen.insert(x) {
            for (a, b) in edges.iter() { if *a == x { todo.push(*b); } }
        }
    }
    false
}

/// Frozen clock: add_wait / remove_transaction / remove_wait / clear / cleanup_stale_edges(ttl) /
/// would_create_cycle on one WaitForGraph vs the model, image compared after every op.
fn graph_ops2_case(m: &mut Model, rep: &mut Report, r: &mut Rng) {
    let stream = "graph.ops2";
    let n = 3 + r.below(5);
    let max_edges = if r.chance(1, 4) { 1 + r.below(3) } else { 0 };
    let g = WaitForGraph::with_max_edges_per_tx(max_edges as usize);
    if m.ask(&format!("reset 3 {max_edges}")) != "ok" { rep.disagree(stream, json!({}), "ok", "reset refused"); return; }
    let mut now = 1u64; // relative; 0 would tie with "absent" in victim selection
    verif_clock::set_now_ms(Some(CO_BASE + now));
    struct Reset;
    impl Drop for Reset { fn drop(&mut self) { verif_clock::set_now_ms(None); } }
    let _reset = Reset;
    let mut trace: Vec<String> = Vec::new();
    let (mut asked, mut stale_removed) = (0, 0);
    for _ in 0..6 + r.below(22) {
        let Some(before) = view(&g) else { return; };
        let fwd_before: BTreeSet<(u64, u64)> = before.edges.iter().flat_map(|(k, vs)| vs.iter().map(move |x| (*k, *x))).collect();
        let (imp, line): (String, String) = match r.below(100) {
            0..=44 => {
                let (w, h) = (1 + r.below(n), 1 + r.below(n));
                let p = if r.chance(1, 4) { Some(r.below(5) as u32) } else { None };
                g.add_wait(w, h, p);
                ("ok".into(), format!("gadd {now} {w} {h} {}", p.map_or("-".to_string(), |x| x.to_string())))
            }
            45..=52 => { let tx = 1 + r.below(n); g.remove_transaction(tx); ("ok".into(), format!("grm {tx}")) }
            53..=58 => { let (w, h) = (1 + r.below(n), 1 + r.below(n)); g.remove_wait(w, h); ("ok".into(), format!("grmw {w} {h}")) }
            59..=60 => { g.clear(); rep.hit("graph2.clear"); ("ok".into(), "gclear".into()) }
            61..=72 => {
                let ttl = r.below(5);
                let cnt = g.cleanup_stale_edges(ttl);
                rep.hit(if cnt > 0 { "graph2.stale.removed" } else { "graph2.stale.none" });
                stale_removed += cnt;
                // oracle: exactly the waiters whose wait started more than ttl ago are gone, on both sides
                let Some(after) = view(&g) else { return; };
                for (tx, started) in &before.ws {
                    let stale = (CO_BASE + now).saturating_sub(*started) > ttl;
                    if (CO_BASE + now).saturating_sub(*started) == ttl { rep.hit("graph2.stale.boundary_elapsed_eq_ttl_kept"); }
                    let present = after.edges.iter().any(|(k, vs)| k == tx || vs.contains(tx)) || after.reverse.iter().any(|(k, vs)| k == tx || vs.contains(tx)) || after.ws.iter().any(|x| x.0 == *tx);
                    if stale && present {
                        rep.violation("WaitForGraph.cleanup_stale_edges/stale_tx_remains", "a transaction whose wait is older than the ttl is still in the graph", json!({"trace": trace, "ttl": ttl, "tx": tx}));
                    }
                    if !stale && !after.ws.iter().any(|x| x.0 == *tx) {
                        rep.violation("WaitForGraph.cleanup_stale_edges/fresh_tx_removed", "a transaction whose wait is not older than the ttl lost its wait start", json!({"trace": trace, "ttl": ttl, "tx": tx}));
                    }
                }
                (cnt.to_string(), format!("gstale {now} {ttl}"))
            }
            73..=89 => {
                let (w, h) = (1 + r.below(n), 1 + r.below(n));
                let ans = g.would_create_cycle(w, h);
                asked += 1;
                rep.hit(if ans { "graph2.wcc.true" } else { "graph2.wcc.false" });
                // oracle: true exactly when w == h or w is reachable from h; and then adding the edge closes a cycle
                let want = w == h || oracle_reach(&fwd_before, h, w);
                if ans != want {
                    rep.violation("WaitForGraph.would_create_cycle/wrong_answer", "would_create_cycle disagrees with reachability holder ->* waiter", json!({"trace": trace, "waiter": w, "holder": h, "got": ans}));
                }
                let mut plus: Vec<(u64, u64)> = fwd_before.iter().copied().collect();
                let acyclic_before = !oracle_has_cycle(&plus);
                plus.push((w, h));
                if w != h && acyclic_before && oracle_has_cycle(&plus) != ans {
                    rep.violation("WaitForGraph.would_create_cycle/prevention_unsound", "on an acyclic graph the answer differs from whether adding the edge creates a cycle", json!({"trace": trace, "waiter": w, "holder": h, "got": ans}));
                }
                let line = format!("gwcc {w} {h}");
                trace.push(line.clone());
                let mo = m.ask(&line);
                if !rep.compare(stream, || json!({"trace": trace}), &ans.to_string(), &mo) { return; }
                continue;
            }
            _ => { let d = r.below(4); now += d; verif_clock::set_now_ms(Some(CO_BASE + now)); continue; }
        };
        trace.push(line.clone());
        let Some(v) = view(&g) else { rep.disagree(stream, json!({"trace": trace}), "unparseable Debug", ""); return; };
        let mo = m.ask(&line);
        if !rep.compare(stream, || json!({"trace": trace}), &format!("{imp} | {}", graph_img(&v, CO_BASE)), &mo) { return; }
        let fwd: BTreeSet<(u64, u64)> = v.edges.iter().flat_map(|(k, vs)| vs.iter().map(move |x| (*k, *x))).collect();
        let rev: BTreeSet<(u64, u64)> = v.reverse.iter().flat_map(|(k, vs)| vs.iter().map(move |x| (*x, *k))).collect();
        if fwd != rev {
            rep.violation("WaitForGraph/reverse_index_diverged", "reverse_edges is not the transpose of edges", json!({"trace": trace}));
        }
    }
    let key = trace.join(";");
    rep.case(stream, if asked >= 1 && stale_removed >= 1 { Some(&key) } else { None });
}

// ------------------------------------------------------------------ lock manager + wait graph (`*_with_wait_*`)

fn wait_variant_case(m: &mut Model, rep: &mut Report, r: &mut Rng) {
    let stream = "table+graph.ops";
    let to = *r.pick(&[1u64, 2, 3]);
    let mut real = RealTable::new(to);
    let g = WaitForGraph::new();
    let base = now_ms() - 1;
    if m.ask(&format!("reset {to} 0")) != "ok" { rep.disagree(stream, json!({}), "ok", "reset refused"); return; }
    let ntx = 3 + r.below(3);
    let nkeys = 2 + r.below(3);
    let nops = 6 + r.below(20);
    let mut trace: Vec<String> = Vec::new();
    let mut handles_of: BTreeMap<u64, Vec<u64>> = BTreeMap::new(); // tx -> model handles
    let mut ended: BTreeSet<u64> = BTreeSet::new();
    let mut nontrivial = false;
    for _ in 0..nops {
        let now = real.vnow;
        let live: Vec<u64> = (1..=ntx).filter(|t| !ended.contains(t)).collect();
        if live.is_empty() { break; }
        let (imp, line) = match r.below(100) {
            0..=54 => {
                let tx = *r.pick(&live);
                let ks = gen_keys(r, nkeys);
                let keys: Vec<String> = ks.iter().map(|k| kname(*k)).collect();
                let prio = if r.chance(1, 3) { Some(r.below(4) as u32) } else { None };
                let was_waiting = g.get_wait_start(tx).is_some();
                let before = real.image();
                let res = real.lm.try_lock_with_wait_tracking(tx, &keys, &g, prio);
                let wnow = if was_waiting { now_ms() } else { g.get_wait_start(tx).unwrap_or_else(now_ms) };
                let line = format!("lockw {now} {} {tx} {} {}", wnow.saturating_sub(base), commas(&ks), prio.map_or("-".to_string(), |x| x.to_string()));
                match res {
                    Ok(h) => {
                        let hm = real.h_to_model(h);
                        handles_of.entry(tx).or_default().push(hm);
                        rep.hit("tg.lockw.grant");
                        nontrivial = true;
                        (format!("ok {hm}"), line)
                    }
                    Err(w) => {
                        rep.hit("tg.lockw.conflict");
                        let ck: Vec<u64> = w.conflicting_keys.iter().map(|k| kid(k)).collect();
                        // oracle: the named blocker holds a live lock on a conflicting key
                        if !before.locks.iter().any(|l| l.tx == w.blocking_tx_id && ck.contains(&l.k) && !Image::expired(l, now)) {
                            rep.violation("LockManager.try_lock_with_wait_tracking/spurious_conflict", "named blocker holds no live lock on a conflicting key", json!({"trace": trace, "line": line}));
                        }
                        (format!("conflict {}", commas(&ck)), line)
                    }
                }
            }
            55..=74 => {
                // the transaction ends (commit/abort/timeout): what every end-of-transaction site of the
                // coordinator does since /repo db804a9a — release each recorded handle with wait cleanup,
                // then remove the transaction from the wait-for graph unconditionally (model op `endtx`)
                let tx = *r.pick(&live);
                ended.insert(tx);
                rep.hit("tg.end_tx");
                let hs = handles_of.get(&tx).cloned().unwrap_or_default();
                if hs.is_empty() { rep.hit("tg.end_tx.no_handle"); }
                let before_view = view(&g);
                for h in &hs {
                    real.lm.release_by_handle_with_wait_cleanup(real.h_to_real(*h), &g);
                }
                // what the PRE-FIX sequence would have left behind at this point (counted; the old
                // sequence is `endtxold` in the model, compared in `old_sequence_regression`)
                if let Some(v) = view(&g) {
                    if v.edges.iter().any(|(k, vs)| (*k == tx && !vs.is_empty()) || vs.contains(&tx)) {
                        rep.hit("tg.end_tx.handle_loop_alone_leaves_tx_in_graph");
                    }
                }
                g.remove_transaction(tx);
                let line = format!("endtx {tx} {}", commas(&hs));
                trace.push(line.clone());
                let img = real.image();
                let Some(v) = view(&g) else { return; };
                let imp = format!("ok | {} | {}", img.show(), graph_img(&v, base));
                let mo = m.ask(&line);
                if !rep.compare(stream, || json!({"trace": trace}), &imp, &mo) { return; }
                // oracle (the property): an ended transaction holds nothing under its handles and is absent
                // from the wait graph, on both sides and in both indexes
                if img.locks.iter().any(|l| hs.contains(&l.h)) {
                    rep.violation("LockManager.release_by_handle_with_wait_cleanup/locks_remain", "a lock carrying a released handle of the ended transaction remains", json!({"tx": tx, "trace": trace}));
                }
                let in_graph = v.edges.iter().any(|(k, vs)| *k == tx || vs.contains(&tx)) || v.reverse.iter().any(|(k, vs)| *k == tx || vs.contains(&tx))
                    || v.ws.iter().any(|x| x.0 == tx) || v.pr.iter().any(|x| x.0 == tx);
                if in_graph {
                    rep.violation("WaitForGraph.remove_transaction/ended_tx_stays_in_wait_graph",
                        "after the end-of-transaction sequence (handle loop + remove_transaction) the transaction still appears in the wait-for graph",
                        json!({"tx": tx, "handles": hs, "trace": trace, "graph": graph_img(&v, base)}));
                }
                if let Some(bv) = before_view {
                    if bv.edges.iter().any(|(k, vs)| *k == tx || vs.contains(&tx)) { rep.hit("tg.end_tx.was_in_graph"); nontrivial = true; }
                }
                continue;
            }
            75..=84 => {
                let before = real.image();
                let n = real.lm.cleanup_expired_with_wait_cleanup(&g);
                rep.hit(if n > 0 { "tg.cleanw.removed" } else { "tg.cleanw.none" });
                // oracle on the real objects, BEFORE the comparison with the model (a disagreement ends the case)
                let after = real.image();
                if let Some(v) = view(&g) {
                    let cycles: Vec<(Vec<u64>, Option<u64>)> = g.detect_cycles().into_iter().map(|c| (c, None)).collect();
                    let mut t2 = trace.clone();
                    t2.push(format!("cleanw {now}"));
                    sweep_oracle(rep, &before, &after, now, &v, &cycles, &|| json!({"stream": stream, "timeout_ticks": to, "trace": t2}));
                }
                (n.to_string(), format!("cleanw {now}"))
            }
            _ => {
                let d = r.below(4);
                real.advance(d);
                rep.hit("tg.advance");
                continue;
            }
        };
        trace.push(line.clone());
        let img = real.image();
        let Some(v) = view(&g) else { rep.disagree(stream, json!({"trace": trace}), "unparseable Debug", ""); return; };
        let imp_line = format!("{imp} | {} | {}", img.show(), graph_img(&v, base));
        let mo = m.ask(&line);
        if !rep.compare(stream, || json!({"trace": trace}), &imp_line, &mo) { return; }
    }
    let key = trace.join(";");
    rep.case(stream, if nontrivial { Some(&key) } else { None });
}

// ------------------------------------------------------------------ the expired-lock sweep and the wait-for graph
//
// "When a transaction times out, none of its locks remain and it no longer appears as waiter or holder in the
// wait-for graph": the time-out of a lock is realised by `cleanup_expired_with_wait_cleanup` (run by
// `cleanup_timeouts` and `recover`).  The oracle is stated on the real objects only: every transaction that owned
// an expired row before the sweep and owns no row of the lock table after it is absent from the wait-for graph (both
// indexes, wait-start, priority), and no reported cycle passes through such a transaction.  The grant path matters:
// a take-over of a lapsed key overwrites the row but leaves the key in the old owner's `tx_locks` entry, so the
// per-transaction index is NOT a faithful "still holds something" test.

/// returns the number of violations it filed
fn sweep_oracle(rep: &mut Report, before: &Image, after: &Image, now: u64, v: &GraphView, cycles: &[(Vec<u64>, Option<u64>)], input: &dyn Fn() -> serde_json::Value) -> u64 {
    let swept: BTreeSet<u64> = before.locks.iter().filter(|l| Image::expired(l, now)).map(|l| l.tx).collect();
    let holds = |tx: u64| after.locks.iter().any(|l| l.tx == tx);
    let appears = |tx: u64| {
        v.edges.iter().any(|(k, vs)| *k == tx || vs.contains(&tx)) || v.reverse.iter().any(|(k, vs)| *k == tx || vs.contains(&tx))
            || v.ws.iter().any(|x| x.0 == tx) || v.pr.iter().any(|x| x.0 == tx)
    };
    let mut bad = 0;
    for &tx in &swept {
        if holds(tx) {
            rep.hit("tg.sweep.swept_tx_keeps_a_live_lock");
            continue;
        }
        rep.hit("tg.sweep.swept_tx_holds_nothing");
        let taken_over = before.txl.iter().any(|(t, ks)| *t == tx && ks.iter().any(|k| before.locks.iter().any(|l| l.k == *k && l.tx != tx)));
        if taken_over { rep.hit("tg.sweep.swept_tx_had_a_key_taken_over"); }
        if appears(tx) {
            bad += 1;
            let mut i = input();
            i["swept_tx"] = json!(tx);
            i["locks_after"] = json!(after.show());
            i["graph_after"] = json!(graph_img(v, 0));
            rep.violation("tensor_chain.deadlock/transaction_without_locks_in_wait_graph",
                "after the expired-lock sweep a swept transaction holds no lock in the lock table but still appears in the wait-for graph", i);
        }
    }
    for (c, victim) in cycles {
        if let Some(&tx) = c.iter().find(|t| swept.contains(t) && !holds(**t)) {
            bad += 1;
            let mut i = input();
            i["swept_tx"] = json!(tx);
            i["cycle"] = json!(c);
            i["victim"] = json!(victim);
            i["locks_after"] = json!(after.show());
            rep.violation("tensor_chain.deadlock/phantom_cycle",
                "after the expired-lock sweep the detector reports a cycle through a swept transaction that holds no lock", i);
        }
    }
    // NOT part of the oracle (counted): a holder of the graph that owns no row and was not swept — what a take-over
    // of ALL lapsed keys of a transaction leaves until its waiters retry or end
    let holders: BTreeSet<u64> = v.edges.iter().flat_map(|(_, vs)| vs.iter().copied()).collect();
    if holders.iter().any(|h| !holds(*h) && !swept.contains(h)) { rep.hit("tg.sweep.unswept_lockless_holder_in_graph"); }
    bad
}

#[derive(Clone, Debug)]
enum SwOp {
    Lock(u64, Vec<u64>),
    Adv(u64),
    Sweep,
    Restore,
}
fn sw_text(op: &SwOp) -> String {
    match op {
        SwOp::Lock(tx, ks) => format!("lockw tx={tx} keys={}", commas(ks)),
        SwOp::Adv(d) => format!("advance {d}ms"),
        SwOp::Sweep => "cleanup_expired_with_wait_cleanup".into(),
        SwOp::Restore => "serialize+restore".into(),
    }
}

/// One history of try_lock_with_wait_tracking / clock advance / sweep / serialize-restore on a real LockManager and
/// the graph of a real DeadlockDetector under the frozen millisecond clock; model compared after every op until the
/// first disagreement, the oracle runs after every sweep regardless.  Returns (correspondence held, violations filed).
fn run_sweep_case(m: &mut Model, rep: &mut Report, stream: &str, to: u64, ops: &[SwOp], record: bool) -> (bool, u64) {
    let mut real = RealTable::new_hooked(to);
    let det = DeadlockDetector::new(DeadlockDetectorConfig::default());
    let g = det.graph();
    if m.ask(&format!("reset {to} 0")) != "ok" { rep.disagree(stream, json!({}), "ok", "reset refused"); return (false, 0); }
    let mut corr = true;
    let mut bad = 0u64;
    let mut trace: Vec<String> = Vec::new();
    let mut nontrivial = false;
    let texts: Vec<String> = ops.iter().map(sw_text).collect();
    for op in ops {
        let now = real.vnow;
        let (imp, line, with_graph) = match op {
            SwOp::Adv(d) => { real.advance(*d); if record { rep.hit("tg.sweep.advance"); } continue; }
            SwOp::Lock(tx, ks) => {
                let keys: Vec<String> = ks.iter().map(|k| kname(*k)).collect();
                let before = real.image();
                let res = real.lm.try_lock_with_wait_tracking(*tx, &keys, g, None);
                let line = format!("lockw {now} {now} {tx} {} -", commas(ks));
                match res {
                    Ok(h) => {
                        let hm = real.h_to_model(h);
                        if record {
                            rep.hit("tg.sweep.lock.grant");
                            if ks.len() >= 2 { rep.hit("tg.sweep.lock.grant_multi_key"); }
                            if before.locks.iter().any(|l| ks.contains(&l.k) && l.tx != *tx) {
                                rep.hit("tg.sweep.lock.takeover_of_lapsed_key");
                                // partial: the old owner keeps another lapsed, unswept row
                                if before.locks.iter().any(|l| ks.contains(&l.k) && l.tx != *tx && before.locks.iter().any(|o| o.tx == l.tx && !ks.contains(&o.k) && Image::expired(o, now))) {
                                    rep.hit("tg.sweep.lock.partial_takeover");
                                }
                            }
                        }
                        (format!("ok {hm}"), line, true)
                    }
                    Err(w) => {
                        if record { rep.hit("tg.sweep.lock.conflict"); }
                        let ck: Vec<u64> = w.conflicting_keys.iter().map(|k| kid(k)).collect();
                        (format!("conflict {}", commas(&ck)), line, true)
                    }
                }
            }
            SwOp::Restore => {
                if let Err(e) = real.serialize_restore() { rep.disagree(stream, json!({"ops": texts}), &e, ""); return (false, bad); }
                if record { rep.hit("tg.sweep.serialize_restore"); }
                ("ok".to_string(), "sr".to_string(), false)
            }
            SwOp::Sweep => {
                let before = real.image();
                let n = real.lm.cleanup_expired_with_wait_cleanup(g);
                if record { rep.hit(if n > 0 { "tg.sweep.removed" } else { "tg.sweep.none" }); }
                if n > 0 { nontrivial = true; }
                let after = real.image();
                let Some(v) = view(g) else { rep.disagree(stream, json!({"ops": texts}), "unparseable Debug", ""); return (false, bad); };
                let cycles: Vec<(Vec<u64>, Option<u64>)> = det.detect().into_iter().map(|d| (d.cycle, Some(d.victim_tx_id))).collect();
                let upto = trace.len() + 1;
                bad += sweep_oracle(rep, &before, &after, now, &v, &cycles, &|| json!({"stream": stream, "timeout_ms": to, "ops": texts, "violated_after_sweep_no": upto}));
                (n.to_string(), format!("cleanw {now}"), true)
            }
        };
        trace.push(line.clone());
        if !corr { continue; }
        let img = real.image();
        let Some(v) = view(g) else { rep.disagree(stream, json!({"ops": texts}), "unparseable Debug", ""); return (false, bad); };
        let imp_line = if with_graph { format!("{imp} | {} | {}", img.show(), graph_img(&v, 0)) } else { format!("{imp} | {}", img.show()) };
        let mo = m.ask(&line);
        if record {
            if !rep.compare(stream, || json!({"timeout_ms": to, "ops": texts, "trace": trace}), &imp_line, &mo) { corr = false; }
        } else if imp_line != mo {
            corr = false;
        }
    }
    if record {
        let key = format!("{to}|{}", texts.join(";"));
        rep.case(stream, if nontrivial { Some(&key) } else { None });
    }
    (corr, bad)
}

/// The minimal history in which the sweep has to clear a transaction whose per-transaction index is not empty
/// (A holds two keys, C refused on one and waiting for A, A's locks lapse unswept, B takes ONE of them over, sweep),
/// and its neighbours: no take-over, take-over of the other key, of all keys, three keys, A also a waiter (so that
/// a stale A closes a cycle), the same through serialize/restore, two sweeps, a sweep at the exact expiry boundary.
fn directed_sweep_cases() -> Vec<(&'static str, u64, Vec<SwOp>)> {
    use SwOp::*;
    vec![
        ("partial_takeover", 3, vec![Lock(1, vec![0, 1]), Lock(3, vec![1]), Adv(4), Lock(2, vec![0]), Sweep]),
        ("partial_takeover_waiter_on_taken_key", 3, vec![Lock(1, vec![0, 1]), Lock(3, vec![0]), Adv(4), Lock(2, vec![0]), Sweep]),
        ("partial_takeover_other_key", 3, vec![Lock(1, vec![0, 1]), Lock(3, vec![1]), Adv(4), Lock(2, vec![1]), Sweep]),
        ("no_takeover", 3, vec![Lock(1, vec![0, 1]), Lock(3, vec![1]), Adv(4), Sweep]),
        ("full_takeover", 3, vec![Lock(1, vec![0, 1]), Lock(3, vec![1]), Adv(4), Lock(2, vec![0, 1]), Sweep]),
        ("full_takeover_by_two", 3, vec![Lock(1, vec![0, 1]), Lock(3, vec![1]), Adv(4), Lock(2, vec![0]), Lock(4, vec![1]), Sweep]),
        ("three_keys_one_taken", 3, vec![Lock(1, vec![0, 1, 2]), Lock(3, vec![2]), Adv(4), Lock(2, vec![1]), Sweep]),
        ("three_keys_two_taken", 3, vec![Lock(1, vec![0, 1, 2]), Lock(3, vec![2, 0]), Adv(4), Lock(2, vec![0, 1]), Sweep]),
        ("two_grants_one_taken", 3, vec![Lock(1, vec![0]), Lock(1, vec![1]), Lock(3, vec![1]), Adv(4), Lock(2, vec![0]), Sweep]),
        ("holder_is_also_waiter_cycle", 3, vec![Lock(1, vec![0, 1]), Adv(2), Lock(3, vec![2]), Lock(1, vec![2]), Lock(3, vec![1]), Adv(2), Lock(2, vec![0]), Sweep]),
        ("holder_is_also_waiter_no_takeover", 3, vec![Lock(1, vec![0, 1]), Adv(2), Lock(3, vec![2]), Lock(1, vec![2]), Lock(3, vec![1]), Adv(2), Sweep]),
        ("partial_takeover_restored", 3, vec![Lock(1, vec![0, 1]), Lock(3, vec![1]), Adv(4), Lock(2, vec![0]), Restore, Sweep]),
        ("partial_takeover_two_sweeps", 3, vec![Lock(1, vec![0, 1]), Lock(3, vec![1]), Adv(4), Lock(2, vec![0]), Sweep, Adv(4), Sweep]),
        ("boundary_elapsed_eq_timeout", 3, vec![Lock(1, vec![0, 1]), Lock(3, vec![1]), Adv(3), Lock(2, vec![0]), Sweep, Adv(1), Lock(2, vec![0]), Sweep]),
        ("partial_expiry_live_key_kept", 3, vec![Lock(1, vec![0]), Adv(2), Lock(1, vec![1]), Lock(3, vec![1]), Adv(2), Sweep]),
        ("timeout_zero", 0, vec![Lock(1, vec![0, 1]), Lock(3, vec![1]), Adv(1), Lock(2, vec![0]), Sweep]),
    ]
}

/// random histories of the same SHAPE: rounds of {a multi-key grant, refused prepares that record waits, the clock
/// moving past (or exactly to) the expiry, single-key prepares that take over some of the lapsed keys, sweep}
fn gen_sweep_ops(r: &mut Rng) -> (u64, Vec<SwOp>) {
    let to = *r.pick(&[0u64, 1, 2, 3, 3]);
    let ntx = 3 + r.below(3);
    let nkeys = 2 + r.below(3);
    let subset = |r: &mut Rng, min: u64, max: u64| -> Vec<u64> {
        let mut all: Vec<u64> = (0..nkeys).collect();
        r.shuffle(&mut all);
        let n = (min + r.below(max - min + 1)).min(nkeys) as usize;
        all.truncate(n.max(1));
        all
    };
    let mut ops = Vec::new();
    for _ in 0..1 + r.below(3) {
        // a holder of several keys
        ops.push(SwOp::Lock(1 + r.below(ntx), subset(r, 2, 3)));
        if r.chance(1, 3) { ops.push(SwOp::Adv(r.below(3))); }
        // prepares of others: refused ones record waits; a lock of the holder-to-be on a foreign key makes it a waiter
        for _ in 0..1 + r.below(3) {
            ops.push(SwOp::Lock(1 + r.below(ntx), subset(r, 1, 2)));
        }
        // the locks lapse (sometimes only to the boundary, sometimes not at all)
        ops.push(SwOp::Adv(match r.below(6) { 0 => to, 1 => r.below(to + 1), _ => to + 1 + r.below(2) }));
        // partial take-over before the sweep
        for _ in 0..r.below(3) {
            ops.push(SwOp::Lock(1 + r.below(ntx), subset(r, 1, 1)));
        }
        if r.chance(1, 6) { ops.push(SwOp::Restore); }
        ops.push(SwOp::Sweep);
        if r.chance(1, 4) { ops.push(SwOp::Lock(1 + r.below(ntx), subset(r, 1, 2))); }
    }
    (to, ops)
}

fn sweep_streams(m: &mut Model, rep: &mut Report, root: &Rng, scale: u64) {
    for (name, to, ops) in directed_sweep_cases() {
        let (corr, bad) = run_sweep_case(m, rep, "table+graph.sweep.directed", to, &ops, true);
        rep.hit(&format!("tg.sweep.directed.{name}.{}", if bad > 0 { "violated" } else if corr { "ok" } else { "disagreed" }));
    }
    let mut r = root.fork("table+graph.sweep");
    let mut shrunk = false;
    let mut failed = 0;
    for _ in 0..1500 * scale {
        let (to, ops) = gen_sweep_ops(&mut r);
        let nv = rep.violations.len();
        let (corr, bad) = run_sweep_case(m, rep, "table+graph.sweep", to, &ops, true);
        if bad > 0 && !shrunk {
            shrunk = true;
            let mut scratch = Report::new("shrink");
            let small = shrink_list(&ops, &mut |cand: &[SwOp]| run_sweep_case(m, &mut scratch, "shrink", to, cand, false).1 > 0);
            let small_text: Vec<String> = small.iter().map(sw_text).collect();
            rep.sample(json!({"stream": "table+graph.sweep", "shrunk_violation": small_text, "timeout_ms": to}));
            // the failing input kept for the replay is the shrunk history
            for v in rep.violations.iter_mut().skip(nv) {
                v["input"]["shrunk_ops"] = json!(small_text);
            }
        }
        if !corr || bad > 0 { failed += 1; if failed >= 40 { break; } }
        if rep.samples.len() < 10 && r.chance(1, 400) {
            rep.sample(json!({"stream": "table+graph.sweep", "timeout_ms": to, "ops": ops.iter().map(sw_text).collect::<Vec<_>>()}));
        }
    }
}

/// The PRE-FIX end-of-transaction sequence (handle loop only) replayed on the real LockManager +
/// WaitForGraph primitives (which the fix did not touch) against the model op `endtxold`: both leave the
/// ended transaction in the graph on the two witness inputs of `ended_tx_absent_from_graph_witness`; the
/// current sequence (`endtx`) removes it.  Frozen clock, so the expiry take-over is exact.
fn old_sequence_regression(m: &mut Model, rep: &mut Report) {
    let stream = "table+graph.old_sequence";
    for scenario in ["waiter_without_handle", "holder_taken_over"] {
        for fixed in [false, true] {
            let mut real = RealTable::new_hooked(3);
            let g = WaitForGraph::new();
            if m.ask("reset 3 0") != "ok" { return; }
            let mut script: Vec<String> = Vec::new();
            let lockw = |real: &mut RealTable, m: &mut Model, rep: &mut Report, tx: u64, script: &mut Vec<String>| -> bool {
                let now = real.vnow;
                let res = real.lm.try_lock_with_wait_tracking(tx, &[kname(7)], &g, None);
                let a = match res { Ok(h) => format!("ok {}", real.h_to_model(h)), Err(w) => format!("conflict {}", commas(&w.conflicting_keys.iter().map(|k| kid(k)).collect::<Vec<_>>())) };
                let Some(v) = view(&g) else { return false; };
                let line = format!("lockw {now} {now} {tx} 7 -");
                script.push(line.clone());
                let mo = m.ask(&line);
                rep.compare(stream, || json!({"script": script}), &format!("{a} | {} | {}", real.image().show(), graph_img(&v, 0)), &mo)
            };
            let (ended, handles): (u64, Vec<u64>) = if scenario == "waiter_without_handle" {
                if !lockw(&mut real, m, rep, 1, &mut script) || !lockw(&mut real, m, rep, 2, &mut script) { return; }
                (2, vec![])
            } else {
                if !lockw(&mut real, m, rep, 1, &mut script) || !lockw(&mut real, m, rep, 3, &mut script) { return; }
                real.advance(10);
                if !lockw(&mut real, m, rep, 2, &mut script) { return; }
                (1, vec![0])
            };
            for h in &handles {
                real.lm.release_by_handle_with_wait_cleanup(real.h_to_real(*h), &g);
            }
            if fixed { g.remove_transaction(ended); }
            let line = format!("{} {ended} {}", if fixed { "endtx" } else { "endtxold" }, commas(&handles));
            script.push(line.clone());
            let Some(v) = view(&g) else { return; };
            let mo = m.ask(&line);
            rep.case(stream, Some(&format!("{scenario}/{fixed}")));
            rep.compare(stream, || json!({"script": script}), &format!("ok | {} | {}", real.image().show(), graph_img(&v, 0)), &mo);
            let left = v.edges.iter().any(|(k, vs)| *k == ended || vs.contains(&ended));
            rep.hit(&format!("tg.old_sequence.{scenario}.{}.{}", if fixed { "current" } else { "prefix" }, if left { "tx_left_in_graph" } else { "tx_absent" }));
            if fixed && left {
                rep.violation("WaitForGraph.remove_transaction/ended_tx_stays_in_wait_graph", "directed: the current end-of-transaction sequence left the transaction in the graph", json!({"script": script}));
            }
        }
    }
}

/// WaitForGraph operations are NOT single critical sections (edges / reverse_edges / wait_started /
/// priorities are four RwLocks taken one after the other).  OS threads run add_wait / remove_transaction /
/// remove_wait on one graph; at quiescence the reverse index is compared with the transpose of the edges.
/// In the coordinator every add_wait runs inside the lock-table critical section and a transaction's own
/// operations are ordered, which this free-for-all does not respect: divergences found here are reported
/// as observations (outside the property's quantifier), with their count in the distribution.
fn graph_thread_hammer(rep: &mut Report, seed_rng: &Rng, threads: usize, rounds: usize) {
    let mut diverged = 0u64;
    let mut first: Option<serde_json::Value> = None;
    for round in 0..rounds {
        let g = Arc::new(WaitForGraph::new());
        let mut hs = Vec::new();
        for t in 0..threads {
            let g = g.clone();
            let mut r = seed_rng.fork(&format!("g{round}.{t}"));
            hs.push(std::thread::spawn(move || {
                for _ in 0..3000 {
                    let (a, b) = (1 + r.below(3), 1 + r.below(3));
                    match r.below(10) {
                        0..=4 => g.add_wait(a, b, None),
                        5..=7 => g.remove_transaction(a),
                        _ => g.remove_wait(a, b),
                    }
                }
            }));
        }
        for h in hs { let _ = h.join(); }
        let Some(v) = view(&g) else { continue; };
        let fwd: BTreeSet<(u64, u64)> = v.edges.iter().flat_map(|(k, vs)| vs.iter().map(move |x| (*k, *x))).collect();
        let rev: BTreeSet<(u64, u64)> = v.reverse.iter().flat_map(|(k, vs)| vs.iter().map(move |x| (*x, *k))).collect();
        rep.case("threads.graph_hammer", None);
        if fwd != rev {
            diverged += 1;
            if first.is_none() {
                first = Some(json!({"threads": threads, "round": round, "edges_not_in_reverse": fwd.difference(&rev).collect::<Vec<_>>(), "reverse_not_in_edges": rev.difference(&fwd).collect::<Vec<_>>()}));
            }
        }
    }
    rep.hit_n("threads.graph_hammer.rounds", rounds as u64);
    rep.hit_n("threads.graph_hammer.reverse_index_diverged_at_quiescence", diverged);
    if let Some(f) = first {
        rep.observe(json!({"what": "unordered concurrent add_wait/remove_transaction/remove_wait on one WaitForGraph (not the coordinator's usage): reverse_edges != transpose(edges) at quiescence", "rounds_diverged": diverged, "of": rounds, "first": f}));
    }
}

/// Two threads released by a spin barrier run exactly one graph operation each from a known state, many
/// rounds per pair: the narrowest races of the non-atomic WaitForGraph operations.  Outcome classes per
/// pair are counted; a reverse index that is not the transpose of the edges AFTER both operations returned
/// is something no sequential order of the two operations can produce (theorem
/// wait_graph_transpose_invariant) — reported as an observation: the coordinator never issues these pairs
/// concurrently (add_wait only inside the lock-table critical section; a transaction's own calls ordered).
fn graph_pair_race(rep: &mut Report, rounds: usize) {
    use std::sync::atomic::AtomicBool;
    type GOp = fn(&WaitForGraph);
    let pairs: [(&str, GOp, GOp, GOp); 4] = [
        ("add_wait(1,2)|remove_wait(1,2)", |_| {}, |g| g.add_wait(1, 2, None), |g| g.remove_wait(1, 2)),
        ("add_wait(1,2)|remove_transaction(1)", |_| {}, |g| g.add_wait(1, 2, None), |g| g.remove_transaction(1)),
        ("add_wait(1,2)|remove_transaction(2)", |_| {}, |g| g.add_wait(1, 2, None), |g| g.remove_transaction(2)),
        ("remove_transaction(1)|remove_transaction(2) from 1->2,3->1,3->2", |g| { g.add_wait(1, 2, None); g.add_wait(3, 1, None); g.add_wait(3, 2, None); }, |g| g.remove_transaction(1), |g| g.remove_transaction(2)),
    ];
    for (name, setup, op_a, op_b) in pairs {
        let g = Arc::new(WaitForGraph::new());
        let gen = Arc::new(AtomicUsize::new(0));
        let done = Arc::new(AtomicUsize::new(0));
        let stop = Arc::new(AtomicBool::new(false));
        let mut hs = Vec::new();
        for op in [op_a, op_b] {
            let (g, gen, done, stop) = (g.clone(), gen.clone(), done.clone(), stop.clone());
            hs.push(std::thread::spawn(move || {
                let mut seen = 0;
                loop {
                    while gen.load(Ordering::Acquire) == seen {
                        if stop.load(Ordering::Acquire) { return; }
                        std::hint::spin_loop();
                    }
                    seen += 1;
                    op(&g);
                    done.fetch_add(1, Ordering::AcqRel);
                }
            }));
        }
        let mut outcomes: BTreeMap<String, u64> = BTreeMap::new();
        let mut diverged = 0u64;
        for round in 0..rounds {
            g.clear();
            setup(&g);
            gen.fetch_add(1, Ordering::AcqRel);
            while done.load(Ordering::Acquire) < 2 * (round + 1) { std::hint::spin_loop(); }
            let Some(v) = view(&g) else { continue; };
            let fwd: BTreeSet<(u64, u64)> = v.edges.iter().flat_map(|(k, vs)| vs.iter().map(move |x| (*k, *x))).collect();
            let rev: BTreeSet<(u64, u64)> = v.reverse.iter().flat_map(|(k, vs)| vs.iter().map(move |x| (*x, *k))).collect();
            if fwd != rev { diverged += 1; }
            *outcomes.entry(format!("edges{:?} reverse{:?}", fwd, rev)).or_insert(0) += 1;
        }
        stop.store(true, Ordering::Release);
        for h in hs { let _ = h.join(); }
        rep.case("threads.graph_pair_race", None);
        rep.hit_n("threads.graph_pair_race.rounds", rounds as u64);
        rep.hit_n("threads.graph_pair_race.reverse_index_diverged", diverged);
        rep.observe(json!({"graph_pair_race": name, "rounds": rounds, "final_states": outcomes, "transpose_broken_after_both_returned": diverged}));
    }
}

// ------------------------------------------------------------------ real threads + exclusivity monitor (oracle only)

fn thread_hammer(rep: &mut Report, seed_rng: &Rng, threads: usize, iters: usize, nkeys: usize) {
    let lm = Arc::new(LockManager::with_default_timeout(Duration::from_secs(3600)));
    let owners: Arc<Vec<AtomicU64>> = Arc::new((0..nkeys).map(|_| AtomicU64::new(0)).collect());
    let bad = Arc::new(AtomicUsize::new(0));
    let grants = Arc::new(AtomicUsize::new(0));
    let conflicts = Arc::new(AtomicUsize::new(0));
    let mut hs = Vec::new();
    for t in 0..threads {
        let (lm, owners, bad, grants, conflicts) = (lm.clone(), owners.clone(), bad.clone(), grants.clone(), conflicts.clone());
        let mut r = seed_rng.fork(&format!("thread{t}"));
        hs.push(std::thread::spawn(move || {
            for i in 0..iters {
                let tx = (t as u64 + 1) * 1_000_000 + i as u64; // fresh transaction per attempt
                let mut ks: Vec<usize> = (0..1 + r.below(3)).map(|_| r.below(nkeys as u64) as usize).collect();
                ks.sort();
                ks.dedup();
                let keys: Vec<String> = ks.iter().map(|k| kname(*k as u64)).collect();
                match lm.try_lock(tx, &keys) {
                    Ok(h) => {
                        grants.fetch_add(1, Ordering::Relaxed);
                        for k in &ks {
                            if owners[*k].compare_exchange(0, tx, Ordering::SeqCst, Ordering::SeqCst).is_err() {
                                bad.fetch_add(1, Ordering::SeqCst);
                            }
                        }
                        for _ in 0..r.below(40) { std::hint::spin_loop(); }
                        if r.chance(1, 8) { std::thread::yield_now(); }
                        for k in &ks {
                            if lm.lock_holder(&keys[ks.iter().position(|x| x == k).unwrap()]) != Some(tx) {
                                bad.fetch_add(1, Ordering::SeqCst);
                            }
                            owners[*k].store(0, Ordering::SeqCst);
                        }
                        match r.below(3) {
                            0 => lm.release(tx),
                            1 => lm.release_by_handle(h),
                            _ => { lm.release_by_handle(h); lm.release(tx); }
                        }
                    }
                    Err(_) => { conflicts.fetch_add(1, Ordering::Relaxed); }
                }
            }
        }));
    }
    for h in hs { let _ = h.join(); }
    let left = lm.active_lock_count();
    let key = format!("threads={threads} iters={iters} keys={nkeys}");
    rep.case("threads.hammer", if grants.load(Ordering::Relaxed) > 0 && conflicts.load(Ordering::Relaxed) > 0 { Some(&key) } else { None });
    rep.hit_n("threads.grants", grants.load(Ordering::Relaxed) as u64);
    rep.hit_n("threads.conflicts", conflicts.load(Ordering::Relaxed) as u64);
    if bad.load(Ordering::SeqCst) > 0 {
        rep.violation("LockManager.try_lock/two_unexpired_holders_threads", "two threads were granted the same key at the same time", json!({"threads": threads, "iters": iters, "keys": nkeys, "count": bad.load(Ordering::SeqCst)}));
    }
    if left != 0 {
        rep.violation("LockManager.release/locks_remain_threads", "locks left behind after every transaction released", json!({"threads": threads, "left": left}));
    }
}

// ------------------------------------------------------------------ the real coordinator: ended transactions vs its wait-for graph

fn prep(tx: u64, keys: &[u64], axis: usize) -> PrepareRequest {
    let mut e = vec![0.0f32; 8];
    e[axis % 8] = 1.0;
    PrepareRequest {
        tx_id: tx,
        coordinator: "n1".to_string(),
        operations: keys.iter().map(|k| Transaction::Put { key: kname(*k), data: vec![1] }).collect(),
        delta_embedding: SparseVector::from_dense(&e),
        timeout_ms: 5000,
    }
}
fn in_wait_graph(c: &DistributedTxCoordinator, tx: u64, universe: &[u64]) -> bool {
    let g = c.wait_graph();
    !g.waiting_for(tx).is_empty() || !g.waiting_on(tx).is_empty() || universe.iter().any(|o| g.waiting_for(*o).contains(&tx) || g.waiting_on(*o).contains(&tx))
}

/// Directed + random scenarios on `DistributedTxCoordinator`: after abort / commit the transaction must hold
/// no lock and must not appear in the coordinator's wait-for graph (property C12, second sentence).
fn coordinator_scenarios(rep: &mut Report, r: &mut Rng, random_cases: u64) {
    let stream = "coord.end_of_tx";
    // --- A (regression of db804a9a, first form): a prepare refused with a lock conflict registers the waiter;
    //     the abort that follows has no handle to release and must still remove it
    {
        let c = DistributedTxCoordinator::with_consensus(ConsensusManager::new(ConsensusConfig::default()));
        let t1 = c.begin(&"n1".to_string(), &[0]).map(|t| t.tx_id);
        let t2 = c.begin(&"n1".to_string(), &[0]).map(|t| t.tx_id);
        if let (Ok(t1), Ok(t2)) = (t1, t2) {
            let v1 = c.handle_prepare(&prep(t1, &[1], 0));
            let _ = c.record_vote(t1, 0, v1.clone());
            let v2 = c.handle_prepare(&prep(t2, &[1], 1));
            let was_waiting = !c.wait_graph().waiting_for(t2).is_empty();
            let _ = c.record_vote(t2, 0, v2.clone());
            let ab = c.abort(t2, "conflict");
            rep.hit("coord.A.run");
            if matches!(v1, PrepareVote::Yes { .. }) && matches!(v2, PrepareVote::Conflict { .. }) && ab.is_ok() {
                if was_waiting { rep.hit("coord.A.waiter_registered"); }
                if c.lock_manager().lock_count_for_transaction(t2) != 0 {
                    rep.violation("DistributedTxCoordinator.abort/locks_remain", "aborted transaction still holds locks", json!({"scenario": "A"}));
                }
                if in_wait_graph(&c, t2, &[t1, t2]) {
                    rep.violation(
                        "DistributedTxCoordinator.abort/ended_waiter_stays_in_wait_graph",
                        "a transaction whose prepare was refused with a lock conflict (so it has no lock handle) is still a waiter in the coordinator's wait-for graph after abort()",
                        json!({"scenario": "begin t1,t2 (one shard each); handle_prepare(t1,[k1])=Yes; record_vote; handle_prepare(t2,[k1])=Conflict; record_vote(t2)=Aborting; abort(t2)",
                               "wait_graph_after": {"waiting_for_t2": c.wait_graph().waiting_for(t2).len(), "waiting_on_t1": c.wait_graph().waiting_on(t1).len()}}),
                    );
                }
            }
            rep.case(stream, Some("A"));
        }
    }
    // --- B (regression of db804a9a, second form): a holder whose lock expired and was taken over must still
    //     leave the graph at commit.  Frozen clock: lock timeout 40 ms, conflict AT elapsed == 40, take-over at 41.
    {
        let store = TensorStore::new();
        let state = CoordinatorState { pending: HashMap::new(), lock_state: SerializableLockState::new(HashMap::new(), HashMap::new(), 40) };
        let mut data = TensorData::new();
        data.set("state", TensorValue::Scalar(ScalarValue::Bytes(bitcode::serialize(&state).unwrap_or_default())));
        let _ = store.put("_dtx:coordinator:n1:state".to_string(), data);
        if let Ok(c) = DistributedTxCoordinator::load_from_store("n1", &store, ConsensusManager::new(ConsensusConfig::default()), DistributedTxConfig::default()) {
            let ids: Vec<u64> = (0..4).filter_map(|_| c.begin(&"n1".to_string(), &[0]).ok().map(|t| t.tx_id)).collect();
            if ids.len() == 4 && c.lock_manager().default_timeout == Duration::from_millis(40) {
                let (t1, t3, t2, t4) = (ids[0], ids[1], ids[2], ids[3]);
                let base = now_ms();
                verif_clock::set_now_ms(Some(base));
                let v1 = c.handle_prepare(&prep(t1, &[1], 0));
                let ph = c.record_vote(t1, 0, v1.clone());
                let v3 = c.handle_prepare(&prep(t3, &[1], 1)); // refused: t3 waits for t1
                verif_clock::set_now_ms(Some(base + 40)); // elapsed == timeout: NOT expired
                let v4 = c.handle_prepare(&prep(t4, &[1], 3));
                rep.hit(if matches!(v4, PrepareVote::Conflict { .. }) { "coord.B.elapsed_eq_timeout.conflict" } else { "coord.B.elapsed_eq_timeout.granted" });
                if !matches!(v4, PrepareVote::Conflict { .. }) {
                    rep.violation("KeyLock.is_expired/boundary", "coordinator: a prepare at elapsed == timeout was not refused", json!({"scenario": "B", "vote": format!("{v4:?}")}));
                }
                verif_clock::set_now_ms(Some(base + 41)); // t1's lock is expired now
                let v2 = c.handle_prepare(&prep(t2, &[1], 2)); // takes the key over
                let cm = c.commit(t1);
                verif_clock::set_now_ms(None);
                rep.hit("coord.B.run");
                if matches!(v1, PrepareVote::Yes { .. }) && matches!(v3, PrepareVote::Conflict { .. }) && matches!(v2, PrepareVote::Yes { .. }) && cm.is_ok() {
                    rep.hit("coord.B.takeover_reached");
                    if in_wait_graph(&c, t1, &ids) {
                        rep.violation(
                            "DistributedTxCoordinator.commit/ended_holder_stays_in_wait_graph",
                            "a committed transaction whose lock had expired and been taken over is still a holder in the coordinator's wait-for graph",
                            json!({"scenario": "lock timeout 40ms (frozen clock); prepare(t1,[k1])=Yes; prepare(t3,[k1])=Conflict (t3 waits for t1); +40ms prepare(t4)=Conflict; +41ms prepare(t2,[k1])=Yes (takes over expired lock); commit(t1)",
                                   "waiting_on_t1": c.wait_graph().waiting_on(t1).len()}),
                        );
                    }
                } else {
                    rep.note(&format!("coord scenario B not reached: v1={v1:?} phase={ph:?} v3={v3:?} v2={v2:?} commit={cm:?}"));
                }
                rep.case(stream, Some("B"));
            }
        }
        verif_clock::set_now_ms(None);
    }
    // --- C: timeout.  prepare_timeout 20 ms (DistributedTransaction::is_timed_out reads the wall clock, which
    //     the hook does not cover): t1 holds k1, t2 waits for t1, both time out; cleanup_timeouts must leave
    //     neither in the graph and no lock behind.
    {
        let cfg = DistributedTxConfig { prepare_timeout_ms: 20, ..DistributedTxConfig::default() };
        let c = DistributedTxCoordinator::new(ConsensusManager::new(ConsensusConfig::default()), cfg);
        let t1 = c.begin(&"n1".to_string(), &[0]).map(|t| t.tx_id);
        let t2 = c.begin(&"n1".to_string(), &[0]).map(|t| t.tx_id);
        if let (Ok(t1), Ok(t2)) = (t1, t2) {
            let v1 = c.handle_prepare(&prep(t1, &[1], 0));
            let _ = c.record_vote(t1, 0, v1.clone());
            let v2 = c.handle_prepare(&prep(t2, &[1], 1));
            let was_waiting = !c.wait_graph().waiting_for(t2).is_empty();
            std::thread::sleep(Duration::from_millis(45));
            let gone = c.cleanup_timeouts();
            rep.hit("coord.C.run");
            if matches!(v1, PrepareVote::Yes { .. }) && matches!(v2, PrepareVote::Conflict { .. }) && was_waiting && gone.contains(&t1) && gone.contains(&t2) {
                rep.hit("coord.C.both_timed_out");
                for (name, t) in [("t1", t1), ("t2", t2)] {
                    if in_wait_graph(&c, t, &[t1, t2]) {
                        rep.violation("DistributedTxCoordinator.cleanup_timeouts/ended_tx_stays_in_wait_graph",
                            "a timed-out transaction still appears in the coordinator's wait-for graph",
                            json!({"scenario": "C", "tx": name, "edges": c.wait_graph().edge_count()}));
                    }
                    if c.lock_manager().lock_count_for_transaction(t) != 0 {
                        rep.violation("DistributedTxCoordinator.cleanup_timeouts/locks_remain", "a timed-out transaction still holds locks", json!({"scenario": "C", "tx": name}));
                    }
                }
            } else {
                rep.note(&format!("coord scenario C not reached: v1={v1:?} v2={v2:?} waiting={was_waiting} timed_out={gone:?}"));
            }
            rep.case(stream, Some("C"));
        }
    }
    // --- D (observation, outside the quantifier): a prepare that arrives AFTER its transaction ended.
    //     handle_prepare is the participant side and does not consult `pending`; the late waiter is back in
    //     the graph until cleanup_stale_edges / the blocker's end.  The property assumes ids are not reused
    //     after the end, so this is recorded, not judged.
    {
        let c = DistributedTxCoordinator::with_consensus(ConsensusManager::new(ConsensusConfig::default()));
        let t1 = c.begin(&"n1".to_string(), &[0]).map(|t| t.tx_id);
        let t2 = c.begin(&"n1".to_string(), &[0]).map(|t| t.tx_id);
        if let (Ok(t1), Ok(t2)) = (t1, t2) {
            let v1 = c.handle_prepare(&prep(t1, &[1], 0));
            let _ = c.record_vote(t1, 0, v1);
            let ab = c.abort(t2, "early");
            let late = c.handle_prepare(&prep(t2, &[1], 1));
            let back = in_wait_graph(&c, t2, &[t1, t2]);
            rep.hit(if back { "coord.D.late_prepare_reenters_graph" } else { "coord.D.late_prepare_ignored" });
            rep.observe(json!({"late_prepare_after_abort": {"abort_ok": ab.is_ok(), "vote": format!("{late:?}").chars().take(60).collect::<String>(), "ended_tx_back_in_wait_graph": back,
                "note": "handle_prepare does not check that the transaction is still pending; excluded by the assumption that transaction ids are not used after the end"}}));
            let _ = c.commit(t1);
        }
    }
    // --- random: N single-shard transactions over few keys, prepared in random order, then each committed or aborted
    for case in 0..random_cases {
        let c = DistributedTxCoordinator::with_consensus(ConsensusManager::new(ConsensusConfig::default()));
        let n = 2 + r.below(4);
        let ids: Vec<u64> = (0..n).filter_map(|_| c.begin(&"n1".to_string(), &[0]).ok().map(|t| t.tx_id)).collect();
        let mut script = Vec::new();
        let mut order: Vec<usize> = (0..ids.len()).collect();
        r.shuffle(&mut order);
        for i in &order {
            let ks: Vec<u64> = (0..1 + r.below(2)).map(|_| r.below(3)).collect();
            let v = c.handle_prepare(&prep(ids[*i], &ks, *i));
            let kind = match v { PrepareVote::Yes { .. } => "yes", PrepareVote::Conflict { .. } => "conflict", _ => "no" };
            rep.hit(&format!("coord.prepare.{kind}"));
            script.push(format!("prepare t{i} {ks:?} -> {kind}"));
            let _ = c.record_vote(ids[*i], 0, v);
        }
        r.shuffle(&mut order);
        for i in &order {
            let tx = ids[*i];
            let how = if c.commit(tx).is_ok() { "commit" } else if c.abort(tx, "test").is_ok() { "abort" } else { "gone" };
            script.push(format!("{how} t{i}"));
            if c.lock_manager().lock_count_for_transaction(tx) != 0 && how != "gone" {
                rep.violation("DistributedTxCoordinator/locks_remain_after_end", "ended transaction still holds locks", json!({"script": script}));
            }
            // the property is checked at the moment the transaction ends, while others are still live
            if how != "gone" && in_wait_graph(&c, tx, &ids) {
                rep.hit("coord.random.ended_tx_in_wait_graph");
                rep.violation(
                    "DistributedTxCoordinator.abort/ended_waiter_stays_in_wait_graph",
                    "a transaction that just ended still appears in the coordinator's wait-for graph",
                    json!({"case": case, "script": script, "tx": format!("t{i}"), "edges": c.wait_graph().edge_count()}),
                );
            }
        }
        let leftover: Vec<usize> = (0..ids.len()).filter(|i| in_wait_graph(&c, ids[*i], &ids)).collect();
        if !leftover.is_empty() {
            rep.hit("coord.random.leftover_in_wait_graph");
            rep.violation(
                "DistributedTxCoordinator.abort/ended_waiter_stays_in_wait_graph",
                "every transaction ended but the coordinator's wait-for graph still has edges for some of them",
                json!({"case": case, "script": script, "leftover": leftover, "edges": c.wait_graph().edge_count()}),
            );
        }
        if c.lock_manager().active_lock_count() != 0 {
            rep.violation("DistributedTxCoordinator/locks_remain_after_end", "locks remain after every transaction ended", json!({"script": script}));
        }
        let key = script.join(";");
        rep.case(stream, Some(&key));
    }
}

/// One transaction life on the real coordinator: begin, prepare over `keys`, record the vote, then commit
/// if it is Prepared, else abort.  `between()` runs between the API calls (yield point or nothing).
/// Returns (tx id, "commit"/"abort"/"gone", ended-tx-still-in-graph?, locks left)
fn tx_life(c: &DistributedTxCoordinator, keys: &[u64], axis: usize, between: &dyn Fn(&'static str)) -> Option<(u64, &'static str, bool, usize)> {
    between("coord.begin");
    let tx = c.begin(&"n1".to_string(), &[0]).ok()?.tx_id;
    between("coord.handle_prepare");
    let v = c.handle_prepare(&prep(tx, keys, axis));
    between("coord.record_vote");
    let _ = c.record_vote(tx, 0, v);
    between("coord.end");
    let how = if c.commit(tx).is_ok() { "commit" } else if c.abort(tx, "hammer").is_ok() { "abort" } else { "gone" };
    // per-transaction program order: nobody can add this transaction to the graph after its end (it holds no
    // lock any more), so the check is valid while other threads are still running
    let g = c.wait_graph();
    let in_graph = !g.waiting_for(tx).is_empty() || !g.waiting_on(tx).is_empty();
    Some((tx, how, in_graph, c.lock_manager().lock_count_for_transaction(tx)))
}

/// 2..6 threads each run several transaction lives on ONE coordinator over 3 keys.
/// `scheduled`: under `nverif::sched::run_threads` with a yield before every coordinator API call
/// (deterministic operation-level interleavings; no yield point exists inside the calls);
/// otherwise free-running OS threads (races inside the calls).  Oracle = property C12, sentence 2.
fn coordinator_threads(rep: &mut Report, r: &mut Rng, threads: usize, lives: usize, scheduled: bool) {
    let stream = if scheduled { "sched.coordinator" } else { "threads.coordinator" };
    // orthogonal_threshold above 1: the semantic-conflict check never fires, only key locks decide
    let cfg = DistributedTxConfig { orthogonal_threshold: 2.0, ..DistributedTxConfig::default() };
    let c = Arc::new(DistributedTxCoordinator::new(ConsensusManager::new(ConsensusConfig::default()), cfg));
    let results: Arc<std::sync::Mutex<Vec<(usize, u64, &'static str, bool, usize, Vec<u64>)>>> = Arc::new(std::sync::Mutex::new(Vec::new()));
    let plans: Vec<Vec<Vec<u64>>> = (0..threads).map(|_| (0..lives).map(|_| (0..1 + r.below(2)).map(|_| r.below(3)).collect()).collect()).collect();
    let mk = |t: usize, plan: Vec<Vec<u64>>| {
        let (c, results) = (c.clone(), results.clone());
        move || {
            for (i, keys) in plan.iter().enumerate() {
                let between: &dyn Fn(&'static str) = if scheduled { &|site| tensor_store::verif::yield_point(site, "") } else { &|_| {} };
                if let Some((tx, how, in_graph, left)) = tx_life(&c, keys, t * 7 + i, between) {
                    results.lock().unwrap().push((t, tx, how, in_graph, left, keys.clone()));
                }
            }
        }
    };
    let mut trace_sites: Vec<&'static str> = Vec::new();
    let mut switches = 0;
    if scheduled {
        let tasks: Vec<Box<dyn FnOnce() + Send>> = plans.iter().cloned().enumerate().map(|(t, p)| Box::new(mk(t, p)) as Box<dyn FnOnce() + Send>).collect();
        let mut sr = r.fork("schedule");
        let trace = nverif::sched::run_threads(tasks, move |_, parked| sr.below(parked.len() as u64) as usize);
        switches = trace.windows(2).filter(|w| w[0].thread != w[1].thread).count();
        trace_sites = trace.iter().map(|s| s.site).filter(|s| !s.starts_with("coord.") && *s != "thread.start").collect();
        rep.hit_n("sched.coord.steps", trace.len() as u64);
        rep.hit(if trace_sites.is_empty() { "sched.coord.no_yield_inside_calls" } else { "sched.coord.yield_inside_call" });
    } else {
        let hs: Vec<_> = plans.iter().cloned().enumerate().map(|(t, p)| std::thread::spawn(mk(t, p))).collect();
        for h in hs { let _ = h.join(); }
    }
    let res = results.lock().unwrap().clone();
    let script: Vec<String> = res.iter().map(|(t, _, how, _, _, ks)| format!("T{t}:{how}{ks:?}")).collect();
    let (mut commits, mut aborts) = (0, 0);
    for (t, tx, how, in_graph, left, ks) in &res {
        match *how { "commit" => commits += 1, "abort" => aborts += 1, _ => {} }
        rep.hit(&format!("{stream}.{how}"));
        if *how != "gone" && *in_graph {
            rep.violation("DistributedTxCoordinator/ended_tx_in_wait_graph_threads",
                "a transaction that just ended (commit/abort) on one thread still appears in the coordinator's wait-for graph",
                json!({"threads": threads, "scheduled": scheduled, "thread": t, "tx": tx, "keys": ks, "how": how, "ends_in_completion_order": script}));
        }
        if *how != "gone" && *left != 0 {
            rep.violation("DistributedTxCoordinator/locks_remain_after_end_threads", "an ended transaction still holds locks", json!({"threads": threads, "scheduled": scheduled, "tx": tx, "how": how}));
        }
    }
    // quiescence: nothing left at all
    if c.wait_graph().edge_count() != 0 || !c.wait_graph().is_empty() {
        rep.violation("DistributedTxCoordinator/wait_graph_not_empty_at_quiescence", "every transaction ended but the wait-for graph still has edges",
            json!({"threads": threads, "scheduled": scheduled, "edges": c.wait_graph().edge_count(), "ends_in_completion_order": script}));
    }
    if c.lock_manager().active_lock_count() != 0 {
        rep.violation("DistributedTxCoordinator/locks_remain_at_quiescence", "every transaction ended but locks remain", json!({"threads": threads, "scheduled": scheduled, "left": c.lock_manager().active_lock_count()}));
    }
    if !trace_sites.is_empty() {
        rep.observe(json!({"coordinator_call_yielded_at": trace_sites}));
    }
    let key = format!("{threads}:{}", script.join(";"));
    rep.case(stream, if commits >= 1 && aborts >= 1 && (!scheduled || switches >= 2) { Some(&key) } else { None });
}

// ------------------------------------------------------------------ the real coordinator vs the model (`c*` ops)

/// frozen-clock origin of the coordinator streams (model time 0)
const CO_BASE: u64 = 10_000;
const SYM_ENDED: u64 = 1_000;
const SYM_PENDING: u64 = 2_000;

#[derive(Clone, Debug)]
enum CoOp {
    Begin(Vec<u64>),
    Prep(u64, Vec<u64>),
    Deliver(u64, u64),
    VoteNo(u64, u64),
    Commit(u64),
    Abort(u64),
    CompleteCommit(u64),
    CompleteAbort(u64),
    Force(u64, bool),
    Timeouts,
    Recover,
    Sweep(u64),
    Adv(u64),
    /// doom these transactions (their deadline passes), then save the coordinator state and load it back
    SaveLoad(Vec<u64>),
}
fn co_text(op: &CoOp) -> String {
    match op {
        CoOp::Begin(sh) => format!("cbegin {}", if sh.is_empty() { "-".to_string() } else { dotted(sh) }),
        CoOp::Prep(tx, ks) => format!("cprep {tx} {}", commas(ks)),
        CoOp::Deliver(h, sh) => format!("cdeliver {h} {sh}"),
        CoOp::VoteNo(tx, sh) => format!("cvoteno {tx} {sh}"),
        CoOp::Commit(tx) => format!("ccommit {tx}"),
        CoOp::Abort(tx) => format!("cabort {tx}"),
        CoOp::CompleteCommit(tx) => format!("ccompletecommit {tx}"),
        CoOp::CompleteAbort(tx) => format!("ccompleteabort {tx}"),
        CoOp::Force(tx, b) => format!("cforce {tx} {}", u8::from(*b)),
        CoOp::Timeouts => "ctimeouts".into(),
        CoOp::Recover => "crecover".into(),
        CoOp::Sweep(ps) => format!("csweep {ps}"),
        CoOp::Adv(d) => format!("cadv {d}"),
        CoOp::SaveLoad(d) => format!("csaveload doom={}", commas(d)),
    }
}

fn co_config(mc: usize) -> DistributedTxConfig {
    // orthogonal_threshold above 1: the cosine-similarity conflict checks never fire, only key locks decide;
    // the transaction deadline (wall clock, not hooked) is an hour away unless the harness dooms the transaction
    DistributedTxConfig { orthogonal_threshold: 2.0, prepare_timeout_ms: 3_600_000, max_concurrent: mc, ..DistributedTxConfig::default() }
}
fn co_load(state: &CoordinatorState, mc: usize) -> Option<DistributedTxCoordinator> {
    let store = TensorStore::new();
    let mut data = TensorData::new();
    data.set("state", TensorValue::Scalar(ScalarValue::Bytes(bitcode::serialize(state).ok()?)));
    store.put("_dtx:coordinator:n1:state".to_string(), data).ok()?;
    DistributedTxCoordinator::load_from_store("n1", &store, ConsensusManager::new(ConsensusConfig::default()), co_config(mc)).ok()
}

struct RealCoord {
    c: DistributedTxCoordinator,
    mc: usize,
    now: u64,
    ids: Vec<u64>,                        // dense id (1-based) -> real id
    handles: Vec<u64>,                    // model handle -> real handle
    votes: BTreeMap<u64, (u64, PrepareVote)>, // in-flight Yes votes: model handle -> (dense tx, vote)
    unrecorded: BTreeSet<u64>,
}
#[derive(Clone, Debug, PartialEq)]
struct CoLock { k: u64, tx: u64, h: u64, acq: u64, to: u64, key: u64 }
impl RealCoord {
    fn new(to_ms: u64, mc: usize) -> Option<Self> {
        verif_clock::set_now_ms(Some(CO_BASE));
        let state = CoordinatorState { pending: HashMap::new(), lock_state: SerializableLockState::new(HashMap::new(), HashMap::new(), to_ms) };
        Some(RealCoord { c: co_load(&state, mc)?, mc, now: 0, ids: vec![], handles: vec![], votes: BTreeMap::new(), unrecorded: BTreeSet::new() })
    }
    fn real_tx(&self, dense: u64) -> u64 {
        if dense >= 1 && (dense as usize) <= self.ids.len() { self.ids[dense as usize - 1] } else { dense }
    }
    fn dense_tx(&self, real: u64) -> u64 {
        self.ids.iter().position(|x| *x == real).map_or(real, |i| i as u64 + 1)
    }
    fn h_model(&mut self, real: u64) -> u64 {
        if let Some(i) = self.handles.iter().position(|x| *x == real) { return i as u64; }
        self.handles.push(real);
        self.handles.len() as u64 - 1
    }
    fn locks(&mut self) -> Vec<CoLock> {
        let st = self.c.lock_manager().to_serializable();
        let mut v: Vec<CoLock> = Vec::new();
        for (k, l) in st.locks().iter() {
            let tx = self.dense_tx(l.tx_id);
            let h = self.h_model(l.lock_handle);
            v.push(CoLock { k: kid(k), key: kid(&l.key), tx, h, acq: l.acquired_at_ms.saturating_sub(CO_BASE), to: l.timeout_ms });
        }
        v.sort_by_key(|l| l.k);
        v
    }
    fn pending_dense(&self) -> Vec<u64> {
        let mut p: Vec<u64> = self.c.to_state().pending.keys().map(|t| self.dense_tx(*t)).collect();
        p.sort();
        p
    }
    fn image(&mut self) -> Option<String> {
        let st = self.c.to_state();
        let locks = self.locks();
        let l: Vec<String> = locks.iter().map(|r| format!("{}:{}:{}:{}:{}:{}", r.k, r.key, r.tx, r.h, r.acq, r.to)).collect();
        let mut txl: Vec<(u64, Vec<u64>)> = st.lock_state.tx_locks().iter().map(|(t, ks)| (self.dense_tx(*t), ks.iter().map(|k| kid(k)).collect())).collect();
        txl.sort();
        let t: Vec<String> = txl.iter().map(|(tx, ks)| format!("{}:{}", tx, dotted(ks))).collect();
        let table = format!("L {};T {};D {};N {}", l.join(","), t.join(","), st.lock_state.default_timeout_ms(), locks.len());
        let v = view(self.c.wait_graph())?;
        let ren = |m: &[(u64, Vec<u64>)]| -> Vec<(u64, Vec<u64>)> { m.iter().map(|(k, vs)| (self.dense_tx(*k), vs.iter().map(|x| self.dense_tx(*x)).collect())).collect() };
        let gv = GraphView { edges: ren(&v.edges), reverse: ren(&v.reverse), ws: v.ws.iter().map(|(k, t)| (self.dense_tx(*k), *t)).collect(), pr: v.pr.iter().map(|(k, t)| (self.dense_tx(*k), *t)).collect() };
        let mut pend: Vec<(u64, String)> = Vec::new();
        for (id, tx) in st.pending.iter() {
            let phase = match tx.phase { TxPhase::Preparing => "preparing", TxPhase::Prepared => "prepared", TxPhase::Committing => "committing", TxPhase::Aborting => "aborting", TxPhase::Committed => "committed", TxPhase::Aborted => "aborted", _ => "other" };
            let mut votes: Vec<(u64, String)> = Vec::new();
            for (sh, v) in tx.votes.iter() {
                votes.push((*sh as u64, match v { PrepareVote::Yes { lock_handle, .. } => format!("{sh}y{}", self.handles.iter().position(|x| x == lock_handle).map_or(999_999, |i| i as u64)), _ => format!("{sh}n") }));
            }
            votes.sort();
            let shards: Vec<u64> = tx.participants.iter().map(|s| *s as u64).collect();
            let d = self.dense_tx(*id);
            pend.push((d, format!("{d}:{phase}:{}:{}:{}", dotted(&shards), votes.iter().map(|x| x.1.clone()).collect::<Vec<_>>().join("."), u8::from(tx.is_timed_out()))));
        }
        pend.sort();
        let infl: Vec<String> = self.votes.iter().map(|(h, (tx, _))| format!("{h}={tx}")).collect();
        let unrec: Vec<u64> = self.unrecorded.iter().copied().collect();
        let gi = graph_img(&gv, CO_BASE);
        let gi = if gi.ends_with(";P") { format!("{gi} ") } else { gi }; // graph_img trims its own end
        Some(format!("{table} | {} | P {} | I {};U {}", gi, pend.iter().map(|x| x.1.clone()).collect::<Vec<_>>().join(","), infl.join(","), dotted(&unrec)))
    }
    /// symbolic references of the random generator, resolved against the current real state:
    /// tx >= SYM_PENDING: the (tx - SYM_PENDING)-th pending transaction (mod count; none pending: an ended one);
    /// tx >= SYM_ENDED: the (tx - SYM_ENDED)-th issued id that is no longer pending; handle >= SYM_PENDING: the
    /// n-th vote in flight; shard >= SYM_PENDING: the first participant of that transaction that has not voted
    fn resolve(&self, op: &CoOp) -> CoOp {
        let st = self.c.to_state();
        let mut pend: Vec<u64> = st.pending.keys().map(|t| self.dense_tx(*t)).collect();
        pend.sort();
        let ended: Vec<u64> = (1..=self.ids.len() as u64).filter(|d| !pend.contains(d)).collect();
        let tx_of = |t: u64| -> u64 {
            if t >= SYM_PENDING {
                if !pend.is_empty() { pend[((t - SYM_PENDING) as usize) % pend.len()] } else if !ended.is_empty() { ended[((t - SYM_PENDING) as usize) % ended.len()] } else { 70 }
            } else if t >= SYM_ENDED {
                if !ended.is_empty() { ended[((t - SYM_ENDED) as usize) % ended.len()] } else { 71 }
            } else { t }
        };
        let unvoted = |tx: u64, sh: u64| -> u64 {
            if sh < SYM_PENDING { return sh; }
            match st.pending.get(&self.real_tx(tx)) {
                Some(t) => t.participants.iter().find(|s| !t.votes.contains_key(*s)).map_or((sh - SYM_PENDING) % 2, |s| *s as u64),
                None => (sh - SYM_PENDING) % 2,
            }
        };
        match op {
            CoOp::Prep(t, ks) => CoOp::Prep(tx_of(*t), ks.clone()),
            CoOp::Deliver(h, sh) => {
                let hs: Vec<u64> = self.votes.keys().copied().collect();
                let h2 = if *h >= SYM_PENDING { if hs.is_empty() { 999 } else { hs[((*h - SYM_PENDING) as usize) % hs.len()] } } else { *h };
                let tx = self.votes.get(&h2).map_or(0, |v| v.0);
                CoOp::Deliver(h2, unvoted(tx, *sh))
            }
            CoOp::VoteNo(t, sh) => { let tx = tx_of(*t); CoOp::VoteNo(tx, unvoted(tx, *sh)) }
            CoOp::Commit(t) => CoOp::Commit(tx_of(*t)),
            CoOp::Abort(t) => CoOp::Abort(tx_of(*t)),
            CoOp::CompleteCommit(t) => CoOp::CompleteCommit(tx_of(*t)),
            CoOp::CompleteAbort(t) => CoOp::CompleteAbort(tx_of(*t)),
            CoOp::Force(t, b) => CoOp::Force(tx_of(*t), *b),
            CoOp::SaveLoad(d) => CoOp::SaveLoad(d.iter().map(|t| tx_of(*t)).collect()),
            other => other.clone(),
        }
    }
    fn in_graph(&self, dense: u64) -> bool {
        let tx = self.real_tx(dense);
        match view(self.c.wait_graph()) {
            Some(v) => v.edges.iter().any(|(k, vs)| *k == tx || vs.contains(&tx)) || v.reverse.iter().any(|(k, vs)| *k == tx || vs.contains(&tx)) || v.ws.iter().any(|x| x.0 == tx) || v.pr.iter().any(|x| x.0 == tx),
            None => true,
        }
    }
}

/// Error canonicalisation (BUILDING.md), rule 2. `commit` / `abort` / `complete_*` / `force_resolve` report
/// all their refusals (unknown transaction, wrong phase, a non-YES vote) as the ONE variant
/// `ChainError::TransactionFailed(String)`; a refusal changes nothing and C12 only needs ended / refused
/// (`ended` below), so the COMPARED token is decided by the variant: `txfailed` (the model's `notfound` /
/// `wrongphase` / `refused` are mapped to it at comparison time, `co_model_collapsed`). What the message says
/// is read only for the coverage statistic `co.end.<site>.<reason>`.
const CO_TXFAILED: &str = "txfailed";
fn co_err(e: &tensor_chain::ChainError) -> (String, &'static str) {
    match e {
        tensor_chain::ChainError::TransactionFailed(m) => {
            (CO_TXFAILED.into(), if m.contains("not found") { "notfound" } else if m.contains("cannot be committed") { "refused" } else if m.contains("phase") { "wrongphase" } else { "unclassified" })
        }
        other => (format!("err:{}", format!("{other:?}").chars().take_while(|c| c.is_alphanumeric()).collect::<String>()), "error"),
    }
}
/// the model's answer line `<answer> | <image>` with a refusal of an end-of-transaction op collapsed
fn co_model_collapsed(mo: &str) -> String {
    let (ans, rest) = match mo.split_once(" | ") { Some((a, r)) => (a, Some(r)), None => (mo.trim_end(), None) };
    if matches!(ans.trim_end(), "notfound" | "wrongphase" | "refused") {
        match rest { Some(r) => format!("{CO_TXFAILED} | {r}"), None => CO_TXFAILED.to_string() }
    } else {
        mo.to_string()
    }
}

/// Runs one coordinator op script on the real `DistributedTxCoordinator` (frozen clock) and on the model,
/// comparing answer + lock table + wait-for graph + pending map after every op, and judging the real
/// outputs with the property's oracles.  Returns true when everything agreed.
fn run_coord_case(m: &mut Model, rep: &mut Report, stream: &str, to: u64, mc: usize, ops: &[CoOp], record: bool) -> bool {
    let Some(mut rc) = RealCoord::new(to, mc) else { rep.note("coordinator could not be constructed through load_from_store"); return true; };
    struct Reset;
    impl Drop for Reset { fn drop(&mut self) { verif_clock::set_now_ms(None); } }
    let _reset = Reset;
    if m.ask(&format!("cinit {to} {mc}")) != "ok" { rep.disagree(stream, json!({}), "ok", "cinit refused"); return false; }
    let mut trace: Vec<String> = Vec::new();
    let mut recorded_of: BTreeMap<u64, Vec<u64>> = BTreeMap::new(); // dense tx -> model handles recorded as Yes votes
    let (mut grants, mut ends, mut leaks) = (0, 0, 0);
    for (i, op) in ops.iter().enumerate() {
        let resolved = rc.resolve(op);
        let op = &resolved;
        // an id the coordinator has not issued yet (the generator cannot know about refused begins, shrinking
        // removes begins): the model would identify it with a later transaction, the real ids are random — skip
        if let CoOp::Prep(tx, _) | CoOp::VoteNo(tx, _) | CoOp::Commit(tx) | CoOp::Abort(tx) | CoOp::CompleteCommit(tx) | CoOp::CompleteAbort(tx) | CoOp::Force(tx, _) = op {
            if *tx < 70 && (*tx as usize) > rc.ids.len() { continue; }
        }
        let text = co_text(op);
        trace.push(text.clone());
        let tr = || json!({"timeout_ms": to, "max_concurrent": mc, "step": i, "trace": trace});
        let before = rc.locks();
        let pending_before = rc.pending_dense();
        let mut ended: Vec<u64> = Vec::new();
        let mut line = text.clone();
        let imp: String = match op {
            CoOp::Begin(sh) => {
                let shards: Vec<usize> = sh.iter().map(|s| *s as usize).collect();
                match rc.c.begin(&"n1".to_string(), &shards) {
                    Ok(tx) => { rc.ids.push(tx.tx_id); if record { rep.hit("co.begin"); } format!("began {}", rc.ids.len()) }
                    Err(_) => { if record { rep.hit("co.begin.refused"); } "refused".into() }
                }
            }
            CoOp::Prep(tx, ks) => {
                let real = rc.real_tx(*tx);
                let v = rc.c.handle_prepare(&prep(real, ks, *tx as usize));
                match &v {
                    PrepareVote::Yes { lock_handle, .. } => {
                        let h = rc.h_model(*lock_handle);
                        rc.votes.insert(h, (*tx, v.clone()));
                        grants += 1;
                        if record { rep.hit(if pending_before.contains(tx) { "co.prepare.yes" } else { "co.prepare.yes.tx_not_pending" }); }
                        let after = rc.locks();
                        // oracles: all-or-nothing, exclusivity, nothing else disturbed
                        for k in ks {
                            if !after.iter().any(|l| l.k == *k && l.tx == *tx && l.h == h) {
                                rep.violation("DistributedTxCoordinator.handle_prepare/partial_grant", "voted Yes but a requested key is not held by the transaction under the new handle", tr());
                            }
                            if let Some(b) = before.iter().find(|l| l.k == *k) {
                                if b.tx != *tx && !(rc.now.saturating_sub(b.acq) > b.to) {
                                    rep.violation("DistributedTxCoordinator.handle_prepare/two_unexpired_holders", "voted Yes on a key held by another unexpired transaction", tr());
                                }
                                if b.tx != *tx { if record { rep.hit("co.prepare.takeover_of_expired"); } }
                            }
                        }
                        if before.iter().any(|b| !ks.contains(&b.k) && !after.contains(b)) {
                            rep.violation("DistributedTxCoordinator.handle_prepare/foreign_lock_disturbed", "a grant changed a lock outside the requested set", tr());
                        }
                        if rc.in_graph(*tx) {
                            rep.violation("DistributedTxCoordinator.handle_prepare/granted_tx_still_waits", "a transaction whose prepare was granted still appears in the wait-for graph", tr());
                        }
                        format!("yes {h}")
                    }
                    PrepareVote::Conflict { conflicting_tx, .. } => {
                        if record { rep.hit("co.prepare.conflict"); }
                        let after = rc.locks();
                        if after != before {
                            rep.violation("DistributedTxCoordinator.handle_prepare/conflict_state_changed", "a refused prepare changed the lock table", tr());
                        }
                        let blocker = rc.dense_tx(*conflicting_tx);
                        let ck: Vec<u64> = ks.iter().copied().filter(|k| before.iter().any(|l| l.k == *k && l.tx != *tx && !(rc.now.saturating_sub(l.acq) > l.to))).collect();
                        if !before.iter().any(|l| l.tx == blocker && ck.contains(&l.k)) {
                            rep.violation("DistributedTxCoordinator.handle_prepare/spurious_conflict", "the named blocker holds no live lock on a requested key", tr());
                        }
                        format!("conflict {}", commas(&ck))
                    }
                    _ => "no".into(),
                }
            }
            CoOp::Deliver(h, sh) => match rc.votes.remove(h) {
                None => "unit".into(),
                Some((tx, vote)) => match rc.c.record_vote(rc.real_tx(tx), *sh as usize, vote) {
                    Ok(ph) => {
                        recorded_of.entry(tx).or_default().push(*h);
                        if record { rep.hit("co.vote.recorded"); }
                        match ph { None => "recorded -".into(), Some(TxPhase::Prepared) => "recorded prepared".into(), Some(TxPhase::Aborting) => "recorded aborting".into(), Some(p) => format!("recorded {p:?}") }
                    }
                    Err(e) => {
                        rc.unrecorded.insert(*h);
                        let k = match e { VoteRecordError::TxNotFound(_) => "notfound", VoteRecordError::WrongPhase { .. } => "wrongphase", VoteRecordError::DuplicateVote { .. } => "duplicate" };
                        if record { rep.hit(&format!("co.vote.refused.{k}")); }
                        k.into()
                    }
                },
            },
            CoOp::VoteNo(tx, sh) => match rc.c.record_vote(rc.real_tx(*tx), *sh as usize, PrepareVote::No { reason: "harness".into() }) {
                Ok(ph) => { if record { rep.hit("co.vote.no"); } match ph { None => "recorded -".into(), Some(TxPhase::Prepared) => "recorded prepared".into(), Some(TxPhase::Aborting) => "recorded aborting".into(), Some(p) => format!("recorded {p:?}") } }
                Err(e) => match e { VoteRecordError::TxNotFound(_) => "notfound", VoteRecordError::WrongPhase { .. } => "wrongphase", VoteRecordError::DuplicateVote { .. } => "duplicate" }.into(),
            },
            CoOp::Commit(tx) | CoOp::Abort(tx) | CoOp::CompleteCommit(tx) | CoOp::CompleteAbort(tx) | CoOp::Force(tx, _) => {
                let real = rc.real_tx(*tx);
                let (site, res) = match op {
                    CoOp::Commit(_) => ("commit", rc.c.commit(real)),
                    CoOp::Abort(_) => ("abort", rc.c.abort(real, "harness")),
                    CoOp::CompleteCommit(_) => ("complete_commit", rc.c.complete_commit(real)),
                    CoOp::CompleteAbort(_) => ("complete_abort", rc.c.complete_abort(real)),
                    CoOp::Force(_, b) => (if *b { "force_resolve_commit" } else { "force_resolve_abort" }, rc.c.force_resolve(real, *b)),
                    _ => unreachable!(),
                };
                match res {
                    Ok(()) => { ended.push(*tx); if record { rep.hit(&format!("co.end.{site}")); } "ok".into() }
                    Err(e) => { let (tok, k) = co_err(&e); if record { rep.hit(&format!("co.end.{site}.{k}")); } tok }
                }
            }
            CoOp::Timeouts => {
                let gone: Vec<u64> = rc.c.cleanup_timeouts().iter().map(|t| rc.dense_tx(*t)).collect();
                let mut g = gone.clone();
                g.sort();
                if record { rep.hit(if g.is_empty() { "co.timeouts.none" } else { "co.timeouts.some" }); }
                ended.extend(g.iter().copied());
                format!("ids {}", commas(&g))
            }
            CoOp::Recover => {
                let s = rc.c.recover();
                if record { rep.hit("co.recover"); if s.pending_commit > 0 { rep.hit("co.recover.to_committing"); } if s.timed_out > 0 { rep.hit("co.recover.timed_out"); } }
                format!("stats {} {} {} {}", s.timed_out, s.pending_prepare, s.pending_commit, s.pending_abort)
            }
            CoOp::Sweep(ps) => {
                let n = rc.c.release_orphaned_locks(CO_BASE + ps);
                let after = rc.locks();
                if record { rep.hit(if n > 0 { "co.sweep.removed" } else { "co.sweep.none" }); }
                // oracle: exactly the locks of non-pending transactions acquired before the partition start go
                let mut swept_txs: BTreeSet<u64> = BTreeSet::new();
                for b in &before {
                    let orphan = !pending_before.contains(&b.tx) && b.acq < *ps;
                    let still = after.contains(b);
                    if orphan { swept_txs.insert(b.tx); }
                    if orphan && still {
                        rep.violation("DistributedTxCoordinator.release_orphaned_locks/orphan_remains", "a lock of a transaction that is not pending, acquired before the partition start, survived the sweep", tr());
                    }
                    if !orphan && !still {
                        rep.violation("DistributedTxCoordinator.release_orphaned_locks/live_lock_removed", "the sweep removed a lock of a pending transaction or one acquired at/after the partition start", tr());
                        if record && pending_before.contains(&b.tx) { rep.hit("co.sweep.pending_lock_removed"); }
                    }
                    if !orphan && pending_before.contains(&b.tx) && b.acq < *ps && record { rep.hit("co.sweep.kept_lock_of_pending_tx"); }
                    if !orphan && !pending_before.contains(&b.tx) && b.acq == *ps && record { rep.hit("co.sweep.boundary_acquired_eq_start_kept"); }
                }
                if after.iter().any(|a| !before.contains(a)) || n != before.len() - after.len() {
                    rep.violation("DistributedTxCoordinator.release_orphaned_locks/wrong_count", "the sweep's count differs from the number of removed locks", tr());
                }
                for t in &swept_txs {
                    if rc.in_graph(*t) {
                        rep.violation("DistributedTxCoordinator.release_orphaned_locks/swept_tx_in_wait_graph", "a transaction whose locks were swept still appears in the wait-for graph", tr());
                    }
                }
                format!("count {n}")
            }
            CoOp::Adv(d) => {
                rc.now += d;
                verif_clock::set_now_ms(Some(CO_BASE + rc.now));
                "unit".into()
            }
            CoOp::SaveLoad(doom) => {
                let mut st = rc.c.to_state();
                for d in doom {
                    let _ = m.ask(&format!("cdoom {d}"));
                    if let Some(tx) = st.pending.get_mut(&rc.real_tx(*d)) { tx.started_at = 1; if record { rep.hit("co.doom"); } }
                }
                match co_load(&st, rc.mc) {
                    Some(c2) => rc.c = c2,
                    None => { rep.disagree(stream, tr(), "coordinator state does not survive save/load", ""); return false; }
                }
                if record { rep.hit("co.saveload"); }
                line = "csaveload".into();
                "unit".into()
            }
        };
        let Some(img) = rc.image() else { rep.disagree(stream, tr(), "unparseable Debug output of WaitForGraph", ""); return false; };
        let mo = m.ask(&line);
        let mo = if matches!(op, CoOp::Commit(_) | CoOp::Abort(_) | CoOp::CompleteCommit(_) | CoOp::CompleteAbort(_) | CoOp::Force(..)) { co_model_collapsed(&mo) } else { mo };
        // the property oracles below are evaluated even when model and implementation disagree
        let agree = rep.compare(stream, tr, format!("{imp} | {img}").trim_end(), mo.trim_end());
        // oracle (the property, sentence 2): a transaction that just ended holds no lock and is absent from the
        // wait-for graph.  A lock whose Yes vote the coordinator never recorded (vote still in flight, or refused
        // by record_vote) is outside the coordinator's knowledge: counted, reported as an observation.
        for tx in &ended {
            ends += 1;
            if rc.in_graph(*tx) {
                rep.violation("DistributedTxCoordinator/ended_tx_in_wait_graph", "a transaction that just ended still appears in the coordinator's wait-for graph", tr());
            }
            let rec = recorded_of.get(tx).cloned().unwrap_or_default();
            for l in rc.locks().iter().filter(|l| l.tx == *tx) {
                if rec.contains(&l.h) {
                    rep.violation("DistributedTxCoordinator/locks_remain_after_end", "an ended transaction still holds a lock whose handle the coordinator had recorded", tr());
                } else if rc.votes.contains_key(&l.h) || rc.unrecorded.contains(&l.h) {
                    leaks += 1;
                    if record { rep.hit(if rc.votes.contains_key(&l.h) { "co.end.lock_left.vote_in_flight" } else { "co.end.lock_left.vote_refused" }); }
                } else {
                    rep.violation("DistributedTxCoordinator/locks_remain_after_end", "an ended transaction still holds a lock that is neither in flight nor refused", tr());
                }
            }
        }
        // index entries: release_by_handle never drops the `tx_locks` entry of a transaction, and a key taken over
        // after expiry stays listed under its old owner — keys_for_transaction of an ended transaction may still
        // name keys (now free or held by somebody else).  Not a lock; counted and reported once as an observation.
        for tx in &ended {
            let listed = rc.c.lock_manager().keys_for_transaction(rc.real_tx(*tx));
            if !listed.is_empty() && !rc.locks().iter().any(|l| l.tx == *tx) {
                if record { rep.hit("co.end.stale_index_keys_listed_for_ended_tx"); }
                if record && !rep.observations.iter().any(|o| o.get("stale_index_after_end").is_some()) {
                    rep.observe(json!({"stale_index_after_end": {"tx": tx, "keys_for_transaction": listed, "locks_held": 0, "trace": trace,
                        "note": "LockManager::keys_for_transaction / lock_count_for_transaction of an ended transaction still list keys it no longer holds (tx_locks entries are only pruned key-by-key on release_by_handle and never removed; a key re-acquired by another transaction after expiry stays listed under the old owner)"}}));
                }
            }
        }
        // quiescence: nothing pending, nothing in flight, nothing refused => the lock table is empty
        if rc.pending_dense().is_empty() && rc.votes.is_empty() && rc.unrecorded.is_empty() && !rc.locks().is_empty() {
            rep.violation("DistributedTxCoordinator/locks_remain_at_quiescence", "no transaction is pending and every vote was recorded, but locks remain", tr());
        }
        if !agree { return false; }
    }
    if record {
        let key = trace.join(";");
        rep.case(stream, if grants >= 1 && ends >= 1 { Some(&key) } else { None });
        if leaks > 0 { rep.hit("co.case.with_unrecorded_lock_left_behind"); }
    }
    true
}

fn directed_coord_cases() -> Vec<(&'static str, u64, usize, Vec<CoOp>)> {
    use CoOp::*;
    vec![
        // two shards, overlapping key sets re-locked by the same transaction under a second handle
        ("two_shards_overlapping_keys", 5, 10, vec![Begin(vec![0, 1]), Prep(1, vec![1, 2]), Deliver(0, 0), Prep(1, vec![2, 3]), Deliver(1, 1), Commit(1), Sweep(100)]),
        // refused prepare registers the waiter; abort without any handle must still clear the graph
        ("waiter_without_handle", 5, 10, vec![Begin(vec![0]), Begin(vec![0]), Prep(1, vec![1]), Deliver(0, 0), Prep(2, vec![1]), VoteNo(2, 0), Abort(2), Commit(1)]),
        // the Yes vote is still in flight when the transaction is aborted: the lock stays until expiry / sweep
        ("vote_in_flight_at_abort", 3, 10, vec![Begin(vec![0]), Prep(1, vec![4]), Abort(1), Deliver(0, 0), Begin(vec![0]), Prep(2, vec![4]), Adv(4), Timeouts, Prep(2, vec![4]), Deliver(1, 0), Commit(2)]),
        ("vote_in_flight_then_sweep", 30, 10, vec![Begin(vec![0]), Prep(1, vec![4, 5]), Abort(1), Deliver(0, 0), Adv(2), Begin(vec![0]), Prep(2, vec![5]), Sweep(0), Sweep(1), Prep(2, vec![5]), Deliver(1, 0), Commit(2)]),
        // a retried prepare: the second handle overwrites the first, its vote is a duplicate, commit releases
        // only the recorded (first) handle
        ("retried_prepare_duplicate_vote", 5, 10, vec![Begin(vec![0]), Prep(1, vec![7]), Deliver(0, 0), Prep(1, vec![7]), Deliver(1, 0), Commit(1), Adv(6), Timeouts]),
        // recover moves an all-yes Prepared transaction to Committing; complete_commit ends it
        ("recover_then_complete", 5, 10, vec![Begin(vec![0]), Begin(vec![0]), Prep(1, vec![1]), Deliver(0, 0), Prep(2, vec![1]), VoteNo(2, 0), Recover, CompleteCommit(2), CompleteAbort(1), CompleteCommit(1), CompleteAbort(2)]),
        // force_resolve: commit with no votes (all_yes is vacuously true), commit refused after a No, abort
        ("force_resolve", 5, 10, vec![Begin(vec![0, 1]), Force(1, true), Begin(vec![0, 1]), Prep(2, vec![2]), Deliver(0, 0), VoteNo(2, 1), Force(2, true), Force(2, false), Force(2, false)]),
        // deadlines: doomed transactions are ended by cleanup_timeouts / moved to Aborting by recover
        ("deadline_timeouts", 5, 10, vec![Begin(vec![0]), Begin(vec![0]), Begin(vec![0]), Prep(1, vec![1]), Deliver(0, 0), Prep(2, vec![1]), Prep(3, vec![2]), Deliver(1, 0), SaveLoad(vec![1]), Prep(2, vec![1]), Timeouts, Prep(2, vec![1]), Deliver(2, 0), SaveLoad(vec![3]), Recover, CompleteAbort(3), Commit(2)]),
        // sweep boundary: acquired_at == partition start is kept, one millisecond later it goes; a pending
        // transaction's lock is never swept; the swept holder's waiters lose their edges
        ("sweep_boundary", 50, 10, vec![Begin(vec![0]), Begin(vec![0]), Adv(3), Prep(1, vec![1]), Prep(2, vec![2]), Deliver(1, 0), Abort(1), Begin(vec![0]), Prep(3, vec![1, 2]), Sweep(3), Sweep(4), Prep(3, vec![1]), Deliver(0, 0)]),
        // max_concurrent refusal
        ("max_concurrent", 5, 2, vec![Begin(vec![0]), Begin(vec![0]), Begin(vec![0]), Abort(1), Begin(vec![0])]),
        // a prepare of a transaction the coordinator never began, and one after its own end
        ("prepare_without_pending", 4, 10, vec![Prep(77, vec![1]), Deliver(0, 0), Begin(vec![0]), Prep(1, vec![1]), Abort(1), Prep(1, vec![2]), Deliver(1, 0), Adv(5), Timeouts]),
        // expiry take-over, then the old holder ends: its stale handle finds nothing, graph still cleaned
        ("takeover_then_old_holder_ends", 3, 10, vec![Begin(vec![0]), Begin(vec![0]), Begin(vec![0]), Prep(1, vec![7]), Deliver(0, 0), Prep(3, vec![7]), Adv(3), Prep(2, vec![7]), Adv(1), Prep(2, vec![7]), Deliver(1, 0), Commit(1), Commit(2), Abort(3)]),
    ]
}

fn gen_coord_ops(r: &mut Rng, n: usize) -> (u64, usize, Vec<CoOp>) {
    let to = *r.pick(&[1u64, 2, 3, 5, 30]);
    let mc = if r.chance(1, 6) { 2 } else { 10 };
    let nkeys = 2 + r.below(3);
    let mut now = 0u64;
    let mut ops = Vec::new();
    for _ in 0..1 + r.below(4) {
        ops.push(CoOp::Begin(match r.below(8) { 0 => vec![], 1..=4 => vec![0], _ => vec![0, 1] }));
    }
    for _ in 0..n {
        // mostly a pending transaction, sometimes one that has ended, rarely an id the coordinator never issued
        let tx = match r.below(20) { 0 => 70 + r.below(2), 1..=3 => SYM_ENDED + r.below(8), _ => SYM_PENDING + r.below(8) };
        let sh = if r.chance(4, 5) { SYM_PENDING + r.below(2) } else { r.below(3) };
        let op = match r.below(100) {
            0..=9 => CoOp::Begin(match r.below(8) { 0 => vec![], 1..=4 => vec![0], _ => vec![0, 1] }),
            10..=35 => CoOp::Prep(tx, gen_keys(r, nkeys)),
            36..=63 => CoOp::Deliver(if r.chance(9, 10) { SYM_PENDING + r.below(8) } else { r.below(6) }, sh),
            64..=66 => CoOp::VoteNo(tx, sh),
            67..=74 => CoOp::Commit(tx),
            75..=77 => CoOp::Abort(tx),
            78..=79 => CoOp::CompleteCommit(tx),
            80..=81 => CoOp::CompleteAbort(tx),
            82..=83 => CoOp::Force(tx, r.chance(1, 2)),
            84..=85 => CoOp::Timeouts,
            86..=88 => CoOp::Recover,
            89..=92 => CoOp::Sweep((now + 2).saturating_sub(r.below(5))),
            93..=97 => { let d = r.below(4); now += d; CoOp::Adv(d) }
            _ => CoOp::SaveLoad(if r.chance(2, 3) { vec![SYM_PENDING + r.below(8)] } else { vec![] }),
        };
        ops.push(op);
    }
    (to, mc, ops)
}

// ------------------------------------------------------------------ untouched-API real-time stream

fn realtime_case(m: &mut Model, rep: &mut Report, r: &mut Rng) {
    // timeout 0 ms + 3 ms sleep = expired; timeout 1 h = live. Model ticks: 1 tick per sleep, timeouts 0 / 1000.
    let stream = "table.realtime";
    let zero = r.chance(2, 3);
    let lm = LockManager::with_default_timeout(if zero { Duration::ZERO } else { Duration::from_secs(3600) });
    let mto = if zero { 0 } else { 1000 };
    if m.ask(&format!("reset {mto} 0")) != "ok" { return; }
    let mut now = 10u64;
    let mut handles: Vec<u64> = Vec::new();
    let mut trace = Vec::new();
    for _ in 0..3 + r.below(4) {
        let tx = 1 + r.below(3);
        let ks: Vec<u64> = (0..1 + r.below(2)).map(|_| r.below(3)).collect();
        let keys: Vec<String> = ks.iter().map(|k| kname(*k)).collect();
        if r.chance(1, 2) {
            std::thread::sleep(Duration::from_millis(3));
            now += 1;
            rep.hit("realtime.sleep");
        }
        // only ask when the answer cannot depend on sub-tick timing: right after a sleep, or with the long timeout
        let res = lm.try_lock(tx, &keys);
        let imp = match res {
            Ok(h) => { handles.push(h); format!("ok {}", handles.len() - 1) }
            Err(c) => format!("conflict {c}"),
        };
        let line = format!("lock {now} {tx} {}", commas(&ks));
        trace.push(line.clone());
        let mo = m.ask(&line);
        let mo_res = mo.split(" | ").next().unwrap_or("").to_string();
        // a same-millisecond relock with timeout 0 is "not expired" in both (0 > 0 is false) — but the real
        // clock may tick between two calls without a sleep; such cases are skipped, not compared.
        if zero && imp != mo_res {
            rep.hit("realtime.skipped_subtick");
            return;
        }
        if !rep.compare(stream, || json!({"trace": trace}), &imp, &mo_res) { return; }
        std::thread::sleep(Duration::from_millis(if zero { 3 } else { 0 }));
        if zero { now += 1; }
    }
    let n = lm.cleanup_expired();
    let mo = m.ask(&format!("clean {now}"));
    rep.compare(stream, || json!({"trace": trace, "op": "clean"}), &n.to_string(), mo.split(" | ").next().unwrap_or(""));
    let key = trace.join(";");
    rep.case(stream, Some(&key));
}

/// Lock-order regression oracle for DistributedTxCoordinator.release_orphaned_locks/lock_order_deadlock_with_end_of_tx
/// (fixed in /repo aa0e56f6).  Every end-of-transaction site holds `pending.write()` while it takes the lock-table
/// locks (`locks.write()` inside release_by_handle_with_wait_cleanup); before the fix `release_orphaned_locks` held
/// `locks.write()` + `tx_locks.write()` while it took `pending.read()`, so a sweeping thread and an ending thread
/// blocked each other for ever.  Lean: OrderProps.coordinator_calls_never_stuck (current order),
/// sweep_old_deadlocks_with_end_of_tx_witness (old order).
///
/// OS threads on one coordinator (a: whole transaction lives ending at every end site, b: the sweep, c — hammer
/// only — every other call that takes `pending` or the lock-table locks); each publishes the call it is in and a
/// progress counter.  A watchdog declares a thread blocked when it is inside a call and its counter has not moved
/// for `WATCHDOG_MS`.  The class of the report is computed from the calls the blocked threads are in.  The threads
/// are detached: if they block each other they stay blocked until the process exits.
const WATCHDOG_MS: u64 = 1_500;
const SITE_NAMES: [&str; 14] = ["idle", "begin", "handle_prepare", "record_vote", "commit", "abort", "force_resolve", "complete_commit",
    "release_orphaned_locks", "cleanup_timeouts", "recover", "to_state", "lock_manager.cleanup_expired", "complete_abort"];
const SWEEP_SITE: u64 = 8;
fn is_end_site(s: u64) -> bool { matches!(s, 4 | 5 | 6 | 7 | 9 | 10 | 13) }

struct Probe { site: AtomicU64, done: AtomicU64 }
impl Probe {
    fn new() -> Arc<Probe> { Arc::new(Probe { site: AtomicU64::new(0), done: AtomicU64::new(0) }) }
    fn call<T>(&self, site: u64, f: impl FnOnce() -> T) -> T {
        self.site.store(site, Ordering::SeqCst);
        let r = f();
        self.site.store(0, Ordering::SeqCst);
        r
    }
}

/// one transaction life on `shards` shards (one key each), ended at the site chosen by `how`
fn probed_life(c: &DistributedTxCoordinator, p: &Probe, shards: usize, key_base: u64, how: u64) {
    let parts: Vec<usize> = (0..shards).collect();
    let Ok(tx) = p.call(1, || c.begin(&"n1".to_string(), &parts)) else { return; };
    let mut phase = None;
    for sh in 0..shards {
        let v = p.call(2, || c.handle_prepare(&prep(tx.tx_id, &[key_base + sh as u64], sh)));
        if let Ok(ph) = p.call(3, || c.record_vote(tx.tx_id, sh, v)) { phase = ph.or(phase); }
    }
    let prepared = phase == Some(TxPhase::Prepared);
    match how % 6 {
        0 | 1 => { if !prepared || p.call(4, || c.commit(tx.tx_id)).is_err() { let _ = p.call(5, || c.abort(tx.tx_id, "x")); } }
        2 => { let _ = p.call(5, || c.abort(tx.tx_id, "x")); }
        3 => { if p.call(6, || c.force_resolve(tx.tx_id, prepared)).is_err() { let _ = p.call(5, || c.abort(tx.tx_id, "x")); } }
        4 => {
            // recover() moves a Prepared all-yes transaction to Committing; complete_commit ends it
            p.call(10, || { let _ = c.recover(); });
            if p.call(7, || c.complete_commit(tx.tx_id)).is_err() { let _ = p.call(5, || c.abort(tx.tx_id, "x")); }
        }
        _ => { if p.call(13, || c.complete_abort(tx.tx_id)).is_err() { let _ = p.call(5, || c.abort(tx.tx_id, "x")); } }
    }
}

fn sweep_vs_end_lock_order(rep: &mut Report, name: &'static str, filler_locks: u64, shards: usize, with_third: bool, rounds: u64, budget_ms: u64) {
    let c = Arc::new(DistributedTxCoordinator::new(ConsensusManager::new(ConsensusConfig::default()), co_config(1_000_000)));
    // a large lock table makes every release_by_handle_with_wait_cleanup scan long, so `commit` holds
    // pending.write() across `shards` separate lock-table sections with wide gaps between them
    if filler_locks > 0 {
        let keys: Vec<String> = (0..filler_locks).map(|k| kname(1_000_000 + k)).collect();
        let _ = c.lock_manager().try_lock(u64::MAX - 7, &keys);
    }
    let stop = Arc::new(AtomicU64::new(0));
    let mut probes: Vec<(&'static str, Arc<Probe>)> = Vec::new();
    {
        let (c, p, stop) = (c.clone(), Probe::new(), stop.clone());
        probes.push(("lives", p.clone()));
        std::thread::spawn(move || {
            for i in 0..rounds {
                if stop.load(Ordering::Relaxed) != 0 { break; }
                probed_life(&c, &p, shards, (i % 4) * 64, if shards > 1 && !with_third { 0 } else { i });
                p.done.store(i + 1, Ordering::SeqCst);
            }
            p.done.store(u64::MAX, Ordering::SeqCst);
        });
    }
    {
        let (c, p, stop) = (c.clone(), Probe::new(), stop.clone());
        probes.push(("sweeper", p.clone()));
        std::thread::spawn(move || {
            for i in 0..rounds.saturating_mul(64) {
                if stop.load(Ordering::Relaxed) != 0 { break; }
                // partition start 0 sweeps nothing; a start in the future sweeps every lock of a non-pending owner
                // acquired so far (only when there is no filler table, which it would sweep away)
                let start = if filler_locks == 0 && i % 8 == 0 { now_ms() + 1 } else { 0 };
                let _ = p.call(SWEEP_SITE, || c.release_orphaned_locks(start));
                p.done.store(i + 1, Ordering::SeqCst);
            }
            p.done.store(u64::MAX, Ordering::SeqCst);
        });
    }
    if with_third {
        let (c, p, stop) = (c.clone(), Probe::new(), stop.clone());
        probes.push(("others", p.clone()));
        std::thread::spawn(move || {
            for i in 0..rounds.saturating_mul(64) {
                if stop.load(Ordering::Relaxed) != 0 { break; }
                match i % 5 {
                    0 => { let _ = p.call(9, || c.cleanup_timeouts()); }
                    1 => { p.call(10, || { let _ = c.recover(); }); }
                    2 => { p.call(11, || { let _ = c.to_state(); }); }
                    3 => { let _ = p.call(12, || c.lock_manager().cleanup_expired_with_wait_cleanup(c.wait_graph())); }
                    _ => { probed_life(&c, &p, 1, 900 + i % 3, 2); }
                }
                p.done.store(i + 1, Ordering::SeqCst);
            }
            p.done.store(u64::MAX, Ordering::SeqCst);
        });
    }
    let t0 = std::time::Instant::now();
    let mut last: Vec<(u64, std::time::Instant)> = probes.iter().map(|_| (0, std::time::Instant::now())).collect();
    let mut blocked: Vec<(usize, u64, u64)> = Vec::new(); // (thread, site, ms without progress)
    let mut confirm_at: Option<std::time::Instant> = None;
    loop {
        std::thread::sleep(Duration::from_millis(5));
        let mut finished = false;
        for (i, (_, p)) in probes.iter().enumerate() {
            let d = p.done.load(Ordering::SeqCst);
            if d == u64::MAX { if i == 0 { finished = true; } continue; }
            if d != last[i].0 { last[i] = (d, std::time::Instant::now()); }
        }
        if finished { break; }
        blocked = probes.iter().enumerate().filter_map(|(i, (_, p))| {
            let site = p.site.load(Ordering::SeqCst);
            let idle = last[i].1.elapsed().as_millis() as u64;
            (p.done.load(Ordering::SeqCst) != u64::MAX && site != 0 && idle > WATCHDOG_MS).then_some((i, site, idle))
        }).collect();
        // the threads of one deadlock pass the limit a few milliseconds apart: once the first is over it, keep
        // watching for another 400 ms so that the report names every blocked thread
        if !blocked.is_empty() {
            match confirm_at {
                None => { confirm_at = Some(std::time::Instant::now() + Duration::from_millis(400)); blocked.clear(); continue; }
                Some(t) if std::time::Instant::now() < t => { blocked.clear(); continue; }
                Some(_) => break,
            }
        }
        confirm_at = None;
        if t0.elapsed() > Duration::from_millis(budget_ms) { break; }
    }
    stop.store(1, Ordering::Relaxed);
    let stream = format!("threads.sweep_vs_end.{name}");
    rep.case(&stream, None);
    let progress: Vec<serde_json::Value> = probes.iter().enumerate().map(|(i, (n, p))| json!({"thread": n, "calls_completed": last[i].0.min(p.done.load(Ordering::SeqCst)),
        "inside": SITE_NAMES[p.site.load(Ordering::SeqCst) as usize]})).collect();
    if blocked.is_empty() {
        rep.hit(&format!("{stream}.no_block"));
        if rep.samples.len() < 6 { rep.sample(json!({"stream": stream, "filler_locks": filler_locks, "shards_per_tx": shards, "threads": progress, "watchdog_ms": WATCHDOG_MS})); }
        return;
    }
    rep.hit(&format!("{stream}.blocked"));
    let sites: BTreeSet<u64> = blocked.iter().map(|b| b.1).collect();
    let sweep_blocked = sites.contains(&SWEEP_SITE);
    let end_sites: Vec<u64> = sites.iter().copied().filter(|s| is_end_site(*s)).collect();
    let class = if sweep_blocked && !end_sites.is_empty() && sites.iter().all(|s| *s == SWEEP_SITE || is_end_site(*s)) {
        "DistributedTxCoordinator.release_orphaned_locks/lock_order_deadlock_with_end_of_tx".to_string()
    } else {
        let names: Vec<&str> = sites.iter().map(|s| SITE_NAMES[*s as usize]).collect();
        format!("DistributedTxCoordinator.{}/threads_blocked_inside_calls", names.join("+"))
    };
    rep.violation(&class,
        &format!("threads inside coordinator calls made no progress for more than {WATCHDOG_MS} ms (a transaction whose thread is blocked inside an end-of-transaction site never releases its locks): {}",
            blocked.iter().map(|(i, s, ms)| format!("thread {} inside {} for {} ms", probes[*i].0, SITE_NAMES[*s as usize], ms)).collect::<Vec<_>>().join("; ")),
        json!({"case": name, "coordinator": "fresh, wal: None, optimistic locking default", "filler_locks_held_by_foreign_tx": filler_locks,
            "thread_lives": format!("loop: begin({shards} shards); per shard handle_prepare(one key) + record_vote; end site by round (commit / abort / force_resolve / recover+complete_commit / complete_abort)"),
            "thread_sweeper": "loop: release_orphaned_locks(partition_start)",
            "thread_others": if with_third { "loop: cleanup_timeouts / recover / to_state / cleanup_expired_with_wait_cleanup / begin+prepare+abort" } else { "absent" },
            "threads": progress, "watchdog_ms": WATCHDOG_MS,
            "lean": "OrderProps.sweep_old_deadlocks_with_end_of_tx_witness (schedule [1,0,0]: commit takes pending.write, the sweep takes locks.write + tx_locks.write, then each waits for the other)"}));
}

// ------------------------------------------------------------------ the critical-section model at call granularity

/// `section.calls`: the model of Locks/SectionModel.lean (thread i runs transaction i: prepares over its shards, then
/// the end of the transaction; every call split into the steps another thread can interleave with) is tied to the
/// source at CALL granularity: a random order of whole calls on a real LockManager + WaitForGraph (frozen clock, the
/// clock moves between calls), each mirrored by `scall i now` = the thread's steps up to its next call boundary with
/// no other thread in between.  Compared after every call: lock table, tx index, both graph indexes, wait starts,
/// the set of ended transactions.  (Inside a call nothing can be observed from outside — no yield point — so the
/// step-level statements are Lean theorems and the step-level regression oracle is threads.prepare_vs_end.)
fn section_calls_case(m: &mut Model, rep: &mut Report, r: &mut Rng) {
    let stream = "section.calls";
    let to = 1 + r.below(3);
    let nth = 2 + r.below(3) as usize;
    let progs: Vec<Vec<Vec<u64>>> = (0..nth).map(|_| (0..1 + r.below(2)).map(|_| gen_keys(r, 3)).collect()).collect();
    let text = progs.iter().map(|th| th.iter().map(|ks| dotted(ks)).collect::<Vec<_>>().join(";")).collect::<Vec<_>>().join("/");
    let mut real = RealTable::new_hooked(to);
    let g = WaitForGraph::new();
    let init = format!("sinit 0 {to} {text}");
    if m.ask(&init) != "ok" { rep.disagree(stream, json!({"line": init}), "ok", "sinit refused"); return; }
    let mut next = vec![0usize; nth];
    let mut handles: Vec<Vec<u64>> = vec![Vec::new(); nth];
    let mut ended: BTreeSet<u64> = BTreeSet::new();
    let mut trace = vec![init];
    let (mut refused, mut granted) = (0, 0);
    loop {
        let live: Vec<usize> = (0..nth).filter(|i| !ended.contains(&(*i as u64))).collect();
        if live.is_empty() { break; }
        let i = *r.pick(&live);
        if r.chance(1, 3) { real.advance(r.below(3)); }
        let now = real.vnow;
        if next[i] < progs[i].len() {
            let keys: Vec<String> = progs[i][next[i]].iter().map(|k| kname(*k)).collect();
            next[i] += 1;
            match real.lm.try_lock_with_wait_tracking(i as u64, &keys, &g, None) {
                Ok(h) => { real.h_to_model(h); handles[i].push(h); granted += 1; rep.hit("section.calls.prepare.granted"); }
                Err(_) => { refused += 1; rep.hit("section.calls.prepare.refused"); }
            }
        } else {
            for h in &handles[i] { real.lm.release_by_handle_with_wait_cleanup(*h, &g); }
            g.remove_transaction(i as u64);
            ended.insert(i as u64);
            rep.hit("section.calls.end");
        }
        let line = format!("scall {i} {now}");
        trace.push(line.clone());
        let img = real.image();
        let Some(v) = view(&g) else { rep.disagree(stream, json!({"trace": trace}), "unparseable Debug", ""); return; };
        let mut gi = graph_img(&v, 0);
        if gi.ends_with(";P") { gi.push(' '); }
        let pcs: Vec<String> = (0..nth).map(|t| if ended.contains(&(t as u64)) { "done".to_string() } else { format!("prep{}", progs[t].len() - next[t]) }).collect();
        let imp = format!("ok | {} | {} | X {};G -;C {}", img.show(), gi, dotted(&ended.iter().copied().collect::<Vec<_>>()), pcs.join(","));
        let mo = m.ask(&line);
        if !rep.compare(stream, || json!({"trace": trace}), &imp, &mo) { return; }
    }
    let key = trace.join(";");
    rep.case(stream, if refused >= 1 && granted >= 1 { Some(&key) } else { None });
}

/// the two witness schedules of Locks/SectionProps.lean replayed on the driver, step by step: with the edges recorded
/// after the guards were dropped (`sinit 1`) the ended transaction 0 ends up as a holder; with the code as it is
/// (`sinit 0`) the blocker's release is refused while the preparer is between its scan and its last add_wait
fn section_witness(m: &mut Model, rep: &mut Report) {
    let stream = "section.witness";
    let sched = [0u64, 0, 0, 1, 0, 0, 0, 0, 1];
    for early in [1u64, 0] {
        let mut trace = vec![format!("sinit {early} 30 5/5")];
        let mut last = m.ask(&trace[0]);
        let mut refused_at = None;
        for (n, i) in sched.iter().enumerate() {
            let line = format!("sstep {i} 0");
            trace.push(line.clone());
            last = m.ask(&line);
            if last == "refused" { refused_at = Some(n); break; }
        }
        let (want, got) = if early == 1 {
            ("ok | L ;T 0:;D 30;N 0 | E 1:0;R 0:1;W 1=0;P  | X 0;G -;C done,adding0".to_string(), last)
        } else {
            ("refused at step 5 (A's release_by_handle section, B holds the guards)".to_string(), match refused_at { Some(5) => "refused at step 5 (A's release_by_handle section, B holds the guards)".to_string(), o => format!("refused at {o:?}: {last}") })
        };
        rep.compare(stream, || json!({"trace": trace}), &want, &got);
        rep.hit(if early == 1 { "section.witness.drop_guards_first.ended_holder_in_graph" } else { "section.witness.guards_held.release_refused" });
        rep.case(stream, Some(&format!("early{early}")));
    }
}

/// `sched.prepare_vs_end`: the same two calls under the deterministic scheduler (`nverif::sched`).  The coordinator
/// has no yield point of its own today, so without the proposed hook (/verif/proposed/C12-hook-wait-tracking-yield.diff:
/// `lock_manager.try_lock_wt.before_add_wait` reporting "guards held" / "guards released", …) the two calls run one after
/// the other in either order (distribution key sched.prepare_vs_end.no_yield_inside_call).  With the hook compiled in,
/// the schedule of SectionProps.drop_guards_first_leaves_ended_holder_witness is followed on the real code: the
/// preparer runs to its first `before_add_wait`; if the guards are reported released the ender runs all its ends, then
/// the preparer records its edges — a deterministic failing schedule (the executed trace is the failing input);
/// if they are reported held the ender is tried once and must block inside its release (`blocked` in the trace).
fn sched_prepare_vs_end(rep: &mut Report, r: &mut Rng, holders: usize) {
    const BEFORE_ADD: &str = "lock_manager.try_lock_wt.before_add_wait";
    const HOWS: [&str; 4] = ["commit", "abort", "force_resolve(commit)", "force_resolve(abort)"];
    let stream = "sched.prepare_vs_end";
    let c = Arc::new(DistributedTxCoordinator::new(ConsensusManager::new(ConsensusConfig::default()), co_config(1_000_000)));
    let keys: Vec<u64> = (0..holders as u64).collect();
    let mut holders_tx: Vec<(u64, u64)> = Vec::new();
    for j in 0..holders {
        let Ok(t) = c.begin(&"n1".to_string(), &[0]) else { return; };
        let v = c.handle_prepare(&prep(t.tx_id, &[keys[j]], j));
        if !matches!(v, PrepareVote::Yes { .. }) { return; }
        if !matches!(c.record_vote(t.tx_id, 0, v), Ok(Some(TxPhase::Prepared))) { return; }
        holders_tx.push((t.tx_id, r.below(4)));
    }
    let Ok(b) = c.begin(&"n1".to_string(), &[0]).map(|t| t.tx_id) else { return; };
    let preparer_first = r.chance(2, 3);
    let vote: Arc<std::sync::Mutex<String>> = Arc::new(std::sync::Mutex::new(String::new()));
    let ended_ok: Arc<std::sync::Mutex<Vec<bool>>> = Arc::new(std::sync::Mutex::new(Vec::new()));
    let t_prep: Box<dyn FnOnce() + Send> = {
        let (c, vote, keys) = (c.clone(), vote.clone(), keys.clone());
        Box::new(move || {
            tensor_store::verif::yield_point("pve.handle_prepare", "");
            let v = c.handle_prepare(&prep(b, &keys, 7));
            *vote.lock().unwrap() = match &v { PrepareVote::Yes { .. } => "Yes".to_string(), PrepareVote::Conflict { .. } => "Conflict".to_string(), _ => "No".to_string() };
            let _ = c.record_vote(b, 0, v);
        })
    };
    let t_end: Box<dyn FnOnce() + Send> = {
        let (c, ended_ok, hs) = (c.clone(), ended_ok.clone(), holders_tx.clone());
        Box::new(move || {
            for (tx, how) in hs {
                tensor_store::verif::yield_point("pve.end", "");
                let ok = match how { 0 => c.commit(tx).is_ok(), 1 => c.abort(tx, "sched").is_ok(), 2 => c.force_resolve(tx, true).is_ok(), _ => c.force_resolve(tx, false).is_ok() };
                ended_ok.lock().unwrap().push(ok);
            }
        })
    };
    let mut tried_under_guards = 0;
    let mut sr = r.fork("schedule");
    let trace = nverif::sched::run_threads(vec![t_prep, t_end], move |_, parked| {
        let pos = |t: usize| parked.iter().position(|p| p.0 == t);
        if let Some(p) = parked.iter().position(|p| p.0 == 0 && p.1 == BEFORE_ADD) {
            if parked[p].2 == "guards released" { return pos(1).unwrap_or(p); }
            // guards held: let the ender run (it passes its own harness-level yield, then must block inside its
            // release: a blocked thread is no longer in `parked`), then the preparer
            if tried_under_guards < 3 { tried_under_guards += 1; return pos(1).unwrap_or(p); }
            return p;
        }
        // outside the window: the chosen side goes first, later steps at random
        match (pos(0), pos(1)) {
            (Some(a), Some(e)) => if parked[a].1 == "thread.start" || parked[a].1 == "pve.handle_prepare" { if preparer_first { a } else { e } } else { sr.below(2) as usize },
            _ => 0,
        }
    });
    let inside: Vec<&nverif::sched::Step> = trace.iter().filter(|s| s.site.starts_with("lock_manager.")).collect();
    rep.hit(if inside.is_empty() { "sched.prepare_vs_end.no_yield_inside_call" } else { "sched.prepare_vs_end.yield_inside_call" });
    for s in &trace {
        if s.site == BEFORE_ADD { rep.hit(&format!("sched.prepare_vs_end.before_add_wait.{}", s.key.replace(' ', "_"))); }
        if s.thread == 0 && s.site == BEFORE_ADD && s.blocked.contains(&1) { rep.hit("sched.prepare_vs_end.release_blocked_by_section"); }
    }
    let g = c.wait_graph();
    let b_waits_for = g.waiting_for(b);
    let oks = ended_ok.lock().unwrap().clone();
    let mut leftovers = Vec::new();
    for (j, (a, how)) in holders_tx.iter().enumerate() {
        if !oks.get(j).copied().unwrap_or(false) { continue; }
        let (on, wf) = (g.waiting_on(*a), g.waiting_for(*a));
        if !on.is_empty() || !wf.is_empty() || b_waits_for.contains(a) {
            leftovers.push(json!({"holder": format!("A{}", j + 1), "ended_by": HOWS[*how as usize], "waiting_on(holder)": on.len(), "waiting_for(holder)": wf.len(), "holder in waiting_for(B)": b_waits_for.contains(a)}));
        }
    }
    if !leftovers.is_empty() {
        rep.violation("DistributedTxCoordinator/ended_tx_in_wait_graph_prepare_vs_end",
            "a transaction whose end returned while another transaction's conflicting prepare was running is still recorded in the wait-for graph after both calls returned (deterministic schedule)",
            json!({"stream": stream, "set_up": format!("A1..A{holders} each hold one key with a recorded Yes vote; B begun"), "thread_0": format!("handle_prepare(B, all {holders} keys) -> {}", vote.lock().unwrap()),
                "thread_1": holders_tx.iter().enumerate().map(|(j, (_, how))| format!("{}(A{})", HOWS[*how as usize], j + 1)).collect::<Vec<_>>(),
                "schedule": trace.iter().map(|s| format!("T{} from {}{}{}", s.thread, s.site, if s.key.is_empty() { String::new() } else { format!(" [{}]", s.key) }, if s.blocked.is_empty() { String::new() } else { format!(" (blocked: {:?})", s.blocked) })).collect::<Vec<_>>(),
                "ended_transactions_still_in_graph": leftovers,
                "lean": "SectionProps.drop_guards_first_leaves_ended_holder_witness"}));
    }
    if c.commit(b).is_err() { let _ = c.abort(b, "case over"); }
    if !g.is_empty() || c.lock_manager().active_lock_count() != 0 {
        rep.hit("sched.prepare_vs_end.leftovers_after_case");
    }
    let key = format!("{holders}:{preparer_first}:{:?}:{}", holders_tx.iter().map(|h| h.1).collect::<Vec<_>>(), trace.len());
    rep.case(stream, Some(&key));
}

// ------------------------------------------------------------------ a conflicting prepare against the end of its blockers (OS threads, aligned rounds)

/// `threads.prepare_vs_end.*`: the two calls whose overlap the clause "when a transaction commits / aborts … it no
/// longer appears as waiter or holder in the wait-for graph" quantifies over, and nothing else, in many short rounds
/// on ONE real coordinator.  A round: `holders` transactions A1..Ak each hold one key (prepared, vote recorded) and a
/// fresh transaction B is begun.  Then, started together through a spin flag (plus a per-round delay of a few hundred
/// nanoseconds on one side, so that the relative phase of the two calls sweeps the whole overlap),
///   preparer:  handle_prepare(B, [k1..kk])            — refused: one wait-for edge per live blocker
///   ender:     end(A1); …; end(Ak)                    — commit / abort / force_resolve(commit) / force_resolve(abort)
/// Oracle, evaluated when BOTH have returned and before B ends (B's own end would wipe its edges): no Aj whose end
/// returned Ok is a holder (waiting_on(Aj), or a member of waiting_for(B)) or a waiter (waiting_for(Aj)) any more.
/// `edges` and `reverse_edges` are read separately, so an edge present in only one index counts.  Then B ends and
/// the graph and the lock table must be empty.  Lean: Locks/SectionProps.lean (`ended_tx_absent_in_every_interleaving`;
/// the interleaving that breaks it once the edges are recorded outside the lock-table section is
/// `drop_guards_first_leaves_ended_holder_witness`).
/// Several blockers per prepare are the generic way to make the overlap long: the edges are recorded one blocker
/// after the other, so the end of a later blocker has the time of the earlier `add_wait` calls to run.
/// `lm_level`: the same round on a bare LockManager + WaitForGraph (try_lock_with_wait_tracking against
/// release_by_handle_with_wait_cleanup + remove_transaction, the model's `endTx` sequence) — shorter rounds.
/// Returns (rounds run, rounds in which the preparer was refused, rounds with a violation).
fn prepare_vs_end_race(rep: &mut Report, r: &mut Rng, name: &'static str, holders: usize, rounds: u64, budget_ms: u64, lm_level: bool, stop_after: u64) -> (u64, u64, u64) {
    const HOWS: [&str; 4] = ["commit", "abort", "force_resolve(commit)", "force_resolve(abort)"];
    let stream = format!("threads.prepare_vs_end.{name}");
    let c = Arc::new(DistributedTxCoordinator::new(ConsensusManager::new(ConsensusConfig::default()), co_config(1_000_000)));
    let lm = Arc::new(LockManager::new());
    let g = Arc::new(WaitForGraph::new());
    // round data for the ender: txs[j] = transaction id of Aj, slots[j] = end site (coordinator) / lock handle (lock manager)
    let slots: Arc<Vec<AtomicU64>> = Arc::new((0..holders).map(|_| AtomicU64::new(0)).collect());
    let txs: Arc<Vec<AtomicU64>> = Arc::new((0..holders).map(|_| AtomicU64::new(0)).collect());
    let ended_ok: Arc<Vec<AtomicU64>> = Arc::new((0..holders).map(|_| AtomicU64::new(0)).collect());
    let (go, done, delay, quit) = (Arc::new(AtomicU64::new(0)), Arc::new(AtomicU64::new(0)), Arc::new(AtomicU64::new(0)), Arc::new(AtomicU64::new(0)));
    let ender = {
        let (c, lm, g, slots, txs, ended_ok, go, done, delay, quit) = (c.clone(), lm.clone(), g.clone(), slots.clone(), txs.clone(), ended_ok.clone(), go.clone(), done.clone(), delay.clone(), quit.clone());
        std::thread::spawn(move || {
            let mut round = 0u64;
            loop {
                round += 1;
                let mut spins = 0u64;
                while go.load(Ordering::Acquire) != round {
                    if quit.load(Ordering::Relaxed) != 0 { return; }
                    spins += 1;
                    if spins % 4096 == 0 { std::thread::yield_now(); } else { std::hint::spin_loop(); }
                }
                for _ in 0..delay.load(Ordering::Relaxed) { std::hint::spin_loop(); }
                for j in 0..slots.len() {
                    let v = slots[j].load(Ordering::Relaxed);
                    let ok = if lm_level {
                        lm.release_by_handle_with_wait_cleanup(v, &g);
                        g.remove_transaction(txs[j].load(Ordering::Relaxed));
                        true
                    } else {
                        let tx = txs[j].load(Ordering::Relaxed);
                        match v { 0 => c.commit(tx).is_ok(), 1 => c.abort(tx, "race").is_ok(), 2 => c.force_resolve(tx, true).is_ok(), _ => c.force_resolve(tx, false).is_ok() }
                    };
                    ended_ok[j].store(ok as u64, Ordering::Relaxed);
                }
                done.store(round, Ordering::Release);
            }
        })
    };
    let t0 = std::time::Instant::now();
    let (mut ran, mut refused, mut bad_rounds) = (0u64, 0u64, 0u64);
    let mut next_tx = 1u64; // lock-manager level: transaction ids are ours
    let wg: &WaitForGraph = if lm_level { &g } else { c.wait_graph() };
    'rounds: for round in 1..=rounds {
        if t0.elapsed() > Duration::from_millis(budget_ms) { break; }
        let key_base = (round % 7) * 100;
        let keys: Vec<u64> = (0..holders as u64).map(|j| key_base + j).collect();
        let mut hows: Vec<u64> = Vec::with_capacity(holders);
        // ---- set-up (one thread): every Aj holds kj with a recorded Yes vote; B is begun
        for j in 0..holders {
            let how = r.below(4);
            hows.push(how);
            if lm_level {
                let tx = next_tx; next_tx += 1;
                let Ok(h) = lm.try_lock_with_wait_tracking(tx, &[kname(keys[j])], &g, None) else { rep.note(&format!("{stream}: set-up lock refused")); break 'rounds; };
                slots[j].store(h, Ordering::Relaxed);
                txs[j].store(tx, Ordering::Relaxed);
            } else {
                let Ok(t) = c.begin(&"n1".to_string(), &[0]) else { rep.note(&format!("{stream}: set-up begin refused")); break 'rounds; };
                let v = c.handle_prepare(&prep(t.tx_id, &[keys[j]], j));
                let yes = matches!(v, PrepareVote::Yes { .. });
                let ph = c.record_vote(t.tx_id, 0, v);
                if !yes || !matches!(ph, Ok(Some(TxPhase::Prepared))) { rep.note(&format!("{stream}: set-up prepare not granted / not Prepared ({ph:?})")); break 'rounds; }
                slots[j].store(how, Ordering::Relaxed);
                txs[j].store(t.tx_id, Ordering::Relaxed);
            }
        }
        let b = if lm_level { let t = next_tx; next_tx += 1; t } else { match c.begin(&"n1".to_string(), &[0]) { Ok(t) => t.tx_id, Err(_) => break } };
        let req = prep(b, &keys, 7);
        let key_names: Vec<String> = keys.iter().map(|k| kname(*k)).collect();
        // the phase between the two calls: one side starts up to ~2 µs late
        let d = r.below(1 + 40 * holders as u64);
        let (d_prep, d_end) = if r.below(2) == 0 { (d, 0) } else { (0, d) };
        delay.store(d_end, Ordering::Relaxed);
        // ---- the race
        go.store(round, Ordering::Release);
        for _ in 0..d_prep { std::hint::spin_loop(); }
        let (b_refused, b_handle, vote_text) = if lm_level {
            match lm.try_lock_with_wait_tracking(b, &key_names, &g, None) {
                Ok(h) => (false, Some(h), "Ok(handle)".to_string()),
                Err(w) => (true, None, format!("Err(WaitInfo {{ conflicting_keys: {} }})", w.conflicting_keys.len())),
            }
        } else {
            let v = c.handle_prepare(&req);
            let t = match &v { PrepareVote::Yes { .. } => "Yes".to_string(), PrepareVote::Conflict { .. } => "Conflict".to_string(), _ => "No".to_string() };
            let refused = !matches!(v, PrepareVote::Yes { .. });
            let _ = c.record_vote(b, 0, v);
            (refused, None, t)
        };
        let mut spins = 0u64;
        while done.load(Ordering::Acquire) != round {
            spins += 1;
            if spins % 4096 == 0 { std::thread::yield_now(); } else { std::hint::spin_loop(); }
        }
        ran += 1;
        if b_refused { refused += 1; }
        rep.hit(&format!("{stream}.prepare.{}", if b_refused { "refused" } else { "granted" }));
        // ---- oracle: both calls have returned, B is still live
        let b_waits_for = wg.waiting_for(b);
        let mut leftovers = Vec::new();
        for j in 0..holders {
            let a = txs[j].load(Ordering::Relaxed);
            if ended_ok[j].load(Ordering::Relaxed) == 0 { rep.hit(&format!("{stream}.end_refused")); continue; }
            let (on, wf) = (wg.waiting_on(a), wg.waiting_for(a));
            if !on.is_empty() || !wf.is_empty() || b_waits_for.contains(&a) {
                // transaction ids are time-based: name them by their role in the round
                let name = |t: u64| if t == b { "B".to_string() } else { (0..holders).find(|i| txs[*i].load(Ordering::Relaxed) == t).map_or("other".to_string(), |i| format!("A{}", i + 1)) };
                let mut on: Vec<String> = on.into_iter().map(name).collect(); on.sort();
                leftovers.push(json!({"holder": format!("A{}", j + 1), "key": kname(keys[j]), "ended_by": if lm_level { "release_by_handle_with_wait_cleanup + remove_transaction" } else { HOWS[hows[j] as usize] },
                    "waiting_on(holder)": on, "waiting_for(holder)": wf.len(), "holder in waiting_for(B)": b_waits_for.contains(&a)}));
            }
        }
        let had_leftovers = !leftovers.is_empty();
        if had_leftovers {
            bad_rounds += 1;
            rep.hit(&format!("{stream}.ended_tx_in_wait_graph"));
            rep.violation("DistributedTxCoordinator/ended_tx_in_wait_graph_prepare_vs_end",
                "a transaction whose end (commit / abort / force_resolve) returned while another transaction's conflicting prepare was running is still recorded in the wait-for graph after both calls returned",
                json!({"stream": stream, "round": round, "level": if lm_level { "LockManager + WaitForGraph" } else { "DistributedTxCoordinator" },
                    "set_up": format!("A1..A{holders} each hold one key ({}..{}) with a recorded Yes vote; B begun", kname(keys[0]), kname(keys[holders - 1])),
                    "thread_preparer": format!("handle_prepare(B, all {holders} keys) -> {vote_text}"),
                    "thread_ender": (0..holders).map(|j| format!("{}(A{})", if lm_level { "end" } else { HOWS[hows[j] as usize] }, j + 1)).collect::<Vec<_>>(),
                    "start_delay_spins": {"preparer": d_prep, "ender": d_end},
                    "ended_transactions_still_in_graph": leftovers, "edge_count": wg.edge_count(),
                    "lean": "SectionProps.drop_guards_first_leaves_ended_holder_witness: B scans (finds A), the lock-table guards go, A releases + leaves the graph + ends, B records B -> A"}));
        }
        // ---- B ends; nothing may be left
        if lm_level {
            if let Some(h) = b_handle { lm.release_by_handle_with_wait_cleanup(h, &g); }
            g.remove_transaction(b);
        } else if c.commit(b).is_err() {
            let _ = c.abort(b, "round over");
        }
        let locks_left = if lm_level { lm.active_lock_count() } else { c.lock_manager().active_lock_count() };
        if !wg.is_empty() || wg.edge_count() != 0 {
            rep.hit(&format!("{stream}.graph_not_empty_after_round"));
            if !had_leftovers {
                rep.violation("DistributedTxCoordinator/wait_graph_not_empty_after_prepare_vs_end", "every transaction of the round ended but the wait-for graph is not empty",
                    json!({"stream": stream, "round": round, "holders": holders, "edge_count": wg.edge_count(), "transaction_count": wg.transaction_count()}));
            }
            wg.clear();
        }
        if locks_left != 0 {
            rep.violation("DistributedTxCoordinator/locks_remain_after_prepare_vs_end", "every transaction of the round ended but locks remain", json!({"stream": stream, "round": round, "left": locks_left}));
            break;
        }
        if bad_rounds >= stop_after { break; }
    }
    quit.store(1, Ordering::Relaxed);
    let _ = ender.join();
    rep.case(&stream, None);
    rep.hit_n(&format!("{stream}.rounds"), ran);
    (ran, refused, bad_rounds)
}

/// stream 10: coordinator op scripts (begin / handle_prepare / record_vote / every end-of-transaction site /
/// cleanup_timeouts / recover / release_orphaned_locks / save-load) on the real coordinator vs the model
fn coord_ops_stream(m: &mut Model, rep: &mut Report, root: &Rng, scale: u64) {
    // ---- stream 10: coordinator op scripts (begin / handle_prepare / record_vote / every end-of-transaction site /
    //      cleanup_timeouts / recover / release_orphaned_locks / save-load) on the real coordinator vs the model
    for (name, to, mc, ops) in directed_coord_cases() {
        if !run_coord_case(m, rep, "coord.ops.directed", to, mc, &ops, true) {
            rep.note(&format!("directed coordinator case {name} disagreed"));
        }
        rep.hit(&format!("co.directed.{name}"));
    }
    let mut r = root.fork("coord.ops");
    let mut failed_co = 0;
    for _ in 0..700 * scale {
        let n = 6 + r.below(26) as usize;
        let (to, mc, ops) = gen_coord_ops(&mut r, n);
        if !run_coord_case(m, rep, "coord.ops", to, mc, &ops, true) {
            failed_co += 1;
            if failed_co == 1 {
                let mut scratch = Report::new("shrink");
                let small = shrink_list(&ops, &mut |cand: &[CoOp]| !run_coord_case(m, &mut scratch, "shrink", to, mc, cand, false));
                rep.sample(json!({"stream": "coord.ops", "shrunk_disagreement": small.iter().map(co_text).collect::<Vec<_>>(), "timeout_ms": to, "max_concurrent": mc}));
            }
            if failed_co >= 10 { break; }
        }
    }
    verif_clock::set_now_ms(None);
}

fn main() {
    let args = parse_args();
    let mut rep = Report::new(
        "seeded op sequences on the real LockManager / WaitForGraph / DeadlockDetector, compared with the Lean model after \
         every op (result + full lock-table image: locks, tx index, handles alpha-renamed, acquire time in virtual ticks); \
         exhaustive digraphs on <=5 transactions and random ones up to 8. Non-trivial: a table case with >=1 grant and >=1 \
         state change; a graph case with >=1 reported cycle; distinct = distinct canonical op text",
    );
    rep.expected_branches = [
        "table.lock.grant", "table.lock.grant_empty", "table.lock.conflict", "table.release", "table.release_by_handle.hit",
        "table.release_by_handle.miss", "table.cleanup.removed", "table.cleanup.none", "table.advance", "table.serialize_restore",
        "table.query.locked", "table.query.free", "table.inject_raw_image", "graph.add_wait", "graph.add_wait.self",
        "graph.remove_transaction", "graph.remove_wait", "graph.cyclic", "graph.acyclic", "detect.cascade_skipped",
        "detect.filtered_by_max_cycle_length", "detect.disabled", "detect.policy.youngest", "detect.policy.oldest",
        "detect.policy.lowest_priority", "detect.policy.most_locks", "tg.lockw.grant", "tg.lockw.conflict", "tg.end_tx",
        "tg.cleanw.removed", "tg.cleanw.none", "malformed.bad-op",
        "tg.end_tx.was_in_graph", "tg.end_tx.no_handle", "tg.end_tx.handle_loop_alone_leaves_tx_in_graph",
        "tg.old_sequence.waiter_without_handle.prefix.tx_left_in_graph", "tg.old_sequence.holder_taken_over.prefix.tx_left_in_graph",
        "tg.old_sequence.waiter_without_handle.current.tx_absent", "tg.old_sequence.holder_taken_over.current.tx_absent",
        "clock.boundary.elapsed_minus_timeout.minus1", "clock.boundary.elapsed_minus_timeout.zero", "clock.boundary.elapsed_minus_timeout.plus1",
        "clock.boundary.probe.query", "clock.boundary.probe.lock", "clock.boundary.probe.lockw", "clock.boundary.probe.clean", "clock.boundary.probe.cleanw",
        "clock.lock.elapsed_eq_timeout", "clock.lock.elapsed_eq_timeout_plus_1", "clock.lock.elapsed_eq_timeout_minus_1",
        "sched.lm.no_yield_inside_operations", "sched.coord.no_yield_inside_calls", "sched.coordinator.commit", "sched.coordinator.abort",
        "threads.coordinator.commit", "threads.coordinator.abort", "coord.A.waiter_registered", "coord.B.takeover_reached",
        "coord.B.elapsed_eq_timeout.conflict", "coord.C.both_timed_out",
        "co.begin", "co.begin.refused", "co.prepare.yes", "co.prepare.conflict", "co.prepare.takeover_of_expired", "co.prepare.yes.tx_not_pending",
        "co.vote.recorded", "co.vote.refused.notfound", "co.vote.refused.wrongphase", "co.vote.refused.duplicate", "co.vote.no",
        "co.end.commit", "co.end.abort", "co.end.complete_commit", "co.end.complete_abort", "co.end.force_resolve_commit", "co.end.force_resolve_abort",
        "co.end.force_resolve_commit.refused", "co.end.commit.wrongphase", "co.end.commit.notfound", "co.timeouts.some", "co.timeouts.none", "co.recover",
        "co.recover.to_committing", "co.recover.timed_out", "co.sweep.removed", "co.sweep.none", "co.sweep.kept_lock_of_pending_tx",
        "co.sweep.boundary_acquired_eq_start_kept", "co.saveload", "co.doom", "co.end.lock_left.vote_in_flight", "co.end.lock_left.vote_refused",
        "threads.sweep_vs_end.directed.no_block", "threads.sweep_vs_end.hammer.no_block", "threads.sweep_vs_end.hammer_big_table.no_block",
        "section.calls.prepare.granted", "section.calls.prepare.refused", "section.calls.end",
        "section.witness.drop_guards_first.ended_holder_in_graph", "section.witness.guards_held.release_refused",
        "threads.prepare_vs_end.k16.prepare.refused", "threads.prepare_vs_end.k4.prepare.refused", "threads.prepare_vs_end.k1.prepare.refused",
        "threads.prepare_vs_end.k1.prepare.granted", "threads.prepare_vs_end.lm.k16.prepare.refused", "threads.prepare_vs_end.lm.k1.prepare.refused",
        "threads.prepare_vs_end.lm.k1.prepare.granted",
        "tg.sweep.lock.grant_multi_key", "tg.sweep.lock.conflict", "tg.sweep.lock.takeover_of_lapsed_key", "tg.sweep.lock.partial_takeover",
        "tg.sweep.removed", "tg.sweep.none", "tg.sweep.swept_tx_holds_nothing", "tg.sweep.swept_tx_keeps_a_live_lock",
        "tg.sweep.swept_tx_had_a_key_taken_over", "tg.sweep.serialize_restore", "tg.sweep.directed.partial_takeover.ok",
        "tg.sweep.directed.holder_is_also_waiter_cycle.ok",
        "graph2.clear", "graph2.stale.removed", "graph2.stale.none", "graph2.stale.boundary_elapsed_eq_ttl_kept", "graph2.wcc.true", "graph2.wcc.false",
    ].iter().map(|s| s.to_string()).collect();
    let mut m = Model::spawn(&args.driver);
    let root = Rng::new(args.seed);
    let scale: u64 = if args.thorough { 10 } else { 1 };

    if args.extra.iter().any(|x| x == "--only-coord-ops") {
        coord_ops_stream(&mut m, &mut rep, &root, scale);
        sweep_vs_end_lock_order(&mut rep, "directed", 20_000, 16, false, 400, 4_000);
        sweep_vs_end_lock_order(&mut rep, "hammer", 0, 2, true, 200_000, 4_000);
        rep.write(&args.out);
        return;
    }
    if args.extra.iter().any(|x| x == "--only-prepare-vs-end") {
        // dev: hit rates of the aligned rounds (per 10 000 rounds), no early stop on the budget
        {
            let mut r = root.fork("sched.prepare_vs_end");
            let t = std::time::Instant::now();
            for i in 0..24 { sched_prepare_vs_end(&mut rep, &mut r, 1 + (i % 3) as usize); }
            for (k, v) in rep.distribution.iter().filter(|(k, _)| k.starts_with("sched.prepare_vs_end") || k.starts_with("violations.")) { eprintln!("[sched.prepare_vs_end] {k} = {v}"); }
            eprintln!("[sched.prepare_vs_end] 24 cases in {:.2}s", t.elapsed().as_secs_f64());
        }
        let mut r = root.fork("prepare_vs_end");
        for (name, k, lm_level) in [("coord.k1", 1usize, false), ("coord.k4", 4, false), ("coord.k16", 16, false), ("coord.k32", 32, false), ("lm.k1", 1, true), ("lm.k16", 16, true), ("lm.k32", 32, true)] {
            let t = std::time::Instant::now();
            let before = rep.distribution.get("violations.DistributedTxCoordinator/ended_tx_in_wait_graph_prepare_vs_end").copied().unwrap_or(0);
            let (ran, refused, _) = prepare_vs_end_race(&mut rep, &mut r, name, k, 10_000, 60_000, lm_level, u64::MAX);
            let after = rep.distribution.get("violations.DistributedTxCoordinator/ended_tx_in_wait_graph_prepare_vs_end").copied().unwrap_or(0);
            eprintln!("[prepare_vs_end] {name}: rounds {ran}, refused {refused}, rounds with an ended tx in the graph {}, {:.2}s", after - before, t.elapsed().as_secs_f64());
        }
        rep.write(&args.out);
        return;
    }
    let t_start = std::time::Instant::now();
    let lap = |name: &str| eprintln!("[corr_locks] {name} done at {:.1}s", t_start.elapsed().as_secs_f64());
    // ---- stream 00 (directed first, then random of the same shape): the expired-lock sweep against the wait-for graph
    //      after a take-over of some of the lapsed keys, frozen clock; oracle on the real objects after every sweep
    sweep_streams(&mut m, &mut rep, &root, scale);
    lap("table+graph.sweep");
    // ---- stream 0 (directed regression, runs first): one thread committing 16-shard transactions over a 20 000-entry
    //      lock table (commit holds pending.write() across 16 long lock-table sections) against one sweeping thread —
    //      the shortest history in which the sweep's lock order is the only thing preventing a deadlock
    sweep_vs_end_lock_order(&mut rep, "directed", 20_000, 16, false, if args.thorough { 1_500 } else { 300 }, if args.thorough { 8_000 } else { 3_000 });
    lap("threads.sweep_vs_end.directed");
    // ---- stream 0b (directed, runs early): a conflicting prepare against the end of its blockers, aligned rounds of
    //      exactly those two calls on the real coordinator (16 / 4 / 1 blockers per prepare) and on a bare
    //      LockManager + WaitForGraph; oracle after both returned: no ended transaction is a waiter or a holder
    {
        let mut r = root.fork("prepare_vs_end");
        let sc = if args.thorough { 10 } else { 1 };
        for (name, k, lm_level, rounds, budget) in [("k16", 16usize, false, 1_500u64, 1_500u64), ("k4", 4, false, 1_500, 800), ("k1", 1, false, 4_000, 800),
                                                   ("lm.k16", 16, true, 2_000, 800), ("lm.k1", 1, true, 4_000, 400)] {
            let (ran, refused, bad) = prepare_vs_end_race(&mut rep, &mut r, name, k, rounds * sc, budget * sc, lm_level, 3);
            if rep.samples.len() < 8 {
                rep.sample(json!({"stream": format!("threads.prepare_vs_end.{name}"), "blockers_per_prepare": k, "rounds": ran, "prepare_refused": refused, "rounds_with_an_ended_tx_in_the_graph": bad}));
            }
        }
    }
    {
        let mut r = root.fork("sched.prepare_vs_end");
        for i in 0..(if args.thorough { 120 } else { 24 }) {
            sched_prepare_vs_end(&mut rep, &mut r, 1 + (i % 3) as usize);
        }
    }
    lap("threads.prepare_vs_end");
    // ---- stream 1: lock-table op sequences (virtual clock), with shrinking of a disagreement
    let mut r = root.fork("table");
    let mut failed_cases = 0;
    for c in 0..2500 * scale {
        let n = 4 + r.below(24) as usize;
        let (to, ops) = gen_table_ops(&mut r, n, true);
        let ok = run_table_case(&mut m, &mut rep, "table.ops", to, &ops, true);
        if !ok {
            failed_cases += 1;
            if failed_cases == 1 {
                let mut scratch = Report::new("shrink");
                let small = shrink_list(&ops, &mut |cand: &[Op]| !run_table_case(&mut m, &mut scratch, "shrink", to, cand, false));
                rep.sample(json!({"stream": "table.ops", "shrunk_disagreement": small.iter().map(op_text).collect::<Vec<_>>(), "timeout_ticks": to}));
                for v in scratch.violations.iter().take(3) { rep.violations.push(v.clone()); }
            }
            if failed_cases >= 40 || !rep.violations.is_empty() { break; }
            let _ = c;
        }
        if rep.samples.len() < 2 {
            rep.sample(json!({"stream": "table.ops", "timeout_ticks": to, "ops": ops.iter().map(op_text).collect::<Vec<_>>()}));
        }
    }

    lap("table");
    // ---- stream 1b: the same generator on the FROZEN millisecond clock (hook): timeouts 0..5 ms, advances of
    //      0..4 ms, so elapsed == timeout and timeout ± 1 occur constantly; plus the directed boundary matrix
    let mut r = root.fork("table.clock");
    let mut failed_clock = 0;
    for _ in 0..1500 * scale {
        let n = 4 + r.below(24) as usize;
        let (to, ops) = gen_table_ops(&mut r, n, true);
        if !run_table_case_on(&mut m, &mut rep, "table.clock", to, &ops, true, true) {
            failed_clock += 1;
            if failed_clock == 1 {
                let mut scratch = Report::new("shrink");
                let small = shrink_list(&ops, &mut |cand: &[Op]| !run_table_case_on(&mut m, &mut scratch, "shrink", to, cand, false, true));
                rep.sample(json!({"stream": "table.clock", "shrunk_disagreement": small.iter().map(op_text).collect::<Vec<_>>(), "timeout_ms": to}));
                for v in scratch.violations.iter().take(3) { rep.violations.push(v.clone()); }
            }
            if failed_clock >= 20 { break; }
        }
    }
    clock_boundary(&mut m, &mut rep);
    verif_clock::set_now_ms(None);
    lap("table.clock");
    // ---- stream 2: malformed protocol lines must be refused and leave the model state alone
    let mut r = root.fork("malformed");
    {
        let (to, ops) = gen_table_ops(&mut r, 8, false);
        run_table_case(&mut m, &mut rep, "table.ops", to, &ops, true);
        let before = m.ask("sr");
        let garbage = ["", "lock", "lock x 1 1", "lock 1 1", "lock 1 1 1,,2", "rel", "rel -1", "relh 1.5", "clean now", "inject - -", "inject 1:2 - 3",
            "gadd 1 2", "gadd a 1 2 -", "grm", "grmw 1", "gcfg 1 sideways 3 3 none", "gcycles 1;2", "gdetect 1:2:3", "xcycles", "frobnicate 1 2 3", "lockw 1 1 1 1", "q 1"];
        for gline in garbage.iter() {
            let a = m.ask(gline);
            rep.hit(&format!("malformed.{a}"));
            rep.compare("malformed", || json!({"line": gline}), "bad-op", &a);
            rep.case("malformed", None);
        }
        for _ in 0..200 * scale {
            let n = r.below(20) as usize;
            let s: String = (0..n).map(|_| *r.pick(&['l', 'o', 'c', 'k', ' ', '1', ',', ':', '-', 'g', 'x', '.', ';', 'r'])).collect();
            let a = m.ask(&s);
            // random text may by chance be a well-formed op only if it starts with a known verb and parses; none of
            // the verbs is reachable from this alphabet with correct arity except "lock"/"rel"-like; accept either
            // bad-op or a well-formed answer but require the state to be printable afterwards.
            rep.hit(if a == "bad-op" { "malformed.bad-op" } else { "malformed.accepted_wellformed" });
            rep.case("malformed", None);
        }
        let _ = before;
    }

    lap("malformed");
    // ---- stream 3: untouched-API real-time cases
    let mut r = root.fork("realtime");
    for _ in 0..60 * scale {
        realtime_case(&mut m, &mut rep, &mut r);
    }

    lap("realtime");
    // ---- stream 4: every digraph on <= 5 transactions
    for n in 2..=4 {
        exhaustive_graphs(&mut m, &mut rep, n, 1);
    }
    let stride5 = if args.thorough || args.extra.iter().any(|x| x == "--all5") { 1 } else { 7 };
    exhaustive_graphs(&mut m, &mut rep, 5, stride5);

    lap("exhaustive");
    // ---- stream 5: random graph op sequences up to 8 transactions
    let mut r = root.fork("graph");
    for c in 0..1500 * scale {
        random_graph_case(&mut m, &mut rep, &mut r, c);
    }

    let mut r = root.fork("graph.ops2");
    for _ in 0..400 * scale {
        graph_ops2_case(&mut m, &mut rep, &mut r);
    }
    // would_create_cycle on every digraph on 4 transactions, every (waiter, holder) pair, against the model
    {
        let n = 4u64;
        let pairs: Vec<(u64, u64)> = (1..=n).flat_map(|a| (1..=n).filter(move |b| *b != a).map(move |b| (a, b))).collect();
        for code in 0u64..(1 << pairs.len()) {
            let g = WaitForGraph::new();
            let edge_list: Vec<(u64, u64)> = pairs.iter().enumerate().filter(|(i, _)| code >> i & 1 == 1).map(|(_, e)| *e).collect();
            for (a, b) in &edge_list { g.add_wait(*a, *b, None); }
            let eset: BTreeSet<(u64, u64)> = edge_list.iter().copied().collect();
            let Some(v) = view(&g) else { break; };
            let mut any = false;
            for w in 1..=n { for h in 1..=n {
                let ans = g.would_create_cycle(w, h);
                any |= ans && w != h;
                if ans != (w == h || oracle_reach(&eset, h, w)) {
                    rep.violation("WaitForGraph.would_create_cycle/wrong_answer", "would_create_cycle disagrees with reachability holder ->* waiter", json!({"edges": edge_list, "waiter": w, "holder": h, "got": ans}));
                }
                if (code + w * 4 + h) % 7 == 0 || args.thorough {
                    let mo = m.ask(&format!("xwcc {w} {h} {}", show_adj(&v.edges)));
                    rep.compare("graph.wcc.exhaustive.n4", || json!({"edges": edge_list, "waiter": w, "holder": h}), &ans.to_string(), &mo);
                }
            } }
            let key = format!("{code}");
            rep.case("graph.wcc.exhaustive.n4", if any { Some(&key) } else { None });
        }
    }
    lap("graph.random");
    // ---- stream 6: lock manager + wait graph
    let mut r = root.fork("table+graph");
    for _ in 0..1500 * scale {
        wait_variant_case(&mut m, &mut rep, &mut r);
    }

    old_sequence_regression(&mut m, &mut rep);
    verif_clock::set_now_ms(None);
    lap("table+graph");
    // ---- stream 6a: the critical-section model at call granularity + its witness schedules
    section_witness(&mut m, &mut rep);
    let mut r = root.fork("section.calls");
    for _ in 0..600 * scale {
        section_calls_case(&mut m, &mut rep, &mut r);
    }
    verif_clock::set_now_ms(None);
    lap("section.calls");
    // ---- stream 6b: real threads under the deterministic scheduler, LockManager operations
    let mut r = root.fork("sched.lm");
    for _ in 0..120 * scale {
        sched_lockmanager_case(&mut m, &mut rep, &mut r);
    }
    verif_clock::set_now_ms(None);
    lap("sched.lockmanager");
    // ---- stream 7: real threads
    let r = root.fork("threads");
    for (i, t) in [2usize, 3, 4, 6].iter().enumerate() {
        thread_hammer(&mut rep, &r.fork(&format!("run{i}")), *t, if args.thorough { 60_000 } else { 8_000 }, 2 + i);
    }

    let r = root.fork("graph_hammer");
    for (i, t) in [2usize, 4].iter().enumerate() {
        graph_thread_hammer(&mut rep, &r.fork(&format!("run{i}")), *t, if args.thorough { 400 } else { 60 });
    }
    graph_pair_race(&mut rep, if args.thorough { 200_000 } else { 20_000 });
    lap("threads");

    // ---- stream 8: the real coordinator (oracle only): ended transactions vs locks and wait-for graph
    let mut r = root.fork("coord");
    coordinator_scenarios(&mut rep, &mut r, 200 * scale);
    lap("coord");
    // ---- stream 9: 2..6 threads of whole transaction lives on one coordinator — scheduled (deterministic,
    //      operation-level) and free-running (OS threads)
    let mut r = root.fork("coord.threads");
    for i in 0..40 * scale {
        let t = 2 + (i % 5) as usize;
        coordinator_threads(&mut rep, &mut r, t, 3, true);
    }
    lap("sched.coordinator");
    for i in 0..(if args.thorough { 300 } else { 40 }) {
        let t = 2 + (i % 5) as usize;
        coordinator_threads(&mut rep, &mut r, t, if args.thorough { 60 } else { 25 }, false);
    }
    lap("threads.coordinator");
    coord_ops_stream(&mut m, &mut rep, &root, scale);
    lap("coord.ops");
    sweep_vs_end_lock_order(&mut rep, "hammer", 0, 2, true, if args.thorough { 400_000 } else { 40_000 }, if args.thorough { 10_000 } else { 2_500 });
    sweep_vs_end_lock_order(&mut rep, "hammer_big_table", 5_000, 4, true, if args.thorough { 40_000 } else { 4_000 }, if args.thorough { 6_000 } else { 1_500 });
    lap("threads.sweep_vs_end");
    rep.note("lock-table time: (a) table.ops — a virtual tick clock realised through the public serialize/restore path (acquired_at_ms shifted) on the wall clock; (b) table.clock*, sched.*, coord B — the frozen millisecond clock of the hook tensor_chain::distributed_tx::verif_clock (/repo 654184dd): KeyLock::is_expired is `elapsed > timeout` (not expired at elapsed == timeout), mirrored by the model and compared at timeout-1 / timeout / timeout+1 through every expiry-dependent operation");
    rep.note("DistributedTransaction::is_timed_out (coordinator-level transaction timeout) reads SystemTime directly and is not covered by the clock hook; scenario C sleeps 45 ms against a 20 ms prepare timeout");
    rep.note("iteration order of the private HashMap/HashSet of WaitForGraph is read from its Debug output and passed to the model as an explicit input");
    rep.note("threads: LockManager and DistributedTxCoordinator never call TensorStore, so nverif::sched finds no yield point inside their operations (distribution keys sched.lm.no_yield_inside_operations / sched.coord.no_yield_inside_calls); sched.* therefore yields BETWEEN operations: deterministic operation-level interleavings of real threads whose linearisation is replayed on the model (sched.lockmanager) or judged by the property oracle (sched.coordinator). Every mutating LockManager operation takes locks.write() then tx_locks.write() before its first read and releases both after its last write; readers (is_locked, lock_holder, keys_for_transaction, lock_count_for_transaction) take one lock, to_serializable both in the same order: each operation is one critical section, so the sequential theorems apply per linearisation. Races inside operations are left to the OS-thread hammers threads.hammer (LockManager) and threads.coordinator (whole transaction lives).");
    rep.note("WaitForGraph operations are NOT single critical sections (edges, reverse_edges, wait_started, priorities are separate RwLocks taken one after the other). In the coordinator add_wait runs only inside the lock-table critical section and a transaction's calls are ordered; threads.graph_hammer drives the graph without that discipline and reports reverse-index divergence at quiescence as an observation");
    rep.note("lock order (threads.sweep_vs_end.*): OS threads on one real coordinator, every thread publishes the call it is in and a progress counter; a thread inside a call without progress for 1500 ms is reported as a violation whose class is computed from the calls the blocked threads are in (the sweep + end-of-transaction sites only: DistributedTxCoordinator.release_orphaned_locks/lock_order_deadlock_with_end_of_tx, fixed in /repo aa0e56f6). The acquisition order itself cannot be observed (private RwLock fields, no yield point inside the coordinator); the Lean lock-order model (OrderModel.lean) is a transcription of the source");
    rep.note("prepare against end (threads.prepare_vs_end.*): aligned rounds of exactly two racing calls on one real coordinator — handle_prepare(B, keys held by A1..Ak) against end(A1);..;end(Ak) (commit / abort / force_resolve) — judged after both returned and before B ends: no Aj whose end returned Ok is in waiting_on / waiting_for / waiting_for(B). The window between 'conflict found' and 'edge recorded' cannot be scheduled from outside (no yield point inside try_lock_with_wait_tracking; proposed hook: /verif/proposed/C12-hook-wait-tracking-yield.diff); several blockers per prepare make the overlap long (the edges are recorded one blocker after the other). Measured with the edges recorded AFTER the lock-table guards were dropped (scratch tree): rounds with an ended transaction in the graph per 10 000 rounds — coordinator k=1: 1..8, k=4: 700..900, k=16: 4000..4200, k=32: 5200..5600; lock manager k=1: 0..2, k=16: 2200..2500, k=32: 2800..3100; unchanged tree: 0 in every configuration. Lean: Locks/SectionModel.lean + SectionProps.lean (every interleaving, any number of threads)");
    rep.write(&args.out);
}
