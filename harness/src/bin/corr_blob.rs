//! C19 correspondence: the real async `tensor_blob::BlobStore` (current-thread tokio runtime,
//! small chunk sizes) vs the Lean blob model, plus implementation-level oracles for every clause
//! of the property, plus an oracle-only real-thread stream.
use nverif::*;
use serde_json::{json, Value};
use std::collections::{BTreeMap, BTreeSet, HashMap};
use std::sync::{Arc, Barrier};
use std::time::{Duration, SystemTime, UNIX_EPOCH};
use nverif::sched::run_threads;
use std::sync::Mutex;
use tensor_blob::{
    check_chunks_exist, compute_hash, find_orphaned_chunks, verify_chunk, BlobConfig, BlobError, BlobReader, BlobStore, BlobWriter,
    Chunker, GarbageCollector, GcConfig, MetadataUpdates, PutOptions,
};
use tensor_store::{ScalarValue, TensorStore, TensorValue};

const LT: i64 = 1_000_000; // one logical tick, in "seconds" of the `_created` field
const CHUNK_PREFIX: &str = "_blob:chunk:";
const META_PREFIX: &str = "_blob:meta:";

#[derive(Clone, Debug)]
enum Op {
    Put(Vec<u8>),
    Stream(Vec<Vec<u8>>),
    Abandon(Vec<Vec<u8>>),
    WOpen(u32),
    WWrite(u32, Vec<u8>),
    WFinish(u32),
    WDrop(u32),
    Get(u32),
    Delete(u32),
    Verify(u32),
    /// collect records created at least `back` ticks ago; `age` only shapes the (now, minAge) pair
    Gc { back: u64, age: u64 },
    /// min_age larger than the clock: `saturating_sub` branch, nothing is old enough
    GcSat,
    FullGc,
    Repair,
    Corrupt { sel: u32, data: Vec<u8> },
    DropChunk { sel: u32 },
    // ---- queries and the streaming reader
    Exists(u32),
    Stats,
    /// verify_chunk on the sel-th stored chunk (content order) or, past the end, on a key nobody stored
    VChunk { sel: u32 },
    CExist(u32),
    Orphans,
    /// a metadata update that must leave the chunk list alone (kind: set_meta, tag, untag, link, unlink, rename, retype)
    Touch(u32, u8),
    /// gc_cycle with batch_size `b` (below the chunk count: the cycle sees an arbitrary part of the scan)
    GcBatch { back: u64, b: usize },
    /// the background task: start(), wait for a tick of the interval, shutdown()
    BgGc { back: u64 },
    ROpen(u32, u32),
    RNext(u32),
    RRead(u32, usize),
    RAll(u32),
    RVerify(u32),
    RDrop(u32),
}

fn pieces_txt(ps: &[Vec<u8>]) -> String {
    if ps.is_empty() {
        ".".into()
    } else {
        ps.iter().map(|p| hex(p)).collect::<Vec<_>>().join(",")
    }
}

fn op_json(op: &Op) -> Value {
    match op {
        Op::Put(d) => json!({"put": hex(d)}),
        Op::Stream(p) => json!({"stream": pieces_txt(p)}),
        Op::Abandon(p) => json!({"abandon": pieces_txt(p)}),
        Op::WOpen(w) => json!({"wopen": w}),
        Op::WWrite(w, d) => json!({"wwrite": w, "data": hex(d)}),
        Op::WFinish(w) => json!({"wfinish": w}),
        Op::WDrop(w) => json!({"wdrop": w}),
        Op::Get(a) => json!({"get": a}),
        Op::Delete(a) => json!({"delete": a}),
        Op::Verify(a) => json!({"verify": a}),
        Op::Gc { back, age } => json!({"gc_back": back, "age": age}),
        Op::GcSat => json!("gc_saturating"),
        Op::FullGc => json!("full_gc"),
        Op::Repair => json!("repair"),
        Op::Corrupt { sel, data } => json!({"corrupt": sel, "data": hex(data)}),
        Op::DropChunk { sel } => json!({"drop_chunk": sel}),
        Op::Exists(a) => json!({"exists": a}),
        Op::Stats => json!("stats"),
        Op::VChunk { sel } => json!({"verify_chunk": sel}),
        Op::CExist(a) => json!({"check_chunks_exist": a}),
        Op::Orphans => json!("find_orphaned_chunks"),
        Op::Touch(a, k) => json!({"touch": a, "kind": k}),
        Op::GcBatch { back, b } => json!({"gc_back": back, "batch_size": b}),
        Op::BgGc { back } => json!({"background_gc_back": back}),
        Op::ROpen(r, a) => json!({"ropen": r, "art": a}),
        Op::RNext(r) => json!({"rnext": r}),
        Op::RRead(r, n) => json!({"rread": r, "buf": n}),
        Op::RAll(r) => json!({"rall": r}),
        Op::RVerify(r) => json!({"rverify": r}),
        Op::RDrop(r) => json!({"rdrop": r}),
    }
}

fn ops_json(chunk: usize, max: Option<usize>, ops: &[Op]) -> Value {
    json!({"chunk_size": chunk, "max_size": max, "ops": ops.iter().map(op_json).collect::<Vec<_>>()})
}

fn err_class(e: &BlobError) -> &'static str {
    match e {
        BlobError::NotFound(_) => "err not_found",
        BlobError::ChunkMissing(_) => "err chunk_missing",
        BlobError::EmptyData => "err empty_data",
        // by VARIANT, never by message wording (BUILDING.md "Error canonicalisation", rule 1): on a
        // constructed in-memory `BlobStore` the only producer of `InvalidConfig` is the max_artifact_size
        // refusal of `put` (tensor_blob/src/lib.rs:150; config validation happens in `new`)
        BlobError::InvalidConfig(_) => "err too_large",
        _ => "err other",
    }
}

fn now_secs() -> u64 {
    SystemTime::now().duration_since(UNIX_EPOCH).map(|d| d.as_secs()).unwrap_or(0)
}

fn t_int(t: &tensor_store::TensorData, f: &str) -> Option<i64> {
    match t.get(f) {
        Some(TensorValue::Scalar(ScalarValue::Int(i))) => Some(*i),
        _ => None,
    }
}
fn t_bytes(t: &tensor_store::TensorData, f: &str) -> Option<Vec<u8>> {
    match t.get(f) {
        Some(TensorValue::Scalar(ScalarValue::Bytes(b))) => Some(b.clone()),
        _ => None,
    }
}
fn t_ptrs(t: &tensor_store::TensorData, f: &str) -> Option<Vec<String>> {
    match t.get(f) {
        Some(TensorValue::Pointers(p)) => Some(p.clone()),
        _ => None,
    }
}

/// occurrences of every chunk key in the live metadata records (read from the underlying store)
fn occurrences(ts: &TensorStore) -> BTreeMap<String, i64> {
    let mut m = BTreeMap::new();
    for mk in ts.scan(META_PREFIX) {
        if let Ok(t) = ts.get(&mk) {
            for k in t_ptrs(&t, "_chunks").unwrap_or_default() {
                *m.entry(k).or_insert(0) += 1;
            }
        }
    }
    m
}

struct OpenWriter {
    w: BlobWriter,
    bytes: Vec<u8>,
}

/// The real store plus everything the oracles need to remember.
struct Real {
    /// one current-thread runtime for the whole run (it holds no state of the store)
    rt: &'static tokio::runtime::Runtime,
    ts: TensorStore,
    blob: BlobStore,
    chunk: usize,
    #[allow(dead_code)]
    max: Option<usize>,
    ids: Vec<String>,
    /// chunk key -> content at first sight
    known: HashMap<String, Vec<u8>>,
    writers: HashMap<u32, OpenWriter>,
    readers: HashMap<u32, BlobReader>,
    /// alpha index -> bytes the artifact must read back as (None once deleted)
    expect: BTreeMap<usize, Option<Vec<u8>>>,
    damaged: bool,
    /// a writer was dropped / is open: refs may exceed occurrences
    slack: bool,
    /// Reference accounting of the sequential streams (one thread: there is no concurrent refcount update).
    /// demand(k) = listings of k by finished artifacts + occurrences of k in the chunk lists of OPEN writers;
    /// deficit(k) = demand(k) - `_refs` (0 for a missing record), when positive.
    /// `excused[k] = (e, site)`: the part of the deficit that `site` (full_gc | repair) caused ITSELF by removing /
    /// resetting the record while a writer that had written k was open — the stated cause of the known findings
    /// tensor_blob.full_gc/live_chunk_collected and tensor_blob.repair/live_chunk_collected; never more than the
    /// open writers' holds at that moment, never more than the current deficit.
    excused: BTreeMap<String, (i64, &'static str)>,
    /// the part of the deficit that was reported under a class of its own (not excused by a known finding)
    unexcused: BTreeMap<String, i64>,
    /// long-lived-store streams (`aging`): `_created` stays the wall-clock second the store wrote; the image shows it
    /// relative to this base second (model clock = second - base + CLOCK0)
    epoch: Option<u64>,
}

/// model clock of the first second of an `aging` case
const CLOCK0: u64 = 1000;

fn cfg(chunk: usize, max: Option<usize>) -> BlobConfig {
    let mut c = BlobConfig::new().with_chunk_size(chunk).with_gc_batch_size(1 << 20);
    if let Some(m) = max {
        c = c.with_max_artifact_size(m);
    }
    c
}

impl Real {
    fn new(chunk: usize, max: Option<usize>) -> Real {
        Real::with_config(chunk, max, cfg(chunk, max))
    }
    fn with_config(chunk: usize, max: Option<usize>, conf: BlobConfig) -> Real {
        static RT: std::sync::OnceLock<tokio::runtime::Runtime> = std::sync::OnceLock::new();
        let rt = RT.get_or_init(|| tokio::runtime::Builder::new_current_thread().enable_all().build().unwrap());
        let ts = TensorStore::new();
        let blob = bo(BlobStore::new(ts.clone(), conf)).unwrap();
        Real {
            rt,
            ts,
            blob,
            chunk,
            max,
            ids: vec![],
            known: HashMap::new(),
            writers: HashMap::new(),
            readers: HashMap::new(),
            expect: BTreeMap::new(),
            damaged: false,
            slack: false,
            excused: BTreeMap::new(),
            unexcused: BTreeMap::new(),
            epoch: None,
        }
    }
    fn uuid_of(&self, a: u32) -> String {
        self.ids.get(a as usize).cloned().unwrap_or_else(|| format!("00000000-0000-4000-8000-{:012}", a))
    }
    fn alpha(&mut self, id: &str) -> usize {
        if let Some(i) = self.ids.iter().position(|x| x == id) {
            i
        } else {
            self.ids.push(id.to_string());
            self.ids.len() - 1
        }
    }
    /// logical stamps: every record still carrying a wall-clock `_created` gets `t` ticks
    fn restamp(&mut self, t: u64, rep: &mut Report, input: &dyn Fn() -> Value) {
        for k in self.ts.scan(CHUNK_PREFIX) {
            if let Ok(mut rec) = self.ts.get(&k) {
                if self.epoch.is_none() && t_int(&rec, "_created").unwrap_or(0) > 1_500_000_000 {
                    rec.set("_created", TensorValue::Scalar(ScalarValue::Int(t as i64 * LT)));
                    let _ = self.ts.put(&k, rec.clone());
                }
                if !self.known.contains_key(&k) {
                    let d = t_bytes(&rec, "_data").unwrap_or_default();
                    if format!("{CHUNK_PREFIX}{}", compute_hash(&d)) != k {
                        vio(rep, "tensor_blob.store_chunk/key_not_content_hash", "a new chunk record is not keyed by the hash of its data", input());
                    }
                    self.known.insert(k, d);
                }
            }
        }
    }
    fn sorted_chunk_keys(&self) -> Vec<String> {
        let mut v: Vec<(String, String)> = self
            .ts
            .scan(CHUNK_PREFIX)
            .into_iter()
            .map(|k| (self.known.get(&k).map(|d| hex(d)).unwrap_or_else(|| "?".into()), k))
            .collect();
        v.sort();
        v.into_iter().map(|x| x.1).collect()
    }
    fn image(&self) -> String {
        let mut arts: Vec<(usize, String)> = Vec::new();
        let listed = bo(self.blob.list(None)).unwrap_or_default();
        for id in listed {
            let idx = self.ids.iter().position(|x| *x == id);
            let g = match bo(self.blob.get(&id)) {
                Ok(d) => format!("ok:{}", hex(&d)),
                Err(e) => err_class(&e).to_string(),
            };
            let v = match self.blob.verify(&id) {
                Ok(b) => b.to_string(),
                Err(e) => err_class(&e).to_string(),
            };
            let (sz, cc) = match bo(self.blob.metadata(&id)) {
                Ok(m) => (m.size, m.chunk_count),
                Err(_) => (usize::MAX, usize::MAX),
            };
            let name = idx.map(|i| format!("a{i}")).unwrap_or_else(|| "a?".into());
            arts.push((idx.unwrap_or(usize::MAX), format!("{name}={g}/{v}/{sz}/{cc}")));
        }
        arts.sort();
        let mut cs: Vec<String> = Vec::new();
        for k in self.ts.scan(CHUNK_PREFIX) {
            if let Ok(rec) = self.ts.get(&k) {
                let kd = self.known.get(&k).map(|d| hex(d)).unwrap_or_else(|| "?".into());
                let d = t_bytes(&rec, "_data").map(|d| hex(&d)).unwrap_or_else(|| "?".into());
                let refs = t_int(&rec, "_refs").unwrap_or(-1);
                let cr = t_int(&rec, "_created").unwrap_or(-1);
                let crs = match self.epoch {
                    Some(b) => (cr - b as i64 + CLOCK0 as i64).to_string(),
                    None if cr % LT == 0 => (cr / LT).to_string(),
                    None => format!("raw{cr}"),
                };
                cs.push(format!("{kd}={d}:{refs}:{crs}"));
            }
        }
        cs.sort();
        format!("arts [{}] chunks [{}]", arts.into_iter().map(|x| x.1).collect::<Vec<_>>().join(" "), cs.join(" "))
    }
    /// keys of the full chunks an open writer has stored so far
    fn inflight_keys(&self, bytes: &[u8]) -> Vec<String> {
        let full = bytes.len() / self.chunk;
        (0..full).map(|i| format!("{CHUNK_PREFIX}{}", compute_hash(&bytes[i * self.chunk..(i + 1) * self.chunk]))).collect()
    }
    /// references the OPEN writers must hold: one per occurrence of a key in a writer's chunk list
    fn holds(&self) -> BTreeMap<String, i64> {
        let mut m = BTreeMap::new();
        for ow in self.writers.values() {
            for k in self.inflight_keys(&ow.bytes) {
                *m.entry(k).or_insert(0) += 1;
            }
        }
        m
    }
    /// `_refs` of every chunk record that exists
    fn refs_now(&self) -> BTreeMap<String, i64> {
        self.ts.scan(CHUNK_PREFIX).into_iter().filter_map(|k| self.ts.get(&k).ok().and_then(|t| t_int(&t, "_refs")).map(|x| (k, x))).collect()
    }
    /// Class of "artifact `id` exists, was never deleted and does not read back as written": a known
    /// `<site>/live_chunk_collected` only if EVERY chunk of its list that is wrong is a missing record whose whole
    /// deficit is excused by `site` (full_gc | repair removed / reset it while a writer that had written it was open);
    /// anything else keeps `fallback`, a class of its own.
    fn unreadable_class(&self, id: &str, fallback: &str) -> String {
        let keys = self.ts.get(&format!("{META_PREFIX}{id}")).ok().and_then(|t| t_ptrs(&t, "_chunks")).unwrap_or_default();
        let bad: Vec<&String> = keys
            .iter()
            .filter(|k| match self.ts.get(k) {
                Ok(rec) => t_bytes(&rec, "_data").as_ref() != self.known.get(*k),
                Err(_) => true,
            })
            .collect();
        let excused = |k: &String| !self.ts.exists(k) && self.unexcused.get(k).copied().unwrap_or(0) == 0 && self.excused.get(k).map(|x| x.0 > 0).unwrap_or(false);
        match bad.first() {
            Some(k0) if bad.iter().all(|k| excused(k)) => format!("tensor_blob.{}/live_chunk_collected", self.excused[*k0].1),
            _ => fallback.to_string(),
        }
    }
}

/// `Report` keeps at most 50 violations: forward only the first few of each class (all of them are counted in the
/// distribution as `violations.<class>`), so that known classes can never crowd out a new one.
fn vio(rep: &mut Report, class: &str, what: &str, input: Value) {
    let key = format!("violations.{class}");
    if rep.distribution.get(&key).copied().unwrap_or(0) < 3 {
        rep.violation(class, what, input);
    }
    rep.hit(&key);
}

/// The blob store's async functions never suspend (no await point that can pend) except the background task:
/// poll them once with a no-op waker instead of going through a tokio runtime.
fn bo<F: std::future::Future>(f: F) -> F::Output {
    let mut f = std::pin::pin!(f);
    let mut cx = std::task::Context::from_waker(std::task::Waker::noop());
    match f.as_mut().poll(&mut cx) {
        std::task::Poll::Ready(x) => x,
        std::task::Poll::Pending => panic!("a tensor_blob future suspended outside the background task"),
    }
}

/// `min_age` that makes gc_cycle collect exactly the records stamped with a tick <= `thr`
fn min_age_for(thr: u64) -> Duration {
    let real_min_created = thr * LT as u64 + (LT as u64) / 2;
    Duration::from_secs(now_secs().saturating_sub(real_min_created))
}

/// run `f` with a recording yield hook on this thread: the `TensorStore` calls (site, key) it makes
fn record_calls<T>(f: impl FnOnce() -> T) -> (T, Vec<(&'static str, String)>) {
    let log: Arc<Mutex<Vec<(&'static str, String)>>> = Arc::new(Mutex::new(Vec::new()));
    let l2 = log.clone();
    tensor_store::verif::set_yield_hook(Some(Box::new(move |s, k| l2.lock().unwrap().push((s, k.to_string())))));
    let out = f();
    tensor_store::verif::set_yield_hook(None);
    let v = log.lock().unwrap().clone();
    (out, v)
}

/// streaming read of a whole artifact through `BlobReader::read` with buffers of `buf` bytes
fn read_by_buffers(blob: &BlobStore, id: &str, buf: usize) -> Result<Vec<u8>, String> {
    let mut rd = bo(blob.reader(id)).map_err(|e| err_class(&e).to_string())?;
    let mut out = Vec::new();
    let mut b = vec![0u8; buf.max(1)];
    loop {
        let n = bo(rd.read(&mut b)).map_err(|e| err_class(&e).to_string())?;
        if n == 0 {
            break;
        }
        out.extend_from_slice(&b[..n]);
        if out.len() > (1 << 20) {
            return Err("runaway".into());
        }
    }
    Ok(out)
}

struct CaseOut {
    /// first failure: ("disagree"| "violation", class)
    failed: Option<(String, String)>,
    lines: Vec<String>,
    wrote: bool,
    changed: bool,
}

/// Execute one op sequence on a fresh real store and a reset model; compare after every op; evaluate oracles.
/// `quiet` = do not record into the report (used while shrinking).
fn run_case(m: &mut Model, rep: &mut Report, stream: &str, chunk: usize, max: Option<usize>, ops: &[Op], quiet: bool) -> CaseOut {
    let mut out = CaseOut { failed: None, lines: vec![], wrote: false, changed: false };
    let mut scratch = Report::new("");
    let mut r = Real::new(chunk, max);
    let reset = format!("reset {chunk} {}", max.map(|x| x.to_string()).unwrap_or_else(|| "-".into()));
    m.ask(&reset);
    out.lines.push(reset);
    let input = || ops_json(chunk, max, ops);
    macro_rules! rp {
        () => {
            if quiet { &mut scratch } else { &mut *rep }
        };
    }
    let fail = |out: &mut CaseOut, kind: &str, class: &str| {
        if out.failed.is_none() {
            out.failed = Some((kind.to_string(), class.to_string()));
        }
    };
    for (i, op) in ops.iter().enumerate() {
        let t = (i + 1) as u64;
        // ---- what the collectors are about to see (oracle O2)
        let occ_before = occurrences(&r.ts);
        let present_before: BTreeSet<String> = r.ts.scan(CHUNK_PREFIX).into_iter().collect();
        let refs_before: BTreeMap<String, i64> = present_before.iter().filter_map(|k| r.ts.get(k).ok().and_then(|t| t_int(&t, "_refs")).map(|x| (k.clone(), x))).collect();
        let holds_before = r.holds();
        let mut collector: Option<&'static str> = None;
        let mut wrote_now: Option<(usize, Vec<u8>)> = None;
        // a writer that stayed open across other operations has just finished successfully: (artifact, bytes handed to it)
        let mut finished_now: Option<(usize, Vec<u8>)> = None;
        let (line, imp): (String, String) = match op {
            Op::Put(d) => {
                let res = bo(r.blob.put("f", d, PutOptions::default()));
                let a = match res {
                    Ok(id) => {
                        let ix = r.alpha(&id);
                        wrote_now = Some((ix, d.clone()));
                        format!("ok a{ix}")
                    }
                    Err(e) => err_class(&e).to_string(),
                };
                (format!("put {t} {}", hex(d)), a)
            }
            Op::Stream(ps) | Op::Abandon(ps) => {
                let fin = matches!(op, Op::Stream(_));
                let mut w = bo(r.blob.writer("f", PutOptions::default())).unwrap();
                let mut all = Vec::new();
                let mut err = None;
                for p in ps {
                    all.extend_from_slice(p);
                    if let Err(e) = bo(w.write(p)) {
                        err = Some(err_class(&e).to_string());
                    }
                }
                if fin {
                    let a = match bo(w.finish()) {
                        Ok(id) => {
                            let ix = r.alpha(&id);
                            wrote_now = Some((ix, all));
                            format!("ok a{ix}")
                        }
                        Err(e) => err_class(&e).to_string(),
                    };
                    (format!("stream {t} {}", pieces_txt(ps)), err.unwrap_or(a))
                } else {
                    drop(w);
                    r.slack = true;
                    (format!("abandon {t} {}", pieces_txt(ps)), err.unwrap_or_else(|| "ok".into()))
                }
            }
            Op::WOpen(wid) => {
                let w = bo(r.blob.writer("f", PutOptions::default())).unwrap();
                r.writers.insert(*wid, OpenWriter { w, bytes: vec![] });
                r.slack = true;
                (format!("wopen {wid}"), "ok".into())
            }
            Op::WWrite(wid, d) => {
                let line = format!("wwrite {wid} {t} {}", hex(d));
                match r.writers.get_mut(wid) {
                    None => (line, "bad-op".into()),
                    Some(ow) => {
                        ow.bytes.extend_from_slice(d);
                        let a = match bo(ow.w.write(d)) {
                            Ok(()) => format!("ok {} {}", ow.w.chunks_written(), ow.w.bytes_written()),
                            Err(e) => err_class(&e).to_string(),
                        };
                        (line, a)
                    }
                }
            }
            Op::WFinish(wid) => {
                let line = format!("wfinish {wid} {t}");
                match r.writers.remove(wid) {
                    None => (line, "bad-op".into()),
                    Some(ow) => (line, match bo(ow.w.finish()) {
                        Ok(id) => {
                            let ix = r.alpha(&id);
                            // oracle O1 for a streamed artifact that overlapped other operations: judged below, once the
                            // reference accounting of this step is done
                            finished_now = Some((ix, ow.bytes.clone()));
                            format!("ok a{ix}")
                        }
                        Err(e) => err_class(&e).to_string(),
                    }),
                }
            }
            Op::WDrop(wid) => {
                r.writers.remove(wid);
                (format!("wdrop {wid}"), "ok".into())
            }
            Op::Get(a) => {
                let id = r.uuid_of(*a);
                let x = match bo(r.blob.get(&id)) {
                    Ok(d) => format!("ok {}", hex(&d)),
                    Err(e) => err_class(&e).to_string(),
                };
                (format!("get a{a}"), x)
            }
            Op::Delete(a) => {
                let id = r.uuid_of(*a);
                let x = match bo(r.blob.delete(&id)) {
                    Ok(()) => {
                        r.expect.insert(*a as usize, None);
                        out.changed = true;
                        "ok".to_string()
                    }
                    Err(e) => err_class(&e).to_string(),
                };
                (format!("delete a{a}"), x)
            }
            Op::Verify(a) => {
                let id = r.uuid_of(*a);
                let x = match r.blob.verify(&id) {
                    Ok(b) => format!("ok {b}"),
                    Err(e) => err_class(&e).to_string(),
                };
                (format!("verify a{a}"), x)
            }
            Op::Gc { back, age } => {
                collector = Some("gc");
                let thr = t.saturating_sub(*back); // records with created <= thr are old enough
                let real_min_created = thr * LT as u64 + (LT as u64) / 2;
                let min_age = now_secs().saturating_sub(real_min_created);
                let b = bo(BlobStore::new(r.ts.clone(), cfg(chunk, max).with_gc_min_age(Duration::from_secs(min_age)))).unwrap();
                let s = bo(b.gc()).unwrap();
                if s.deleted > 0 {
                    out.changed = true;
                }
                (format!("gc {} {}", thr + 1 + age, age), format!("ok {} {}", s.deleted, s.freed_bytes))
            }
            Op::GcSat => {
                collector = Some("gc");
                let b = bo(BlobStore::new(r.ts.clone(), cfg(chunk, max).with_gc_min_age(Duration::from_secs(u64::MAX)))).unwrap();
                let s = bo(b.gc()).unwrap();
                (format!("gc {t} {}", t + 5), format!("ok {} {}", s.deleted, s.freed_bytes))
            }
            Op::FullGc => {
                collector = Some("full_gc");
                let x = match bo(r.blob.full_gc()) {
                    Ok(s) => {
                        if s.deleted > 0 {
                            out.changed = true;
                        }
                        format!("ok {} {}", s.deleted, s.freed_bytes)
                    }
                    Err(e) => err_class(&e).to_string(),
                };
                ("fullgc".into(), x)
            }
            Op::Repair => {
                collector = Some("repair");
                let x = match r.blob.repair() {
                    Ok(s) => format!("ok {} {} {} {}", s.artifacts_checked, s.chunks_verified, s.refs_fixed, s.orphans_deleted),
                    Err(e) => err_class(&e).to_string(),
                };
                ("repair".into(), x)
            }
            Op::Corrupt { sel, data } => {
                let keys = r.sorted_chunk_keys();
                if keys.is_empty() {
                    ("image".into(), r.image())
                } else {
                    let k = keys[*sel as usize % keys.len()].clone();
                    let mut rec = r.ts.get(&k).unwrap();
                    let old = t_bytes(&rec, "_data").unwrap_or_default();
                    if old != *data {
                        r.damaged = true;
                    }
                    rec.set("_data", TensorValue::Scalar(ScalarValue::Bytes(data.clone())));
                    r.ts.put(&k, rec).unwrap();
                    (format!("corrupt {} {}", hex(&r.known[&k]), hex(data)), "ok".into())
                }
            }
            Op::DropChunk { sel } => {
                let keys = r.sorted_chunk_keys();
                if keys.is_empty() {
                    ("image".into(), r.image())
                } else {
                    let k = keys[*sel as usize % keys.len()].clone();
                    r.ts.delete(&k).unwrap();
                    r.damaged = true;
                    (format!("drop {}", hex(&r.known[&k])), "ok".into())
                }
            }
            Op::Exists(a) => {
                let id = r.uuid_of(*a);
                (format!("exists a{a}"), match bo(r.blob.exists(&id)) {
                    Ok(b) => format!("ok {b}"),
                    Err(e) => err_class(&e).to_string(),
                })
            }
            Op::Stats => {
                let x = match bo(r.blob.stats()) {
                    Ok(s) => {
                        // count_orphans is the same number by another route
                        let gcx = GarbageCollector::new(r.ts.clone(), GcConfig::default());
                        if gcx.count_orphans() != s.orphaned_chunks {
                            vio(rp!(), "tensor_blob.stats/orphans_differ", "stats().orphaned_chunks != GarbageCollector::count_orphans()", input());
                            fail(&mut out, "violation", "tensor_blob.stats/orphans_differ");
                        }
                        format!("ok {} {} {} {} {}", s.artifact_count, s.chunk_count, s.total_bytes, s.unique_bytes, s.orphaned_chunks)
                    }
                    Err(e) => err_class(&e).to_string(),
                };
                ("stats".into(), x)
            }
            Op::VChunk { sel } => {
                // candidates: every stored chunk (content order), every key that was stored once and is gone, a key nobody stored
                let keys = r.sorted_chunk_keys();
                let mut gone: Vec<String> = r.known.keys().filter(|k| !keys.contains(k)).cloned().collect();
                gone.sort_by_key(|k| r.known[k].clone());
                let mut cands: Vec<(String, Vec<u8>)> = keys.iter().chain(gone.iter()).map(|k| (k.clone(), r.known.get(k).cloned().unwrap_or_default())).collect();
                cands.push((format!("{CHUNK_PREFIX}{}", compute_hash(&[0xFD, 0xFD, 0xFD])), vec![0xFD, 0xFD, 0xFD]));
                let (key, content) = cands[*sel as usize % cands.len()].clone();
                let x = match verify_chunk(&r.ts, &key) {
                    Ok(b) => format!("ok {b}"),
                    Err(e) => err_class(&e).to_string(),
                };
                (format!("vchunk {}", hex(&content)), x)
            }
            Op::CExist(a) => {
                let id = r.uuid_of(*a);
                let x = match check_chunks_exist(&r.ts, &id) {
                    Ok(l) => format!("ok {}", if l.is_empty() { ".".to_string() } else { l.iter().map(|k| r.known.get(k).map(|d| hex(d)).unwrap_or_else(|| "?".into())).collect::<Vec<_>>().join(",") }),
                    Err(e) => err_class(&e).to_string(),
                };
                (format!("cexist a{a}"), x)
            }
            Op::Orphans => {
                let mut l: Vec<String> = find_orphaned_chunks(&r.ts).iter().map(|k| r.known.get(k).map(|d| hex(d)).unwrap_or_else(|| "?".into())).collect();
                l.sort();
                ("orphans".into(), format!("ok {}", if l.is_empty() { ".".to_string() } else { l.join(",") }))
            }
            Op::Touch(a, kind) => {
                let id = r.uuid_of(*a);
                let b = &r.blob;
                let res = match kind % 7 {
                    0 => bo(b.set_meta(&id, "k", "v")),
                    1 => bo(b.tag(&id, "t1")),
                    2 => bo(b.untag(&id, "t1")),
                    3 => bo(b.link(&id, "task:1")),
                    4 => bo(b.unlink(&id, "task:1")),
                    5 => bo(b.update_metadata(&id, MetadataUpdates::new().with_filename("g").set_meta("x", "y").delete_meta("k"))),
                    _ => bo(b.update_metadata(&id, MetadataUpdates::new().with_content_type("text/plain"))),
                };
                (format!("touch a{a}"), match res {
                    Ok(()) => "ok".to_string(),
                    Err(e) => err_class(&e).to_string(),
                })
            }
            Op::GcBatch { back, b } => {
                collector = Some("gc");
                let thr = t.saturating_sub(*back);
                let bs = bo(BlobStore::new(r.ts.clone(), cfg(chunk, max).with_gc_batch_size(*b).with_gc_min_age(min_age_for(thr)))).unwrap();
                let (s, calls) = record_calls(|| bo(bs.gc()).unwrap());
                if s.deleted > 0 {
                    out.changed = true;
                }
                // the keys the cycle looked at: its `get` calls, in the (arbitrary) order of the scan
                let seen: Vec<String> = calls.iter().filter(|(site, k)| *site == "store.get" && k.starts_with(CHUNK_PREFIX)).map(|x| x.1.clone()).collect();
                let want = present_before.len().min(*b);
                let uniq: BTreeSet<&String> = seen.iter().collect();
                if seen.len() != want || uniq.len() != seen.len() || seen.iter().any(|k| !present_before.contains(k)) {
                    vio(rp!(), "tensor_blob.gc/batch_not_a_part_of_the_scan", "gc_cycle did not look at min(batch_size, chunk count) distinct existing chunk keys", input());
                    fail(&mut out, "violation", "tensor_blob.gc/batch_not_a_part_of_the_scan");
                }
                if !quiet {
                    rep.hit(&format!("gc_batch.{}", if *b < present_before.len() { "partial" } else { "whole" }));
                }
                let ks: Vec<String> = seen.iter().map(|k| r.known.get(k).map(|d| hex(d)).unwrap_or_else(|| "?".into())).collect();
                (format!("gcsel {} {}", thr + 1, if ks.is_empty() { ".".to_string() } else { ks.join(",") }), format!("ok {} {}", s.deleted, s.freed_bytes))
            }
            Op::BgGc { back } => {
                collector = Some("gc");
                let thr = t.saturating_sub(*back);
                let mut bs = r
                    .rt
                    .block_on(BlobStore::new(r.ts.clone(), cfg(chunk, max).with_gc_interval(Duration::from_millis(1)).with_gc_min_age(min_age_for(thr))))
                    .unwrap();
                let ts2 = r.ts.clone();
                r.rt.block_on(async {
                    bs.start().await.unwrap();
                    bs.start().await.unwrap(); // second start is a no-op
                    // wait for a tick of the task (on a loaded machine the first tick can take longer than a few ms): until no
                    // record is left that a cycle with this threshold takes (`_refs == 0`, stamped at or before `thr`)
                    for _ in 0..400 {
                        tokio::time::sleep(Duration::from_millis(4)).await;
                        let pending = ts2.scan(CHUNK_PREFIX).iter().any(|k| {
                            ts2.get(k).map(|t| t_int(&t, "_refs") == Some(0) && t_int(&t, "_created").unwrap_or(i64::MAX) <= thr as i64 * LT).unwrap_or(false)
                        });
                        if !pending {
                            break;
                        }
                    }
                    bs.shutdown().await.unwrap();
                });
                // the cycles' statistics are dropped by the task: only the effect is compared
                (format!("gc {} 0", thr + 1), "ok".to_string())
            }
            Op::ROpen(rid, a) => {
                let id = r.uuid_of(*a);
                let x = match bo(r.blob.reader(&id)) {
                    Ok(rd) => {
                        let a = format!("ok {} {}", rd.chunk_count(), rd.total_size());
                        r.readers.insert(*rid, rd);
                        a
                    }
                    Err(e) => err_class(&e).to_string(),
                };
                (format!("ropen {rid} a{a}"), x)
            }
            Op::RNext(rid) => {
                let x = match r.readers.get_mut(rid) {
                    None => "bad-op".to_string(),
                    Some(rd) => {
                        let a = match bo(rd.next_chunk()) {
                            Ok(Some(d)) => format!("ok {}", hex(&d)),
                            Ok(None) => "ok eof".to_string(),
                            Err(e) => err_class(&e).to_string(),
                        };
                        format!("{a} {}", rd.bytes_read())
                    }
                };
                (format!("rnext {rid}"), x)
            }
            Op::RRead(rid, n) => {
                let x = match r.readers.get_mut(rid) {
                    None => "bad-op".to_string(),
                    Some(rd) => {
                        let mut b = vec![0u8; *n];
                        let a = match bo(rd.read(&mut b)) {
                            Ok(k) => format!("ok {}", hex(&b[..k])),
                            Err(e) => err_class(&e).to_string(),
                        };
                        format!("{a} {}", rd.bytes_read())
                    }
                };
                (format!("rread {rid} {n}"), x)
            }
            Op::RAll(rid) => {
                let x = match r.readers.get_mut(rid) {
                    None => "bad-op".to_string(),
                    Some(rd) => {
                        let a = match bo(rd.read_all()) {
                            Ok(d) => format!("ok {}", hex(&d)),
                            Err(e) => err_class(&e).to_string(),
                        };
                        format!("{a} {}", rd.bytes_read())
                    }
                };
                (format!("rall {rid}"), x)
            }
            Op::RVerify(rid) => {
                let x = match r.readers.get_mut(rid) {
                    None => "bad-op".to_string(),
                    Some(rd) => {
                        let a = match bo(rd.verify()) {
                            Ok(b) => format!("ok {b}"),
                            Err(e) => err_class(&e).to_string(),
                        };
                        format!("{a} {}", rd.bytes_read())
                    }
                };
                (format!("rverify {rid}"), x)
            }
            Op::RDrop(rid) => {
                r.readers.remove(rid);
                (format!("rdrop {rid}"), "ok".into())
            }
        };
        let bg = matches!(op, Op::BgGc { .. });
        if bg && !quiet {
            rep.hit("op.background_gc");
        }
        r.restamp(t, rp!(), &input);
        let tag = line.split(' ').next().unwrap_or("?").to_string();
        let res_class = imp.split(' ').take(if imp.starts_with("err") { 2 } else { 1 }).collect::<Vec<_>>().join("_");
        if !quiet {
            rep.hit(&format!("op.{tag}.{res_class}"));
        }
        // ---- correspondence: answer + full image
        // one round trip: the model's answer and its image after the op
        let both = m.ask(&format!("! {line}"));
        let (mo, mimg) = match both.split_once('\t') {
            Some((a, b)) => (a.to_string(), b.to_string()),
            None => (both.clone(), "<no image>".to_string()),
        };
        let mut mo = mo;
        if bg && mo.starts_with("ok ") {
            mo = "ok".to_string();
        }
        out.lines.push(line.clone());
        if !rp!().compare(&format!("{stream}.answer"), || json!({"case": input(), "at": i, "line": line}), &imp, &mo) {
            fail(&mut out, "disagree", "answer");
        }
        let img = r.image();
        if !rp!().compare(&format!("{stream}.image"), || json!({"case": input(), "at": i, "line": line}), &img, &mimg) {
            fail(&mut out, "disagree", "image");
        }
        // ---- oracles on the implementation's own outputs
        // Reference accounting (O6, O2): every chunk written by an open writer or listed by a finished artifact exists and
        // has `_refs` >= listings + writer holds, after EVERY operation.  This stream is one thread: a deficit has no
        // concurrent cause.  The only excuses are the two known findings, and only for what they state: full_gc() / repair()
        // ITSELF removed or lowered the record of a chunk that an OPEN writer had written, by at most that writer's holds.
        let present_after: BTreeSet<String> = r.ts.scan(CHUNK_PREFIX).into_iter().collect();
        if !r.damaged {
            let occ_after = occurrences(&r.ts);
            let holds_after = r.holds();
            let refs_after = r.refs_now();
            let deficit = |k: &String| -> i64 {
                (occ_after.get(k).copied().unwrap_or(0) + holds_after.get(k).copied().unwrap_or(0) - refs_after.get(k).copied().unwrap_or(0)).max(0)
            };
            // 1. the stated cause of the known findings, observed on this very operation
            if let Some(site @ ("full_gc" | "repair")) = collector {
                for (k, hb) in &holds_before {
                    let touched = present_before.contains(k) && (!present_after.contains(k) || refs_after.get(k) < refs_before.get(k));
                    if touched {
                        let e = deficit(k).min(*hb);
                        if e > 0 {
                            r.excused.insert(k.clone(), (e, site));
                        }
                        if !quiet {
                            rep.hit(&format!("collector.{site}.removed_open_writer_chunk"));
                        }
                    }
                }
            }
            // 2. excuses never exceed the deficit that is left; 3. what is not excused is a failure of THIS operation
            let mut keys: BTreeSet<String> = occ_after.keys().chain(holds_after.keys()).cloned().collect();
            keys.extend(r.excused.keys().cloned());
            keys.extend(r.unexcused.keys().cloned());
            let mut reported_now: BTreeSet<String> = BTreeSet::new();
            for k in &keys {
                let d = deficit(k);
                let e = r.excused.get(k).map(|x| x.0.min(d)).unwrap_or(0);
                if e > 0 {
                    r.excused.get_mut(k).unwrap().0 = e;
                } else {
                    r.excused.remove(k);
                }
                let u = r.unexcused.get(k).copied().unwrap_or(0).min(d - e);
                if d > e + u {
                    let removed = present_before.contains(k) && !present_after.contains(k);
                    let class = match collector {
                        Some("gc") if removed => "tensor_blob.gc/referenced_chunk_collected_sequentially".to_string(),
                        Some("gc") => "tensor_blob.gc/refs_below_references".to_string(),
                        Some(site) => format!("tensor_blob.{site}/listed_chunk_damaged"),
                        None if matches!(tag.as_str(), "put" | "stream" | "abandon" | "wwrite" | "wfinish") => "tensor_blob.store_chunk/reference_not_taken".to_string(),
                        None => format!("tensor_blob.{tag}/refs_below_references"),
                    };
                    vio(rp!(), &class, "sequential history (one thread, no concurrent refcount update): after this operation a chunk's `_refs` (0 if the record is gone) is below its listings by finished artifacts plus its occurrences in the chunk lists of open writers, and no full_gc()/repair() acting on a chunk of an open writer accounts for it", input());
                    fail(&mut out, "violation", &class);
                    reported_now.insert(k.clone());
                }
                if d - e > 0 {
                    r.unexcused.insert(k.clone(), d - e);
                } else {
                    r.unexcused.remove(k);
                }
            }
            // 4. incremental gc() removing a record that is still demanded (its `_refs` was already 0)
            if collector == Some("gc") {
                for k in present_before.difference(&present_after) {
                    let listed = occ_before.get(k).copied().unwrap_or(0);
                    let demand = listed + holds_before.get(k).copied().unwrap_or(0);
                    if demand == 0 || reported_now.contains(k) {
                        continue;
                    }
                    match r.excused.get(k) {
                        Some((_, site)) if r.unexcused.get(k).copied().unwrap_or(0) == 0 => {
                            if !quiet {
                                rep.hit(&format!("collector.gc.removed_chunk_unreferenced_by.{site}"));
                            }
                            if listed > 0 {
                                let class = format!("tensor_blob.{site}/live_chunk_collected");
                                vio(rp!(), &class, "gc() removed a chunk that an existing artifact lists: the artifact's reference had been dropped by this collector (full_gc removed / repair reset the record while the writer of the artifact was open)", input());
                                fail(&mut out, "violation", &class);
                            }
                        }
                        _ => {
                            let class = "tensor_blob.gc/referenced_chunk_collected_sequentially";
                            vio(rp!(), class, "sequential history: incremental gc() removed a chunk that an open writer had written or that a finished artifact lists", input());
                            fail(&mut out, "violation", class);
                        }
                    }
                }
            }
            // the consequence the known findings name: a finished artifact lists a chunk it holds no reference on
            for (k, (_, site)) in r.excused.clone() {
                if refs_after.get(&k).copied().unwrap_or(0) < occ_after.get(&k).copied().unwrap_or(0) && !r.unexcused.contains_key(&k) {
                    let class = format!("tensor_blob.{site}/live_chunk_collected");
                    vio(rp!(), &class, "a finished artifact lists a chunk whose record is gone or holds fewer references than listings: this collector removed / reset the record while the artifact's writer was open (the writer's references are invisible to it)", input());
                    fail(&mut out, "violation", &class);
                }
            }
        }
        if let Some((ix, bytes)) = finished_now.take() {
            let id = r.ids[ix].clone();
            if !r.damaged && bo(r.blob.get(&id)).ok().as_ref() != Some(&bytes) {
                let class = r.unreadable_class(&id, "tensor_blob.writer/finished_artifact_unreadable");
                vio(rp!(), &class, "an artifact whose streaming writer stayed open across other operations finished successfully but cannot be read back", input());
                fail(&mut out, "violation", &class);
                r.expect.insert(ix, None);
            } else {
                wrote_now = Some((ix, bytes));
            }
        }
        if let Some((ix, bytes)) = wrote_now {
            out.wrote = true;
            // O1: read returns written (one call or streamed)
            let id = r.ids[ix].clone();
            let back = bo(r.blob.get(&id));
            if !r.damaged && back.as_ref().ok() != Some(&bytes) {
                vio(rp!(), "tensor_blob.get/read_differs_from_written", "get() right after a successful write does not return the written bytes", input());
                fail(&mut out, "violation", "tensor_blob.get/read_differs_from_written");
            }
            if !r.damaged {
                // chunk-count boundary oracle: ceil(len / chunk) chunks
                let want = if bytes.is_empty() { 0 } else { (bytes.len() + chunk - 1) / chunk };
                let got = bo(r.blob.metadata(&id)).map(|m| m.chunk_count).unwrap_or(usize::MAX);
                if got != want {
                    vio(rp!(), "tensor_blob.writer/chunk_count", "chunk_count != ceil(len/chunk_size)", input());
                    fail(&mut out, "violation", "tensor_blob.writer/chunk_count");
                }
                let b = if bytes.is_empty() { 0 } else { ((bytes.len() - 1) % chunk) + 1 };
                if !quiet {
                    rep.hit(&format!("size.tail{}of{}.chunks{}", b, chunk, want.min(4)));
                }
            }
            r.expect.insert(ix, Some(bytes));
        }
        if !r.damaged {
            // O1 over time / delete_preserves_others / gc keeps live data: every live artifact still reads back
            for (ix, e) in r.expect.clone() {
                let id = r.ids[ix].clone();
                let back = bo(r.blob.get(&id));
                match e {
                    Some(bytes) => {
                        if back.as_ref().ok() != Some(&bytes) {
                            let fallback = match collector {
                                Some("gc") => "tensor_blob.gc/referenced_chunk_collected_sequentially".to_string(),
                                Some(site) => format!("tensor_blob.{site}/live_artifact_unreadable"),
                                None => format!("tensor_blob.{tag}/other_artifact_damaged"),
                            };
                            let class = r.unreadable_class(&id, &fallback);
                            vio(rp!(), &class, "an artifact that was not deleted no longer reads back as written", input());
                            fail(&mut out, "violation", &class);
                            r.expect.insert(ix, None);
                            if class != fallback {
                                // the known finding, with its stated cause in this trace: that the reader, verify() and
                                // check_chunks_exist() fail on the same missing chunk is the same finding, not a new one
                                continue;
                            }
                        }
                        // O1 through the streaming reader: read(buf) with a buffer size that varies with the step
                        if (i + ix) % 3 == 0 {
                            let bufsz = 1 + (i * 7 + ix * 3) % (2 * chunk + 2);
                            if read_by_buffers(&r.blob, &id, bufsz).ok().as_ref() != Some(&bytes) {
                                vio(rp!(), "tensor_blob.reader/read_differs_from_written", "BlobReader::read() with a fixed buffer size, repeated until it returns 0, does not return the written bytes", input());
                                fail(&mut out, "violation", "tensor_blob.reader/read_differs_from_written");
                            }
                            // O5c: every chunk of an undamaged artifact passes the per-chunk check, none is reported missing
                            if check_chunks_exist(&r.ts, &id).ok().map(|l| l.is_empty()) != Some(true) {
                                vio(rp!(), "tensor_blob.check_chunks_exist/false_alarm", "check_chunks_exist() reports a missing chunk of an undamaged artifact", input());
                                fail(&mut out, "violation", "tensor_blob.check_chunks_exist/false_alarm");
                            }
                        }
                        // O5a: undamaged artifacts verify
                        if r.blob.verify(&id).ok() != Some(true) {
                            vio(rp!(), "tensor_blob.verify/false_alarm", "verify() is not Ok(true) on an undamaged artifact", input());
                            fail(&mut out, "violation", "tensor_blob.verify/false_alarm");
                        }
                    }
                    None => {}
                }
            }
            // O3: identical content stored once; O6: refs == occurrences when no writer was ever abandoned / left open
            let occ = occurrences(&r.ts);
            let mut seen: BTreeSet<Vec<u8>> = BTreeSet::new();
            for k in &present_after {
                if let Ok(rec) = r.ts.get(k) {
                    let d = t_bytes(&rec, "_data").unwrap_or_default();
                    if !seen.insert(d) {
                        vio(rp!(), "tensor_blob.store_chunk/duplicate_content", "two chunk records hold identical content", input());
                        fail(&mut out, "violation", "tensor_blob.store_chunk/duplicate_content");
                    }
                    let refs = t_int(&rec, "_refs").unwrap_or(-1);
                    let o = occ.get(k).copied().unwrap_or(0);
                    // (refs below listings + writer holds: the reference accounting above)
                    if refs != o && !r.slack {
                        vio(rp!(), "tensor_blob.refs/not_equal_occurrences", "refcount differs from occurrences although no writer was abandoned", input());
                        fail(&mut out, "violation", "tensor_blob.refs/not_equal_occurrences");
                    }
                }
            }
        } else {
            // O5d: verify_chunk is false / ChunkMissing on exactly the altered / missing records
            for (k, orig) in r.known.iter() {
                let now = r.ts.get(k).ok().and_then(|rec| t_bytes(&rec, "_data"));
                let v = verify_chunk(&r.ts, k);
                let ok = match (&now, &v) {
                    (None, Err(BlobError::ChunkMissing(_))) => true,
                    (Some(d), Ok(b)) => *b == (d == orig),
                    _ => false,
                };
                if !ok {
                    vio(rp!(), "tensor_blob.verify_chunk/wrong_verdict", "verify_chunk() is not (true iff the record holds the content it was stored with, ChunkMissing iff it is gone)", input());
                    fail(&mut out, "violation", "tensor_blob.verify_chunk/wrong_verdict");
                }
            }
            // O5b: verify reports every artifact that lists a damaged chunk, and only those (single damaged key per artifact
            // is guaranteed detectable; several damaged keys could in principle cancel out — generator damages one key at a time)
            let metas: Vec<String> = r.ts.scan(META_PREFIX);
            for mk in metas {
                let id = mk.trim_start_matches(META_PREFIX).to_string();
                let keys = r.ts.get(&mk).ok().and_then(|t| t_ptrs(&t, "_chunks")).unwrap_or_default();
                let hit: BTreeSet<&String> = keys
                    .iter()
                    .filter(|k| match r.ts.get(k) {
                        Ok(rec) => t_bytes(&rec, "_data").as_ref() != r.known.get(*k),
                        Err(_) => true,
                    })
                    .collect();
                let v = r.blob.verify(&id);
                if hit.len() == 1 && v.as_ref().ok() == Some(&true) {
                    vio(rp!(), "tensor_blob.verify/alteration_not_detected", "verify() returned Ok(true) for an artifact with an altered or missing chunk", input());
                    fail(&mut out, "violation", "tensor_blob.verify/alteration_not_detected");
                }
                if hit.is_empty() && v.as_ref().ok() != Some(&true) {
                    vio(rp!(), "tensor_blob.verify/false_alarm", "verify() is not Ok(true) on an artifact none of whose chunks is altered or missing", input());
                    fail(&mut out, "violation", "tensor_blob.verify/false_alarm");
                }
                if !quiet && !hit.is_empty() {
                    rep.hit(&format!("verify.damaged.{}", match &v { Ok(true) => "ok_true", Ok(false) => "ok_false", Err(e) => err_class(e) }.replace(' ', "_")));
                }
            }
        }
        if out.failed.is_some() && quiet {
            break;
        }
    }
    // ---- O4: after deleting every artifact a full collection leaves no chunks
    if out.failed.is_none() {
        r.writers.clear();
        let listed = bo(r.blob.list(None)).unwrap_or_default();
        for id in &listed {
            let _ = bo(r.blob.delete(id));
        }
        let _ = bo(r.blob.full_gc());
        let left = r.ts.scan(CHUNK_PREFIX).len();
        let metas = r.ts.scan(META_PREFIX).len();
        if left != 0 || metas != 0 {
            vio(rp!(), "tensor_blob.full_gc/chunks_left_after_delete_all", "chunks remain after deleting every artifact and running full_gc", input());
            fail(&mut out, "violation", "tensor_blob.full_gc/chunks_left_after_delete_all");
        }
        // model does the same
        let n = r.ids.len();
        for a in 0..n {
            m.ask(&format!("delete a{a}"));
        }
        m.ask("fullgc");
        let mimg = m.ask("image");
        if !rp!().compare(&format!("{stream}.final"), || json!({"case": input()}), "arts [] chunks []", &mimg) {
            fail(&mut out, "disagree", "final");
        }
    }
    out
}

// ---------------------------------------------------------------- generators

/// A pool of chunk-sized blocks and short tails, so that artifacts overlap heavily.
struct Pool {
    blocks: Vec<Vec<u8>>,
    tails: Vec<Vec<u8>>,
}

fn pool(r: &mut Rng, c: usize) -> Pool {
    let nb = 2 + r.below(3) as usize;
    let blocks = (0..nb).map(|i| (0..c).map(|j| (0x10 * (i + 1) + (j % 16)) as u8).collect()).collect();
    let mut tails: Vec<Vec<u8>> = vec![vec![0xEE]];
    if c > 1 {
        tails.push((0..c - 1).map(|j| (0xA0 + j % 16) as u8).collect());
        tails.push((0..1 + r.below(c as u64 - 1) as usize).map(|j| (0xC0 + j % 16) as u8).collect());
    }
    Pool { blocks, tails }
}

/// data with a size around chunk boundaries: 0, 1, c-1, c, c+1, 2c-1 .. many chunks; repeated blocks likely
fn gen_data(r: &mut Rng, c: usize, p: &Pool) -> Vec<u8> {
    let kind = r.below(12);
    let (nblocks, tail): (usize, usize) = match kind {
        0 => (0, 0),
        1 => (0, 1),
        2 => (0, c.saturating_sub(1)),
        3 => (1, 0),
        4 => (1, 1),
        5 => (2, 0),
        6 => (1, c.saturating_sub(1)),
        7 => (2, 1),
        8 => (3 + r.below(3) as usize, r.below(c as u64) as usize),
        9 => (6 + r.below(6) as usize, r.below(c as u64) as usize),
        _ => (r.below(4) as usize, r.below(c as u64) as usize),
    };
    let mut d = Vec::new();
    let rep_block = r.chance(1, 3);
    let b0 = r.below(p.blocks.len() as u64) as usize;
    for _ in 0..nblocks {
        let b = if rep_block { b0 } else { r.below(p.blocks.len() as u64) as usize };
        d.extend_from_slice(&p.blocks[b]);
    }
    if tail > 0 {
        // a tail from the pool when one of that length exists (shared short chunks), else fresh bytes
        if let Some(tl) = p.tails.iter().find(|x| x.len() == tail) {
            d.extend_from_slice(tl);
        } else {
            let base = p.tails[r.below(p.tails.len() as u64) as usize].clone();
            d.extend((0..tail).map(|j| base[j % base.len()]));
        }
    }
    d
}

fn split_pieces(r: &mut Rng, c: usize, d: &[u8]) -> Vec<Vec<u8>> {
    let mut ps = Vec::new();
    let mut i = 0;
    if r.chance(1, 8) {
        ps.push(vec![]);
    }
    while i < d.len() {
        let n = match r.below(7) {
            0 => 1,
            1 => c.saturating_sub(1).max(1),
            2 => c,
            3 => c + 1,
            4 => 2 * c + 1,
            5 => d.len(),
            _ => 1 + r.below(2 * c as u64) as usize,
        }
        .min(d.len() - i);
        ps.push(d[i..i + n].to_vec());
        i += n;
        if r.chance(1, 10) {
            ps.push(vec![]);
        }
    }
    ps
}

fn gen_seq(r: &mut Rng, c: usize, len: usize, writers: bool, damage: bool, api: bool) -> Vec<Op> {
    let p = pool(r, c);
    let mut ops = Vec::new();
    let mut made: u32 = 0; // upper bound on artifacts created so far
    let mut open: Vec<u32> = vec![];
    let mut next_w = 0u32;
    let mut damaged = false;
    let mut rd_open: Vec<u32> = vec![];
    let mut next_r = 0u32;
    while ops.len() < len {
        let pick_art = |r: &mut Rng, made: u32| if made == 0 || r.chance(1, 12) { made + r.below(2) as u32 } else { r.below(made as u64) as u32 };
        if api && r.chance(2, 5) {
            // queries, the streaming reader, partial-batch and background collection
            let op = match r.below(20) {
                0 => Op::Exists(pick_art(r, made)),
                1 => Op::Stats,
                2 => Op::VChunk { sel: r.below(12) as u32 },
                3 => Op::CExist(pick_art(r, made)),
                4 => Op::Orphans,
                5 | 6 => Op::Touch(pick_art(r, made), r.below(7) as u8),
                7 | 8 => Op::GcBatch { back: *r.pick(&[0, 0, 1, 3]), b: 1 + r.below(4) as usize },
                9 if r.chance(1, 6) => Op::BgGc { back: *r.pick(&[0, 0, 2]) },
                10 | 11 | 9 if rd_open.len() < 3 && made > 0 => {
                    let x = next_r;
                    next_r += 1;
                    rd_open.push(x);
                    // mostly an artifact that was created (it may have been deleted since, or its put may have failed)
                    Op::ROpen(x, if r.chance(1, 10) { made + 1 } else { r.below(made as u64) as u32 })
                }
                12 | 13 | 14 | 15 if !rd_open.is_empty() => {
                    let x = *r.pick(&rd_open);
                    Op::RRead(x, *r.pick(&[0usize, 1, 1, 2, c.saturating_sub(1).max(1), c, c + 1, 3 * c]))
                }
                16 if !rd_open.is_empty() => Op::RNext(*r.pick(&rd_open)),
                17 if !rd_open.is_empty() => Op::RAll(*r.pick(&rd_open)),
                18 if !rd_open.is_empty() => Op::RVerify(*r.pick(&rd_open)),
                19 if !rd_open.is_empty() => {
                    let i = r.below(rd_open.len() as u64) as usize;
                    Op::RDrop(rd_open.remove(i))
                }
                _ => Op::Get(pick_art(r, made)),
            };
            ops.push(op);
            continue;
        }
        let k = r.below(100);
        let op = match k {
            0..=21 => {
                made += 1;
                Op::Put(gen_data(r, c, &p))
            }
            22..=35 => {
                made += 1;
                let d = gen_data(r, c, &p);
                Op::Stream(split_pieces(r, c, &d))
            }
            36..=39 => {
                let d = gen_data(r, c, &p);
                Op::Abandon(split_pieces(r, c, &d))
            }
            40..=57 => Op::Delete(pick_art(r, made)),
            58..=63 => Op::Get(pick_art(r, made)),
            64..=67 => Op::Verify(pick_art(r, made)),
            68..=77 => Op::Gc { back: *r.pick(&[0, 0, 1, 2, 5]), age: r.below(4) },
            78 => Op::GcSat,
            79..=85 => Op::FullGc,
            86..=89 => Op::Repair,
            _ => {
                if writers {
                    match r.below(6) {
                        0 | 1 if open.len() < 3 => {
                            let w = next_w;
                            next_w += 1;
                            open.push(w);
                            Op::WOpen(w)
                        }
                        2 | 3 | 0 | 1 if !open.is_empty() => {
                            let w = *r.pick(&open);
                            let d = gen_data(r, c, &p);
                            let ps = split_pieces(r, c, &d);
                            Op::WWrite(w, ps.into_iter().find(|x| !x.is_empty()).unwrap_or_default())
                        }
                        4 if !open.is_empty() => {
                            let i = r.below(open.len() as u64) as usize;
                            made += 1;
                            Op::WFinish(open.remove(i))
                        }
                        5 if !open.is_empty() => {
                            let i = r.below(open.len() as u64) as usize;
                            Op::WDrop(open.remove(i))
                        }
                        _ => Op::FullGc,
                    }
                } else if damage && (!damaged || r.chance(1, 4)) && made > 0 {
                    damaged = true;
                    if r.chance(1, 2) {
                        let d = match r.below(4) {
                            0 => vec![],
                            1 => vec![0xFF],
                            2 => p.blocks[0].clone(),
                            _ => { let n = 1 + r.below(c as u64 + 1) as usize; r.bytes(n) }
                        };
                        Op::Corrupt { sel: r.below(8) as u32, data: d }
                    } else {
                        Op::DropChunk { sel: r.below(8) as u32 }
                    }
                } else {
                    Op::Get(pick_art(r, made))
                }
            }
        };
        ops.push(op);
    }
    // finish what is still open so that the read-back oracle sees it
    for w in open {
        ops.push(Op::WFinish(w));
    }
    ops
}

/// Writers that STAY OPEN across deletes and incremental gc cycles of the content they deduplicate against: a few
/// artifacts from a small block pool, one to three open writers fed blocks of the same pool (dedup hits, repeats),
/// then deletes / gc (every age, partial batches) / more writes / puts in any order, finish or drop, read back.
/// full_gc / repair (the known findings against open writers) only now and then.
fn gen_open_writers(r: &mut Rng, c: usize, len: usize) -> Vec<Op> {
    let p = pool(r, c);
    let mut ops = Vec::new();
    let mut made: u32 = 0;
    let mut live: Vec<u32> = vec![];
    let mut open: Vec<u32> = vec![];
    let mut next_w = 0u32;
    let blocks = |r: &mut Rng, n: usize| -> Vec<u8> {
        let mut d = Vec::new();
        for _ in 0..n {
            d.extend_from_slice(&p.blocks[r.below(p.blocks.len() as u64) as usize]);
        }
        d
    };
    for _ in 0..1 + r.below(3) {
        let n = 1 + r.below(3) as usize;
        let mut d = blocks(r, n);
        if r.chance(1, 2) {
            d.extend_from_slice(&p.tails[r.below(p.tails.len() as u64) as usize]);
        }
        ops.push(Op::Put(d));
        live.push(made);
        made += 1;
    }
    while ops.len() < len {
        let op = match r.below(100) {
            0..=11 if open.len() < 3 => {
                let w = next_w;
                next_w += 1;
                open.push(w);
                Op::WOpen(w)
            }
            0..=33 if !open.is_empty() => {
                // whole blocks (dedup hits), sometimes cut so that a chunk straddles two writes
                let n = 1 + r.below(3) as usize;
                let mut d = blocks(r, n);
                if c > 1 && r.chance(1, 3) {
                    d.truncate(d.len() - 1 - r.below(c as u64 - 1) as usize);
                }
                Op::WWrite(*r.pick(&open), d)
            }
            34..=53 if !live.is_empty() => {
                let i = r.below(live.len() as u64) as usize;
                Op::Delete(live.remove(i))
            }
            54..=69 => Op::Gc { back: *r.pick(&[0, 0, 0, 1, 3]), age: r.below(3) },
            70..=74 => Op::GcBatch { back: 0, b: 1 + r.below(4) as usize },
            75..=82 if !open.is_empty() => {
                let i = r.below(open.len() as u64) as usize;
                live.push(made);
                made += 1;
                Op::WFinish(open.remove(i))
            }
            83..=85 if !open.is_empty() => {
                let i = r.below(open.len() as u64) as usize;
                Op::WDrop(open.remove(i))
            }
            86..=91 => {
                let n = 1 + r.below(2) as usize;
                live.push(made);
                made += 1;
                Op::Put(blocks(r, n))
            }
            92..=93 => Op::FullGc,
            94 => Op::Repair,
            95..=96 if made > 0 => Op::CExist(r.below(made as u64) as u32),
            _ if made > 0 => Op::Get(r.below(made as u64) as u32),
            _ => Op::Stats,
        };
        ops.push(op);
    }
    for w in open {
        ops.push(Op::WFinish(w));
    }
    ops.push(Op::Gc { back: 0, age: 0 });
    ops
}

fn run_stream(m: &mut Model, rep: &mut Report, r: &mut Rng, stream: &str, n: u64, writers: bool, damage: bool, api: bool) {
    let mut reported: BTreeSet<String> = BTreeSet::new();
    for _ in 0..n {
        let c = *r.pick(&[1usize, 2, 3, 4, 4, 5, 8]);
        let max = if r.chance(1, 6) { Some(c * (1 + r.below(4) as usize)) } else { None };
        let len = 4 + r.below(if damage { 14 } else { 28 }) as usize;
        let ops = if stream == "open-writers" { gen_open_writers(r, c, len.max(8)) } else { gen_seq(r, c, len, writers, damage, api) };
        let out = run_case(m, rep, stream, c, max, &ops, false);
        let key = out.lines.join(";");
        rep.case(stream, if out.wrote && out.changed { Some(&key) } else { None });
        if rep.samples.len() < 10 && out.wrote && out.changed && r.chance(1, 40) {
            rep.sample(json!({"stream": stream, "lines": out.lines}));
        }
        if let Some((kind, class)) = out.failed {
            // shrink once per (kind, class): the minimal op list goes to the report as an observation + sample
            let tagk = format!("{kind}:{class}");
            if reported.insert(tagk.clone()) {
                let want = (kind.clone(), class.clone());
                let small = shrink_list(&ops, &mut |cand: &[Op]| {
                    let o = run_case(m, rep, stream, c, max, cand, true);
                    o.failed.as_ref() == Some(&want)
                });
                let o = run_case(m, rep, stream, c, max, &small, true);
                rep.observe(json!({"minimised": tagk, "stream": stream, "chunk_size": c, "max_size": max, "lines": o.lines}));
                rep.hit(&format!("shrunk.{kind}"));
            }
        }
    }
}

// ---------------------------------------------------------------- directed scenarios

fn directed(m: &mut Model, rep: &mut Report) {
    let b = |x: u8, n: usize| vec![x; n];
    let gc_now = Op::Gc { back: 0, age: 0 }; // every record stamped up to this step is old enough
    let cases: Vec<(&str, usize, Option<usize>, Vec<Op>)> = vec![
        // ---- a writer that stays open while the artifacts it deduplicates against are deleted and collected.
        // The reference a writer takes on an EXISTING chunk at write time is the only thing that keeps the chunk
        // through delete + incremental gc (Props: open_writer_chunks_survive_gc,
        // finished_artifact_readable_after_any_sequential_history; deferred_refs_writer_loses_chunk_witness).
        // a0 = [1,2][3,4][5]; the writer stores [1,2] [3,4] (both dedup hits) in odd pieces and stays open; a0 deleted;
        // gc; the writer writes the tail and finishes; read back, verify, per-chunk existence; delete; full collection.
        ("open-writer-dedup-delete-gc-finish", 2, None, vec![
            Op::Put(vec![1, 2, 3, 4, 5]), Op::WOpen(0), Op::WWrite(0, vec![1]), Op::WWrite(0, vec![2, 3, 4]), Op::Delete(0), gc_now.clone(),
            Op::WWrite(0, vec![5]), Op::WFinish(0), Op::CExist(1), Op::Get(1), Op::Verify(1), Op::Stats, Op::Delete(1), Op::FullGc, Op::Stats,
        ]),
        // control: the same without a collection while the writer is open, gc after finish
        ("open-writer-dedup-delete-finish-gc", 2, None, vec![
            Op::Put(vec![1, 2, 3, 4, 5]), Op::WOpen(0), Op::WWrite(0, vec![1, 2, 3, 4]), Op::Delete(0), Op::WWrite(0, vec![5]), Op::WFinish(0),
            gc_now.clone(), Op::CExist(1), Op::Get(1), Op::Verify(1), Op::Delete(1), gc_now.clone(), Op::Stats,
        ]),
        // control: gc before the delete and again after finish
        ("open-writer-dedup-gc-delete-finish-gc", 2, None, vec![
            Op::Put(vec![1, 2, 3, 4, 5]), Op::WOpen(0), Op::WWrite(0, vec![1, 2, 3, 4]), gc_now.clone(), Op::Delete(0), Op::WWrite(0, vec![5]), Op::WFinish(0),
            gc_now.clone(), Op::Get(1), Op::Verify(1),
        ]),
        // two shared chunks, one new chunk, a partially shared second artifact: a0 = [1,2][3,4][5,6][7], a1 = [3,4][9,9];
        // the writer stores [1,2] [3,4] [8,8]; a0 deleted, gc (takes [5,6] [7] only); a1 deleted, gc (takes [9,9] only)
        ("open-writer-two-shared-chunks-partial-artifact", 2, None, vec![
            Op::Put(vec![1, 2, 3, 4, 5, 6, 7]), Op::Put(vec![3, 4, 9, 9]), Op::WOpen(0), Op::WWrite(0, vec![1, 2, 3]), Op::WWrite(0, vec![4, 8, 8]),
            Op::Delete(0), gc_now.clone(), Op::Get(1), Op::Delete(1), Op::GcBatch { back: 0, b: 9 }, Op::Stats, Op::WWrite(0, vec![7]), Op::WFinish(0),
            Op::CExist(2), Op::Get(2), Op::Verify(2), gc_now.clone(), Op::Get(2),
        ]),
        // the same chunk twice in one writer and once in a second writer that is dropped; the chunk starts as an old orphan
        ("open-writers-repeated-and-dropped", 2, None, vec![
            Op::Put(vec![1, 2]), Op::WOpen(0), Op::WOpen(1), Op::WWrite(0, vec![1, 2, 1, 2]), Op::WWrite(1, vec![1, 2, 6]), Op::Delete(0), gc_now.clone(),
            Op::WDrop(1), gc_now.clone(), Op::WFinish(0), Op::Get(1), Op::Verify(1), Op::Delete(1), gc_now.clone(), Op::Stats, Op::Repair, Op::Stats,
        ]),
        ("boundaries", 4, None, vec![
            Op::Put(vec![]), Op::Put(b(1, 1)), Op::Put(b(1, 3)), Op::Put(b(1, 4)), Op::Put(b(1, 5)), Op::Put(b(1, 41)),
            Op::Stream(vec![]), Op::Stream(vec![vec![], vec![]]), Op::Stream(vec![b(1, 1), b(1, 2), b(1, 1), b(1, 1)]),
            Op::Delete(1), Op::Gc { back: 0, age: 0 }, Op::Delete(3), Op::Delete(3), Op::Gc { back: 0, age: 2 }, Op::FullGc, Op::Repair,
        ]),
        ("shared-delete", 2, None, vec![
            Op::Put(vec![1, 2, 3, 4]), Op::Put(vec![1, 2, 9, 9]), Op::Put(vec![3, 4]), Op::Delete(0), Op::Gc { back: 0, age: 0 },
            Op::Get(1), Op::Get(2), Op::Delete(1), Op::Gc { back: 0, age: 0 }, Op::Delete(2), Op::Gc { back: 5, age: 1 }, Op::Gc { back: 0, age: 0 },
        ]),
        ("repeated-chunk", 2, None, vec![
            Op::Put(vec![7, 7, 7, 7, 7, 7, 7]), Op::Put(vec![7, 7]), Op::Delete(0), Op::Gc { back: 0, age: 0 }, Op::Get(1), Op::Delete(1), Op::GcSat, Op::Gc { back: 0, age: 0 },
        ]),
        ("abandoned-writer-leak", 2, None, vec![
            Op::Abandon(vec![vec![1, 2, 3]]), Op::Put(vec![1, 2]), Op::Delete(0), Op::Gc { back: 0, age: 0 }, Op::Repair, Op::Put(vec![1, 2, 3]), Op::Abandon(vec![vec![1, 2, 3, 4, 5]]), Op::FullGc,
        ]),
        ("max-size", 3, Some(5), vec![Op::Put(b(2, 5)), Op::Put(b(2, 6)), Op::Stream(vec![b(2, 9)]), Op::Put(vec![])]),
        // the model-derived witness `open_writer_full_gc_witness`: a collector between write() and finish()
        ("open-writer-vs-full-gc", 2, None, vec![Op::WOpen(0), Op::WWrite(0, vec![1, 2, 3]), Op::FullGc, Op::WFinish(0), Op::Get(0)]),
        ("open-writer-vs-repair", 2, None, vec![Op::Put(vec![5, 5]), Op::WOpen(0), Op::WWrite(0, vec![1, 2, 3, 4]), Op::Repair, Op::WFinish(0), Op::Get(1)]),
        ("open-writer-vs-gc", 2, None, vec![Op::Put(vec![1, 2]), Op::Delete(0), Op::WOpen(0), Op::WWrite(0, vec![1, 2, 3]), Op::Gc { back: 0, age: 0 }, Op::WFinish(0), Op::Get(1)]),
        // streaming reader: every buffer size around the chunk size; other artifacts deleted and collected between reads
        ("reader-buffers", 3, None, vec![
            Op::Put(vec![1, 2, 3, 4, 5, 6, 7]), Op::Put(vec![1, 2, 3, 9]), Op::ROpen(0, 0), Op::RRead(0, 1), Op::RRead(0, 0), Op::RRead(0, 5), Op::Delete(1),
            Op::Gc { back: 0, age: 0 }, Op::RRead(0, 3), Op::RRead(0, 2), Op::FullGc, Op::RRead(0, 4), Op::RRead(0, 4), Op::RVerify(0), Op::RAll(0), Op::RNext(0),
            Op::ROpen(1, 0), Op::RNext(1), Op::RRead(1, 2), Op::RAll(1), Op::RRead(1, 2), Op::RDrop(1), Op::ROpen(2, 7),
        ]),
        // a reader outlives its artifact: the chunks go with the next collection
        ("reader-vs-delete", 2, None, vec![
            Op::Put(vec![1, 2, 3, 4, 5]), Op::ROpen(0, 0), Op::RRead(0, 1), Op::Delete(0), Op::RRead(0, 1), Op::RNext(0), Op::Gc { back: 0, age: 0 }, Op::RNext(0), Op::RRead(0, 9), Op::RVerify(0), Op::RAll(0),
        ]),
        ("queries", 2, None, vec![
            Op::Stats, Op::Orphans, Op::Put(vec![1, 2, 3, 4]), Op::Put(vec![1, 2, 5]), Op::Exists(0), Op::Exists(2), Op::Stats, Op::CExist(0), Op::CExist(5), Op::VChunk { sel: 0 }, Op::VChunk { sel: 3 },
            Op::Abandon(vec![vec![8, 8, 8]]), Op::Stats, Op::Orphans, Op::Delete(0), Op::Stats, Op::Orphans, Op::VChunk { sel: 1 }, Op::Touch(1, 0), Op::Touch(1, 1), Op::Touch(1, 3), Op::Touch(1, 5), Op::Touch(1, 6),
            Op::Touch(1, 2), Op::Touch(1, 4), Op::Touch(0, 0), Op::Get(1), Op::Verify(1), Op::Delete(1), Op::Stats, Op::FullGc, Op::Stats,
        ]),
        // gc_cycle with a batch below the chunk count, then the background task finishes the job
        ("gc-batches", 1, None, vec![
            Op::Put(vec![1, 2, 3, 4, 5]), Op::Put(vec![4, 5, 6]), Op::Delete(0), Op::GcBatch { back: 0, b: 1 }, Op::GcBatch { back: 0, b: 2 }, Op::Stats, Op::GcBatch { back: 0, b: 9 }, Op::Stats,
            Op::Put(vec![7, 8]), Op::Delete(1), Op::BgGc { back: 5 }, Op::Stats, Op::BgGc { back: 0 }, Op::Stats, Op::Get(2),
        ]),
        ("verify-damage", 2, None, vec![
            Op::Put(vec![1, 2, 3, 4]), Op::Put(vec![3, 4, 5]), Op::Verify(0), Op::Corrupt { sel: 1, data: vec![3, 5] }, Op::Verify(0), Op::Verify(1), Op::Get(0),
            Op::DropChunk { sel: 0 }, Op::Verify(0), Op::Verify(1), Op::VChunk { sel: 0 }, Op::VChunk { sel: 1 }, Op::VChunk { sel: 2 }, Op::VChunk { sel: 3 }, Op::CExist(0), Op::CExist(1),
            Op::ROpen(0, 0), Op::RRead(0, 1), Op::RAll(0), Op::RVerify(0), Op::ROpen(1, 1), Op::RVerify(1), Op::Orphans, Op::Stats, Op::Repair,
        ]),
    ];
    for (name, c, max, ops) in cases {
        let out = run_case(m, rep, "directed", c, max, &ops, false);
        rep.case("directed", Some(name));
        rep.hit(&format!("directed.{name}.{}", out.failed.map(|f| f.1).unwrap_or_else(|| "pass".into())));
        if rep.samples.len() < 3 {
            rep.sample(json!({"stream": "directed", "name": name, "lines": out.lines}));
        }
    }
    // verify cannot see a change that leaves the concatenation intact (two chunks altered at once):
    // outside the per-chunk quantifier of the property as far as the artifact's bytes are concerned; recorded, not judged.
    let r = Real::new(2, None);
    let id = bo(r.blob.put("f", &[1, 2, 3, 4], PutOptions::default())).unwrap();
    let keys = r.ts.get(&format!("{META_PREFIX}{id}")).ok().and_then(|t| t_ptrs(&t, "_chunks")).unwrap_or_default();
    for (k, d) in keys.iter().zip([vec![1u8], vec![2u8, 3, 4]]) {
        let mut rec = r.ts.get(k).unwrap();
        rec.set("_data", TensorValue::Scalar(ScalarValue::Bytes(d)));
        r.ts.put(k, rec).unwrap();
    }
    let v = r.blob.verify(&id);
    let g = bo(r.blob.get(&id)).ok();
    rep.observe(json!({"what": "chunk boundary moved inside the store (chunks [1,2][3,4] rewritten as [1][2,3,4]): whole-artifact checksum verify",
        "verify": format!("{v:?}"), "bytes_still_equal": g == Some(vec![1, 2, 3, 4]),
        "lean": "verify_boundary_shift_undetected_witness"}));
}

// ---------------------------------------------------------------- pure chunker

fn chunker_stream(m: &mut Model, rep: &mut Report, r: &mut Rng, n: u64) {
    for _ in 0..n {
        let c = 1 + r.below(9) as usize;
        let len = match r.below(8) {
            0 => 0,
            1 => 1,
            2 => c - 1,
            3 => c,
            4 => c + 1,
            5 => 3 * c,
            _ => r.below(40) as usize,
        };
        let d = r.bytes(len);
        let parts: Vec<Vec<u8>> = Chunker::new(c).chunk(&d).map(|x| x.data).collect();
        let imp = format!("{};", parts.iter().map(|p| hex(p)).collect::<Vec<_>>().join(","));
        let line = format!("chunks {c} {}", hex(&d));
        rep.compare("chunker", || json!({"c": c, "data": hex(&d)}), &imp, &m.ask(&line));
        if parts.concat() != d || parts.iter().any(|p| p.is_empty() || p.len() > c) || parts.iter().rev().skip(1).any(|p| p.len() != c) || parts.len() != Chunker::new(c).chunk_count(len) {
            vio(rep, "tensor_blob.chunker/not_a_partition", "chunks do not concatenate to the data in full-size pieces", json!({"c": c, "data": hex(&d)}));
        }
        rep.case("chunker", if parts.len() >= 2 { Some(&line) } else { None });
    }
}

// ---------------------------------------------------------------- real threads (oracle only)

/// The operations of one round of the threads stream executed ONE AFTER THE OTHER on a fresh store (two serial orders:
/// writers, deleters, collector — and deleters, collector, writers), with the oracles of the round and its sequential
/// continuation.  The known findings of that stream are about overlapping refcount updates of real threads; a round
/// whose operations already fail serially does not show that cause and is reported under a class of its own.
fn threads_serial_control(c: usize, shared: &[u8], nthreads: usize, npre: usize, with_gc: bool, with_full: bool) -> Option<String> {
    for order in 0..2 {
        let ts = TensorStore::new();
        let b0 = bo(BlobStore::new(ts.clone(), cfg(c, None).with_gc_min_age(Duration::from_secs(0)))).unwrap();
        let pre: Vec<String> = (0..npre).map(|_| bo(b0.put("p", shared, PutOptions::default())).unwrap()).collect();
        let age = |ts: &TensorStore| {
            for k in ts.scan(CHUNK_PREFIX) {
                let mut rec = ts.get(&k).unwrap();
                rec.set("_created", TensorValue::Scalar(ScalarValue::Int(1)));
                ts.put(&k, rec).unwrap();
            }
        };
        age(&ts);
        let mut kept: Vec<String> = Vec::new();
        let writers = |kept: &mut Vec<String>| {
            for _ in 0..nthreads {
                if let Ok(id) = bo(b0.put("w", shared, PutOptions::default())) {
                    kept.push(id);
                }
            }
        };
        let rest = || {
            for id in &pre {
                let _ = bo(b0.delete(id));
            }
            for _ in 0..3 {
                if with_full {
                    let _ = bo(b0.full_gc());
                } else if with_gc {
                    let _ = bo(b0.gc());
                }
            }
        };
        if order == 0 {
            writers(&mut kept);
            rest();
        } else {
            rest();
            writers(&mut kept);
        }
        if kept.len() != nthreads || kept.iter().any(|id| bo(b0.get(id)).ok().as_deref() != Some(shared)) {
            return Some(format!("serial order {order}: an artifact that was put and never deleted does not read back"));
        }
        let occ = occurrences(&ts);
        if occ.iter().any(|(k, o)| ts.get(k).ok().and_then(|t| t_int(&t, "_refs")).unwrap_or(0) < *o) {
            return Some(format!("serial order {order}: a refcount is below the number of listings"));
        }
        for id in kept.iter().skip(1) {
            let _ = bo(b0.delete(id));
        }
        age(&ts);
        let _ = bo(b0.gc());
        if kept.first().map(|id| bo(b0.get(id)).ok().as_deref() != Some(shared)).unwrap_or(false) {
            return Some(format!("serial order {order}: after deleting the other artifacts and gc() the survivor does not read back"));
        }
    }
    None
}

/// 2–4 real threads put / delete artifacts with overlapping content while a collector thread runs.
/// Nothing here is compared with the model (the schedule is not controlled); the oracles are the property itself:
/// every artifact whose put succeeded and that nobody deleted must read back, and refs >= occurrences.
fn thread_stream(rep: &mut Report, r: &mut Rng, rounds: u64) {
    let mut lost_update = 0u64;
    let mut collected = 0u64;
    for round in 0..rounds {
        let c = 4usize;
        let ts = TensorStore::new();
        let mk = |ts: &TensorStore, age: u64| bo(BlobStore::new(ts.clone(), cfg(c, None).with_gc_min_age(Duration::from_secs(age)))).unwrap();
        let nblocks = 24 + r.below(40) as usize;
        let shared: Vec<u8> = (0..nblocks * c).map(|i| (i / c) as u8).collect();
        let nthreads = 2 + r.below(3) as usize;
        let with_gc = r.chance(1, 2);
        let with_full = !with_gc && r.chance(1, 2);
        // pre-existing artifacts with the same content, to be deleted concurrently
        let b0 = mk(&ts, 0);
        let npre = r.below(3) as usize;
        let pre: Vec<String> = (0..npre).map(|_| bo(b0.put("p", &shared, PutOptions::default())).unwrap()).collect();
        // make every existing record old enough for gc_cycle
        for k in ts.scan(CHUNK_PREFIX) {
            let mut rec = ts.get(&k).unwrap();
            rec.set("_created", TensorValue::Scalar(ScalarValue::Int(1)));
            ts.put(&k, rec).unwrap();
        }
        let barrier = Arc::new(Barrier::new(nthreads + npre + usize::from(with_gc || with_full)));
        let mut kept: Vec<String> = Vec::new();
        std::thread::scope(|sc| {
            let mut hs = Vec::new();
            for _ in 0..nthreads {
                let ts = ts.clone();
                let bar = barrier.clone();
                let data = shared.clone();
                hs.push(sc.spawn(move || {
                    let b = bo(BlobStore::new(ts, cfg(c, None))).unwrap();
                    bar.wait();
                    bo(b.put("w", &data, PutOptions::default())).ok()
                }));
            }
            let mut ds = Vec::new();
            for id in &pre {
                let ts = ts.clone();
                let bar = barrier.clone();
                let id = id.clone();
                ds.push(sc.spawn(move || {
                    let b = bo(BlobStore::new(ts, cfg(c, None))).unwrap();
                    bar.wait();
                    let _ = bo(b.delete(&id));
                }));
            }
            if with_gc || with_full {
                let ts = ts.clone();
                let bar = barrier.clone();
                ds.push(sc.spawn(move || {
                    let b = bo(BlobStore::new(ts, cfg(c, None).with_gc_min_age(Duration::from_secs(0)))).unwrap();
                    bar.wait();
                    for _ in 0..3 {
                        if with_full {
                            let _ = bo(b.full_gc());
                        } else {
                            let _ = bo(b.gc());
                        }
                    }
                }));
            }
            for h in hs {
                if let Ok(Some(id)) = h.join() {
                    kept.push(id);
                }
            }
            for d in ds {
                let _ = d.join();
            }
        });
        let input = json!({"round": round, "writers": nthreads, "deleters": npre, "gc": with_gc, "full_gc": with_full, "chunks_per_artifact": nblocks, "chunk_size": c});
        rep.hit(&format!("threads.w{nthreads}.d{npre}.{}", if with_gc { "gc" } else if with_full { "full_gc" } else { "nogc" }));
        // the same operations without concurrency: whatever fails here is not a finding about overlapping threads
        let serial = threads_serial_control(c, &shared, nthreads, npre, with_gc, with_full);
        if let Some(why) = &serial {
            vio(rep, "tensor_blob.threads/round_fails_without_concurrency", &format!("the operations of a threads round, executed one after the other on a fresh store, break the round's oracle ({why})"), input.clone());
        }
        rep.hit(if serial.is_some() { "threads.serial_control.fails" } else { "threads.serial_control.passes" });
        let conc_class = |known: &str| if serial.is_some() { "tensor_blob.threads/round_fails_without_concurrency".to_string() } else { known.to_string() };
        // oracle: surviving artifacts read back
        let mut bad = false;
        for id in &kept {
            if bo(b0.get(id)).ok().as_ref() != Some(&shared) {
                bad = true;
            }
        }
        if bad {
            collected += 1;
            let site = if with_full { "full_gc" } else if with_gc { "gc" } else { "writer" };
            vio(rep, &conc_class(&format!("tensor_blob.{site}/live_chunk_collected")), "real threads: an artifact whose put succeeded and that was never deleted cannot be read back after concurrent puts/deletes/collection of the same content", input.clone());
        }
        // oracle: refs >= occurrences; a lost update is turned into a collected live chunk deterministically
        let occ = occurrences(&ts);
        let low: Vec<&String> = occ.iter().filter(|(k, o)| ts.get(k).ok().and_then(|t| t_int(&t, "_refs")).unwrap_or(0) < **o).map(|x| x.0).collect();
        if !low.is_empty() && !bad {
            lost_update += 1;
            // sequential continuation: delete all but one survivor, age, gc_cycle
            for id in kept.iter().skip(1) {
                let _ = bo(b0.delete(id));
            }
            for k in ts.scan(CHUNK_PREFIX) {
                let mut rec = ts.get(&k).unwrap();
                rec.set("_created", TensorValue::Scalar(ScalarValue::Int(1)));
                ts.put(&k, rec).unwrap();
            }
            let _ = bo(b0.gc());
            let survivor_ok = kept.first().map(|id| bo(b0.get(id)).ok().as_ref() == Some(&shared)).unwrap_or(true);
            vio(rep, &conc_class("tensor_blob.refs/lost_update"), "real threads: concurrent put/delete of identical content left a refcount below the number of live references (read-modify-write on `_refs` is not atomic)", input.clone());
            if !survivor_ok {
                vio(rep, &conc_class("tensor_blob.gc/live_chunk_collected"), "after a refcount lost update, deleting the other artifacts and running gc() removed chunks of a live artifact", input);
            }
        }
        rep.case("threads", Some(&format!("{round}")));
    }
    rep.note(&format!("threads stream (oracle only, uncontrolled schedule): {rounds} rounds, {lost_update} with a refcount lost update, {collected} with an unreadable survivor"));
}

// ---------------------------------------------------------------- concurrent part: real threads under the deterministic scheduler

#[derive(Clone, Debug)]
enum TSpec {
    Put(Vec<u8>),
    /// delete the pre-existing artifact a<n>
    Del(u32),
    /// set_meta on the pre-existing artifact a<n> (get the metadata record, put it back)
    Touch(u32),
    Gc,
    FullGc,
}

#[derive(Clone, Debug)]
struct ConcCase {
    chunk: usize,
    /// sequential prefix (Put / Delete / Abandon only)
    pre: Vec<Op>,
    threads: Vec<TSpec>,
    /// call-level schedule to follow (thread index per `TensorStore` call); None = seeded random;
    /// an empty script = round robin over the parked threads
    script: Option<Vec<usize>>,
    /// sequential suffix (Put / Delete / Gc / FullGc), run after the threads have finished
    post: Vec<Op>,
}

fn conc_json(c: &ConcCase, sched: &[usize]) -> Value {
    json!({"chunk_size": c.chunk, "pre": c.pre.iter().map(op_json).collect::<Vec<_>>(),
        "threads": c.threads.iter().map(|t| match t {
            TSpec::Put(d) => json!({"put": hex(d)}), TSpec::Del(a) => json!({"delete": a}), TSpec::Touch(a) => json!({"set_meta": a}), TSpec::Gc => json!("gc"), TSpec::FullGc => json!("full_gc") }).collect::<Vec<_>>(),
        "schedule": sched, "post": c.post.iter().map(op_json).collect::<Vec<_>>()})
}

const T_CONC: u64 = 900; // logical stamp of chunks created by the threads
const MC_CONC: u64 = 500; // the collector threads take records older than this

/// one sequential op of the prefix / suffix on both sides; returns false on disagreement
fn conc_seq_op(r: &mut Real, m: &mut Model, rep: &mut Report, stream: &str, t: u64, op: &Op, input: &dyn Fn() -> Value) -> bool {
    let (line, imp): (String, String) = match op {
        Op::Put(d) => {
            let a = match bo(r.blob.put("f", d, PutOptions::default())) {
                Ok(id) => {
                    let ix = r.alpha(&id);
                    r.expect.insert(ix, Some(d.clone()));
                    format!("ok a{ix}")
                }
                Err(e) => err_class(&e).to_string(),
            };
            (format!("put {t} {}", hex(d)), a)
        }
        Op::Abandon(ps) => {
            let mut w = bo(r.blob.writer("f", PutOptions::default())).unwrap();
            for p in ps {
                let _ = bo(w.write(p));
            }
            drop(w);
            r.slack = true;
            (format!("abandon {t} {}", pieces_txt(ps)), "ok".into())
        }
        Op::Delete(a) => {
            let id = r.uuid_of(*a);
            let x = match bo(r.blob.delete(&id)) {
                Ok(()) => {
                    r.expect.insert(*a as usize, None);
                    "ok".to_string()
                }
                Err(e) => err_class(&e).to_string(),
            };
            (format!("delete a{a}"), x)
        }
        Op::Gc { back, age } => {
            let thr = t.saturating_sub(*back);
            let b = bo(BlobStore::new(r.ts.clone(), cfg(r.chunk, None).with_gc_min_age(min_age_for(thr)))).unwrap();
            let s = bo(b.gc()).unwrap();
            (format!("gc {} {}", thr + 1 + age, age), format!("ok {} {}", s.deleted, s.freed_bytes))
        }
        Op::FullGc => {
            let x = match bo(r.blob.full_gc()) {
                Ok(s) => format!("ok {} {}", s.deleted, s.freed_bytes),
                Err(e) => err_class(&e).to_string(),
            };
            ("fullgc".into(), x)
        }
        _ => ("image".into(), r.image()),
    };
    let mut dummy = Report::new("");
    r.restamp(t, &mut dummy, input);
    let both = m.ask(&format!("! {line}"));
    let (mo, mimg) = both.split_once('\t').map(|(a, b)| (a.to_string(), b.to_string())).unwrap_or((both.clone(), String::new()));
    let a = rep.compare(&format!("{stream}.seq_answer"), || json!({"case": input(), "line": line}), &imp, &mo);
    let b = rep.compare(&format!("{stream}.seq_image"), || json!({"case": input(), "line": line}), &r.image(), &mimg);
    a && b
}

struct ConcOut {
    sched: Vec<usize>,
    model_line: String,
    /// oracle failures (class of the oracle, what, the damaged chunks behind the failure as hex of their content:
    /// listed by an existing artifact and missing, or with `_refs` below the number of listings; empty = the
    /// failure could not be traced to a chunk record; kind = "missing" | "lowrefs" after the threads,
    /// "post-gc" | "post-full_gc" | "post-other" = newly missing after that sequential operation of the suffix)
    failures: Vec<(String, String, BTreeSet<String>, &'static str)>,
    /// the granted `TensorStore` calls of the threads (thread, label), in order
    trace: Vec<(usize, String)>,
    agreed: bool,
}

const DOUBLE_DECREMENT: &str = "tensor_blob.delete/double_decrement";

/// Chunks (hex of content) whose refcount was written back (`p:`) by at least two DIFFERENT deleter threads of the
/// SAME artifact in this trace: both read the metadata record before either removed it and both decremented.
/// Computed from the granted calls only, so that a failure in a run where the second deleter got NotFound, or on a
/// chunk the two deleters did not both decrement, is never filed under the double-decrement class.
fn double_decremented(case: &ConcCase, trace: &[(usize, String)]) -> BTreeMap<String, u32> {
    let mut by: BTreeMap<(u32, String), BTreeSet<usize>> = BTreeMap::new();
    for (th, l) in trace {
        if let (Some(TSpec::Del(a)), Some(x)) = (case.threads.get(*th), l.strip_prefix("p:")) {
            by.entry((*a, x.to_string())).or_default().insert(*th);
        }
    }
    by.into_iter().filter(|(_, ths)| ths.len() >= 2).map(|((a, x), _)| (x, a)).collect()
}

/// Chunks (hex of content) on whose record the visits of two DIFFERENT threads overlapped in this trace with a write
/// inside: a visit = the consecutive calls one thread makes on one chunk record for one step of its operation
/// (writer `e [p | g [p]]`, deleter `g [p]`, gc_cycle / full_gc `g [d]`); overlap = another thread's `p:` / `d:` of the
/// same record falls strictly between the first and the last call of a visit.  This is the stated cause of
/// tensor_blob.refs/lost_update (two read-modify-writes of `_refs` overlapped) and of tensor_blob.gc/live_chunk_collected
/// (its consequence, or a gc_cycle's read-then-delete overlapped a put of that chunk).  Without such an overlap the calls
/// on that record were serial, and a damaged record is not filed under those findings.
fn overlapped(trace: &[(usize, String)]) -> BTreeSet<String> {
    struct Visit {
        th: usize,
        x: String,
        first: usize,
        last: usize,
    }
    let chunk_call = |l: &str| -> Option<(String, String)> {
        l.split_once(':').filter(|(k, _)| matches!(*k, "e" | "g" | "p" | "d")).map(|(k, x)| (k.to_string(), x.to_string()))
    };
    let mut cur: HashMap<usize, Visit> = HashMap::new();
    let mut visits: Vec<Visit> = Vec::new();
    for (pos, (th, l)) in trace.iter().enumerate() {
        match chunk_call(l) {
            None => {
                if let Some(v) = cur.remove(th) {
                    visits.push(v);
                }
            }
            Some((kind, x)) => {
                let cont = kind != "e" && cur.get(th).map(|v| v.x == x).unwrap_or(false);
                if cont {
                    cur.get_mut(th).unwrap().last = pos;
                } else {
                    if let Some(v) = cur.remove(th) {
                        visits.push(v);
                    }
                    cur.insert(*th, Visit { th: *th, x, first: pos, last: pos });
                }
                if kind == "p" || kind == "d" {
                    visits.push(cur.remove(th).unwrap());
                }
            }
        }
    }
    visits.extend(cur.into_values());
    let writes: Vec<(usize, usize, String)> = trace
        .iter()
        .enumerate()
        .filter_map(|(pos, (th, l))| chunk_call(l).filter(|(k, _)| k == "p" || k == "d").map(|(_, x)| (pos, *th, x)))
        .collect();
    visits
        .iter()
        .filter(|v| v.first < v.last && writes.iter().any(|(p, th, x)| *th != v.th && *x == v.x && v.first < *p && *p < v.last))
        .map(|v| v.x.clone())
        .collect()
}

/// Chunks a full_gc THREAD deleted (`d:`) although a writer thread that stores that chunk had not yet put its metadata
/// record when the full_gc scanned the metadata (`sm`): the stated cause of tensor_blob.full_gc/live_chunk_collected.
fn full_gc_removed_unfinished(case: &ConcCase, trace: &[(usize, String)]) -> BTreeSet<String> {
    let mut out = BTreeSet::new();
    for (f, sp) in case.threads.iter().enumerate() {
        if !matches!(sp, TSpec::FullGc) {
            continue;
        }
        let Some(sm) = trace.iter().position(|(th, l)| *th == f && l == "sm") else { continue };
        for (_, l) in trace.iter().filter(|(th, l)| *th == f && l.starts_with("d:")) {
            let x = &l[2..];
            let open_writer = case.threads.iter().enumerate().any(|(w, wsp)| match wsp {
                TSpec::Put(d) => {
                    d.chunks(case.chunk).any(|ch| hex(ch) == x)
                        && trace.iter().position(|(th, l)| *th == w && l.starts_with("pm:")).map(|pm| pm > sm).unwrap_or(true)
                }
                _ => false,
            });
            if open_writer {
                out.insert(x.to_string());
            }
        }
    }
    out
}

/// Run one concurrent case: sequential prefix, real threads under the scheduler (the yield trace is the
/// call sequence), the same call-level schedule on the model (`calls`), sequential suffix; correspondence =
/// trace + image; oracles = the property on the real outputs.
fn run_conc(m: &mut Model, rep: &mut Report, stream: &str, case: &ConcCase, rng: &mut Rng) -> ConcOut {
    let c = case.chunk;
    let mut r = Real::new(c, None);
    m.ask(&format!("reset {c} -"));
    let mut agreed = true;
    let sched_cell: Arc<Mutex<Vec<usize>>> = Arc::new(Mutex::new(Vec::new()));
    let sc2 = sched_cell.clone();
    let case2 = case.clone();
    let input = move || conc_json(&case2, &sc2.lock().unwrap());
    let mut t = 0u64;
    for op in &case.pre {
        t += 1;
        agreed &= conc_seq_op(&mut r, m, rep, stream, t, op, &input);
    }
    // ---- thread specs
    let base = r.ids.len();
    let mut widx = 0usize;
    let mut model_id: Vec<Option<usize>> = Vec::new(); // per thread: the artifact id a writer thread creates
    for sp in &case.threads {
        if let TSpec::Put(d) = sp {
            model_id.push(Some(base + widx));
            widx += 1;
            for ch in d.chunks(c) {
                r.known.entry(format!("{CHUNK_PREFIX}{}", compute_hash(ch))).or_insert_with(|| ch.to_vec());
            }
        } else {
            model_id.push(None);
        }
    }
    let results: Arc<Mutex<Vec<Option<Result<String, String>>>>> = Arc::new(Mutex::new(vec![None; case.threads.len()]));
    let tasks: Vec<Box<dyn FnOnce() + Send>> = case
        .threads
        .iter()
        .enumerate()
        .map(|(i, sp)| {
            let ts = r.ts.clone();
            let sp = sp.clone();
            let res = results.clone();
            let del_id = if let TSpec::Del(a) | TSpec::Touch(a) = &sp { r.uuid_of(*a) } else { String::new() };
            Box::new(move || {
                let conf = cfg(c, None).with_gc_min_age(Duration::from_secs(3600));
                let b = bo(BlobStore::new(ts, conf)).unwrap();
                let out: Result<String, String> = match &sp {
                    TSpec::Put(d) => bo(b.put("w", d, PutOptions::default())).map_err(|e| err_class(&e).to_string()),
                    TSpec::Del(_) => bo(b.delete(&del_id)).map(|_| "ok".to_string()).map_err(|e| err_class(&e).to_string()),
                    TSpec::Touch(_) => bo(b.set_meta(&del_id, "k", "v")).map(|_| "ok".to_string()).map_err(|e| err_class(&e).to_string()),
                    TSpec::Gc => bo(b.gc()).map(|s| format!("{} {}", s.deleted, s.freed_bytes)).map_err(|e| err_class(&e).to_string()),
                    TSpec::FullGc => bo(b.full_gc()).map(|s| format!("{} {}", s.deleted, s.freed_bytes)).map_err(|e| err_class(&e).to_string()),
                };
                res.lock().unwrap()[i] = Some(out);
            }) as Box<dyn FnOnce() + Send>
        })
        .collect();
    // ---- the controlled run
    let known = r.known.clone();
    let ids = r.ids.clone();
    let mut new_meta: HashMap<String, usize> = HashMap::new();
    let mut trace: Vec<(usize, String)> = Vec::new();
    let mut pos = 0usize;
    let mut deviated = false;
    let mut autos = 0u64;
    let _steps = run_threads(tasks, |_n, parked| {
        if let Some(p) = parked.iter().position(|x| x.1 == "thread.start") {
            return p;
        }
        // secondary-index keys are outside the model (no operation of the property reads them): never a scheduling point
        if let Some(p) = parked.iter().position(|x| x.2.starts_with("_blob:idx:")) {
            autos += 1;
            return p;
        }
        let pick = match &case.script {
            Some(sc) if sc.is_empty() => {
                // round robin: the parked thread with the smallest index above the last one granted (cyclic)
                let last = trace.last().map(|x| x.0 as i64).unwrap_or(-1);
                parked.iter().position(|x| x.0 as i64 > last).unwrap_or(0)
            }
            Some(sc) if pos < sc.len() => {
                let want = sc[pos];
                parked.iter().position(|x| x.0 == want).unwrap_or_else(|| {
                    deviated = true;
                    0
                })
            }
            Some(_) => 0,
            None => rng.below(parked.len() as u64) as usize,
        };
        pos += 1;
        let (th, site, key) = &parked[pick];
        let label = if *site == "store.scan" {
            if key.starts_with(CHUNK_PREFIX) { "sc".to_string() } else if key.starts_with(META_PREFIX) { "sm".to_string() } else { format!("scan?{key}") }
        } else if let Some(rest) = key.strip_prefix(META_PREFIX) {
            if *site == "store.put" {
                if let Some(idm) = model_id[*th] {
                    new_meta.insert(rest.to_string(), idm);
                }
            }
            let a = ids.iter().position(|x| x == rest).or_else(|| new_meta.get(rest).copied());
            let kind = match *site { "store.get" => "gm", "store.put" => "pm", "store.delete" => "dm", _ => "?m" };
            format!("{kind}:{}", a.map(|x| x.to_string()).unwrap_or_else(|| "?".into()))
        } else {
            let kind = match *site { "store.exists" => "e", "store.get" => "g", "store.put" => "p", "store.delete" => "d", _ => "?" };
            format!("{kind}:{}", known.get(key).map(|d| hex(d)).unwrap_or_else(|| format!("?{key}")))
        };
        sched_cell.lock().unwrap().push(*th);
        trace.push((*th, label));
        pick
    });
    let sched: Vec<usize> = sched_cell.lock().unwrap().clone();
    if deviated {
        rep.disagree(&format!("{stream}.script"), input(), "the scripted thread was not parked at its turn", "script");
        agreed = false;
    }
    rep.hit_n("conc.auto_granted_index_calls", autos);
    // ---- results, new artifact ids in writer order
    let results = results.lock().unwrap().clone();
    let mut new_expect: Vec<(usize, Vec<u8>)> = Vec::new();
    for (i, sp) in case.threads.iter().enumerate() {
        if let TSpec::Put(d) = sp {
            match &results[i] {
                Some(Ok(uuid)) => {
                    r.ids.push(uuid.clone());
                    new_expect.push((r.ids.len() - 1, d.clone()));
                }
                other => {
                    r.ids.push(format!("failed-writer-{i}"));
                    rep.disagree(&format!("{stream}.result"), input(), &format!("{other:?}"), "ok");
                    agreed = false;
                }
            }
        }
    }
    // ---- the same schedule on the model; scan orders are what the real scans produced
    let keys_of = |th: usize, kind: &str| -> String {
        let v: Vec<String> = trace.iter().filter(|(t, l)| *t == th && l.starts_with(kind)).map(|(_, l)| l[kind.len()..].to_string()).collect();
        if v.is_empty() { ".".to_string() } else { v.join(",") }
    };
    let specs: Vec<String> = case
        .threads
        .iter()
        .enumerate()
        .map(|(i, sp)| match sp {
            TSpec::Put(d) => format!("wd:{}:{}", model_id[i].unwrap(), hex(d)),
            TSpec::Del(a) => format!("d:{a}"),
            TSpec::Touch(a) => format!("t:{a}"),
            TSpec::Gc => format!("g:{MC_CONC}:{}", keys_of(i, "g:")),
            TSpec::FullGc => format!("f:{}:{}", keys_of(i, "gm:"), keys_of(i, "g:")),
        })
        .collect();
    let sched_txt = if sched.is_empty() { "-".to_string() } else { sched.iter().map(|x| x.to_string()).collect::<Vec<_>>().join(",") };
    let model_line = format!("calls {T_CONC} {} {}", specs.join(";"), sched_txt);
    let mo = m.ask(&model_line);
    let mut dummy = Report::new("");
    r.restamp(T_CONC, &mut dummy, &input);
    let intact = r.ts.scan(META_PREFIX).iter().all(|mk| check_chunks_exist(&r.ts, mk.trim_start_matches(META_PREFIX)).map(|l| l.is_empty()).unwrap_or(false));
    let n = case.threads.len();
    let tr_txt = if trace.is_empty() { ".".to_string() } else { trace.iter().map(|x| x.1.clone()).collect::<Vec<_>>().join(",") };
    let imp = format!("ok {n}/{n} {} {tr_txt}", if intact { "intact" } else { "broken" });
    agreed &= rep.compare(&format!("{stream}.trace"), || json!({"case": input(), "line": model_line}), &imp, &mo);
    agreed &= rep.compare(&format!("{stream}.image"), || json!({"case": input(), "line": model_line}), &r.image(), &m.ask("image"));
    for (th, l) in &trace {
        rep.hit(&format!("conc.call.{}.{}", match &case.threads[*th] { TSpec::Put(_) => "writer", TSpec::Del(_) => "deleter", TSpec::Touch(_) => "updater", TSpec::Gc => "gc", TSpec::FullGc => "full_gc" }, l.split(':').next().unwrap_or("?")));
    }
    // ---- oracles: the property on the real outputs
    let mut failures: Vec<(String, String, BTreeSet<String>, &'static str)> = Vec::new();
    // chunks listed by an existing artifact that are missing or hold fewer references than listings
    let damaged = |r: &Real| -> BTreeSet<String> {
        occurrences(&r.ts)
            .iter()
            .filter(|(k, o)| r.ts.get(k).ok().and_then(|t| t_int(&t, "_refs")).unwrap_or(0) < **o)
            .map(|(k, _)| r.known.get(k).map(|d| hex(d)).unwrap_or_else(|| format!("?{k}")))
            .collect()
    };
    // ... and the missing ones among them (what makes a survivor unreadable)
    let missing = |r: &Real| -> BTreeSet<String> {
        occurrences(&r.ts).keys().filter(|k| !r.ts.exists(k)).map(|k| r.known.get(k).map(|d| hex(d)).unwrap_or_else(|| format!("?{k}"))).collect()
    };
    let targets: BTreeSet<usize> = case.threads.iter().filter_map(|t| if let TSpec::Del(a) = t { Some(*a as usize) } else { None }).collect();
    let has_full = case.threads.iter().any(|t| matches!(t, TSpec::FullGc));
    let has_gc = case.threads.iter().any(|t| matches!(t, TSpec::Gc));
    let has_writer = case.threads.iter().any(|t| matches!(t, TSpec::Put(_)));
    let n_del = case.threads.iter().filter(|t| matches!(t, TSpec::Del(_))).count();
    // mixes for which a theorem says no untouched artifact can be damaged get their own (unlisted) classes:
    //   no collector thread            -> concurrent_no_collector_partial
    //   no writer, distinct deleters   -> concurrent_deleters_collectors_safe
    let has_updater = case.threads.iter().any(|t| matches!(t, TSpec::Touch(_)));
    let proved_safe = !has_writer && !has_updater && targets.len() == n_del;
    let site = if !has_full && !has_gc {
        "tensor_blob.conc/live_chunk_lost_without_collector"
    } else if proved_safe {
        "tensor_blob.conc/collector_damaged_artifact_next_to_deleters_only"
    } else if has_full {
        "tensor_blob.full_gc/live_chunk_collected"
    } else {
        "tensor_blob.gc/live_chunk_collected"
    };
    for (ix, d) in new_expect {
        r.expect.insert(ix, Some(d));
    }
    for ix in &targets {
        r.expect.insert(*ix, None);
    }
    let survivors_ok = |r: &Real| -> bool {
        r.expect.iter().all(|(ix, e)| match e {
            Some(bytes) => bo(r.blob.get(&r.ids[*ix])).ok().as_ref() == Some(bytes),
            None => true,
        })
    };
    // outside the property's quantifier: a metadata update overlapping the delete of the same artifact re-creates it
    let mut resurrected: Vec<usize> = Vec::new();
    for ix in &targets {
        let deleted_ok = case.threads.iter().enumerate().any(|(i, t)| matches!(t, TSpec::Del(a) if *a as usize == *ix) && matches!(&results[i], Some(Ok(_))));
        if deleted_ok && bo(r.blob.exists(&r.ids[*ix])).unwrap_or(false) {
            resurrected.push(*ix);
        }
    }
    if !survivors_ok(&r) {
        // the chunks behind this failure are the missing chunks of artifacts that NO thread deleted: a chunk listed only by a
        // resurrected artifact (deleted by a thread, its metadata put back by an overlapping set_meta — outside the quantifier,
        // observed below) lost its references by that delete and may be collected
        let dead_only: BTreeSet<String> = resurrected
            .iter()
            .flat_map(|ix| r.ts.get(&format!("{META_PREFIX}{}", r.ids[*ix])).ok().and_then(|t| t_ptrs(&t, "_chunks")).unwrap_or_default())
            .filter(|k| {
                !r.expect.iter().any(|(ix, e)| e.is_some() && r.ts.get(&format!("{META_PREFIX}{}", r.ids[*ix])).ok().and_then(|t| t_ptrs(&t, "_chunks")).unwrap_or_default().contains(k))
            })
            .map(|k| r.known.get(&k).map(|d| hex(d)).unwrap_or_else(|| format!("?{k}")))
            .collect();
        let dmg: BTreeSet<String> = missing(&r).difference(&dead_only).cloned().collect();
        failures.push((site.to_string(), "an artifact that exists and that no thread deleted cannot be read back after the interleaving".to_string(), dmg, "missing"));
    }
    let low_refs = |r: &Real| -> bool {
        occurrences(&r.ts).iter().any(|(k, o)| r.ts.get(k).ok().and_then(|t| t_int(&t, "_refs")).unwrap_or(0) < *o)
    };
    if low_refs(&r) && resurrected.is_empty() {
        // without a writer and with distinct deleters a refcount can only end up too HIGH (a lost decrement)
        let class = if proved_safe { "tensor_blob.conc/refs_below_occurrences_without_writer" } else { "tensor_blob.refs/lost_update" };
        failures.push((class.to_string(), "after the interleaving a chunk's refcount is below the number of times existing artifacts list it".to_string(), damaged(&r), "lowrefs"));
    }
    // ---- sequential suffix: after every operation of it, the chunks of never-deleted artifacts that have just gone
    let missing_live = |r: &Real| -> BTreeSet<String> {
        let mut out = BTreeSet::new();
        for (ix, e) in r.expect.iter() {
            if e.is_some() {
                let keys = r.ts.get(&format!("{META_PREFIX}{}", r.ids[*ix])).ok().and_then(|t| t_ptrs(&t, "_chunks")).unwrap_or_default();
                out.extend(keys.iter().filter(|k| !r.ts.exists(k)).map(|k| r.known.get(k).map(|d| hex(d)).unwrap_or_else(|| format!("?{k}"))));
            }
        }
        out
    };
    let mut t2 = T_CONC;
    let mut gone = missing_live(&r);
    let ok_before_post = survivors_ok(&r);
    for op in &case.post {
        t2 += 1;
        agreed &= conc_seq_op(&mut r, m, rep, stream, t2, op, &input);
        let now = missing_live(&r);
        let newly: BTreeSet<String> = now.difference(&gone).cloned().collect();
        if !newly.is_empty() {
            let (class, kind): (&str, &'static str) = match op {
                _ if proved_safe => ("tensor_blob.conc/collector_damaged_artifact_next_to_deleters_only", "post-other"),
                Op::Gc { .. } => ("tensor_blob.gc/live_chunk_collected", "post-gc"),
                // a sequential full_gc() with no writer open recounts from the metadata: it can never take a listed chunk
                Op::FullGc => ("tensor_blob.full_gc/listed_chunk_collected_without_open_writer", "post-full_gc"),
                _ => ("tensor_blob.conc/chunk_lost_by_sequential_suffix_operation", "post-other"),
            };
            failures.push((class.to_string(), "after the interleaving and a later sequential operation an artifact that was never deleted lists a chunk that has just been removed".to_string(), newly, kind));
        }
        gone = now;
    }
    if !case.post.is_empty() && ok_before_post && !survivors_ok(&r) && missing_live(&r).is_empty() {
        failures.push(("tensor_blob.conc/survivor_unreadable_after_suffix".to_string(), "after the sequential suffix an artifact that was never deleted cannot be read back although none of its chunks is missing".to_string(), BTreeSet::new(), "post-other"));
    }
    if !resurrected.is_empty() {
        let unreadable: Vec<usize> = resurrected.iter().copied().filter(|ix| bo(r.blob.get(&r.ids[*ix])).is_err()).collect();
        rep.hit("conc.observed.update_resurrected_deleted_artifact");
        if rep.distribution.get("conc.observed.update_resurrected_deleted_artifact").copied().unwrap_or(0) <= 2 {
            rep.observe(json!({"outside_quantifier": "tensor_blob.update_metadata/resurrects_deleted_artifact",
                "what": "a set_meta that overlapped a successful delete() of the same artifact put the metadata record back: the artifact exists again while its chunks hold no reference for it",
                "resurrected": resurrected, "unreadable_after_later_collection": unreadable,
                "input": conc_json(case, &sched), "lean": "concurrent_update_resurrects_deleted_witness"}));
        }
    }
    ConcOut { sched, model_line, failures, trace, agreed }
}

fn report_conc(rep: &mut Report, stream: &str, name: Option<&str>, case: &ConcCase, out: &ConcOut) {
    // Every known finding is filed by its STATED CAUSE, read off the observed call trace, chunk by chunk:
    //   tensor_blob.delete/double_decrement   two deleter threads of the same artifact both wrote the chunk's refcount back;
    //   tensor_blob.full_gc/live_chunk_collected   a full_gc thread deleted the chunk while a writer thread storing it had not
    //                                         put its metadata when the full_gc scanned the metadata;
    //   tensor_blob.refs/lost_update          `_refs` below the listings AND two threads' visits to that record overlapped;
    //   tensor_blob.gc/live_chunk_collected   the chunk is gone, a gc_cycle took it (a gc thread's `d:` or the gc() of the
    //                                         sequential suffix) AND two threads' visits to that record overlapped.
    // A damaged chunk with none of these causes in the trace (serial access to its record), or a failure that cannot be
    // traced to a chunk record, gets a class of its own; the classes of theorem-covered mixes (`tensor_blob.conc/...`) and of
    // a sequential full_gc() taking a listed chunk are never re-filed.
    let dd = double_decremented(case, &out.trace);
    let ov = overlapped(&out.trace);
    let fg = full_gc_removed_unfinished(case, &out.trace);
    let gc_deleted: BTreeSet<String> = out
        .trace
        .iter()
        .filter(|(th, l)| matches!(case.threads.get(*th), Some(TSpec::Gc)) && l.starts_with("d:"))
        .map(|(_, l)| l[2..].to_string())
        .collect();
    let mut classes: Vec<String> = Vec::new();
    for (class, what, dmg, kind) in &out.failures {
        if class.starts_with("tensor_blob.conc/") || *kind == "post-full_gc" || *kind == "post-other" {
            vio(rep, class, what, conc_json(case, &out.sched));
            classes.push(class.clone());
            continue;
        }
        if dmg.is_empty() {
            let c = "tensor_blob.conc/failure_not_traced_to_a_chunk";
            vio(rep, c, &format!("{what} (oracle class {class}); no listed chunk is missing or short of references"), conc_json(case, &out.sched));
            classes.push(c.to_string());
            continue;
        }
        let mut by_class: BTreeMap<String, Vec<&String>> = BTreeMap::new();
        for x in dmg {
            let c = if dd.contains_key(x) {
                DOUBLE_DECREMENT.to_string()
            } else if fg.contains(x) {
                "tensor_blob.full_gc/live_chunk_collected".to_string()
            } else if ov.contains(x) && *kind == "lowrefs" {
                "tensor_blob.refs/lost_update".to_string()
            } else if ov.contains(x) && (*kind == "post-gc" || gc_deleted.contains(x)) {
                "tensor_blob.gc/live_chunk_collected".to_string()
            } else {
                match *kind {
                    "post-gc" => "tensor_blob.gc/referenced_chunk_collected_sequentially".to_string(),
                    "lowrefs" => "tensor_blob.refs/below_listings_without_overlapping_update".to_string(),
                    _ => "tensor_blob.conc/chunk_lost_without_overlapping_update".to_string(),
                }
            };
            by_class.entry(c).or_default().push(x);
        }
        for (c, xs) in by_class {
            let chunks = xs.iter().map(|x| x.as_str()).collect::<Vec<_>>().join(",");
            let w = if c == DOUBLE_DECREMENT {
                rep.hit("conc.double_decrement.reproduced");
                let arts: BTreeSet<u32> = xs.iter().map(|x| dd[*x]).collect();
                format!(
                    "{what} (oracle class {class}): chunk(s) {chunks} decremented by two delete() calls of the same artifact a{} that both read its metadata record before either removed it (Lean: concurrent_double_delete_witness)",
                    arts.iter().map(|a| a.to_string()).collect::<Vec<_>>().join(",a")
                )
            } else {
                format!("{what} (oracle class {class}, {kind}): chunk(s) {chunks}")
            };
            rep.hit(&format!("conc.cause.{}", c.trim_start_matches("tensor_blob.")));
            vio(rep, &c, &w, conc_json(case, &out.sched));
            classes.push(c);
        }
    }
    if !dd.is_empty() {
        rep.hit(if out.failures.is_empty() { "conc.double_decrement.in_trace.harmless" } else { "conc.double_decrement.in_trace.with_failure" });
    }
    rep.case(stream, Some(&out.model_line));
    if let Some(n) = name {
        classes.sort();
        classes.dedup();
        let verdict = if !out.agreed { "disagree".to_string() } else if classes.is_empty() { "pass".to_string() } else { classes.join("+") };
        rep.hit(&format!("conc.directed.{n}.{verdict}"));
    }
}

/// the Lean witness interleavings (Props: `calls_*_witness`) replayed on the real store, plus safe ones
fn conc_directed(m: &mut Model, rep: &mut Report, rng: &mut Rng) {
    let gc_all = Op::Gc { back: 0, age: 0 };
    let cases: Vec<(&str, ConcCase)> = vec![
        // both writers see `exists == false` and both put refs = 1; one artifact is deleted; gc takes the other's chunk
        ("lost-update-then-gc", ConcCase { chunk: 1, pre: vec![], threads: vec![TSpec::Put(vec![1]), TSpec::Put(vec![1])], script: Some(vec![0, 1, 0, 1, 0, 1]), post: vec![Op::Delete(0), gc_all.clone()] }),
        // full_gc scans between the writer's chunk put and its metadata put
        ("full-gc-vs-writer", ConcCase { chunk: 2, pre: vec![], threads: vec![TSpec::Put(vec![1]), TSpec::FullGc], script: Some(vec![0, 0, 1, 1, 1, 1, 0]), post: vec![] }),
        // gc_cycle reads refs == 0 on an old orphan, the writer re-references it, gc deletes it
        ("gc-vs-writer-on-orphan", ConcCase { chunk: 1, pre: vec![Op::Put(vec![1]), Op::Delete(0)], threads: vec![TSpec::Put(vec![1]), TSpec::Gc], script: Some(vec![1, 1, 0, 0, 0, 1, 0]), post: vec![] }),
        // known finding tensor_blob.delete/double_decrement (Props: concurrent_double_delete_witness): two deleters of
        // the same artifact both decrement; the chunk it shares with a1 drops to 0 references and gc removes it
        ("double-delete-then-gc", ConcCase { chunk: 1, pre: vec![Op::Put(vec![1]), Op::Put(vec![1])], threads: vec![TSpec::Del(0), TSpec::Del(0)], script: Some(vec![0, 1, 0, 0, 1, 1, 0, 1]), post: vec![gc_all.clone()] }),
        // control: the same two deleters one after the other (the second gets NotFound) — nothing is decremented twice
        ("double-delete-serial", ConcCase { chunk: 1, pre: vec![Op::Put(vec![1]), Op::Put(vec![1])], threads: vec![TSpec::Del(0), TSpec::Del(0)], script: Some(vec![0, 0, 0, 0, 1]), post: vec![gc_all.clone()] }),
        // outside the quantifier: set_meta overlapping the delete of the same artifact resurrects it (observation only)
        ("update-resurrects-deleted", ConcCase { chunk: 1, pre: vec![Op::Put(vec![1])], threads: vec![TSpec::Touch(0), TSpec::Del(0)], script: Some(vec![0, 1, 1, 1, 1, 0]), post: vec![gc_all.clone()] }),
        // safe: deleters of different artifacts with both collectors (Props: concurrent_deleters_collectors_safe)
        ("deleters-and-collectors", ConcCase { chunk: 1, pre: vec![Op::Put(vec![1, 2]), Op::Put(vec![2, 3]), Op::Put(vec![3, 1]), Op::Abandon(vec![vec![9]])],
            threads: vec![TSpec::Del(0), TSpec::Del(1), TSpec::Gc, TSpec::FullGc], script: Some(vec![]), post: vec![gc_all.clone(), Op::FullGc] }),
        // safe: writers and a deleter of overlapping content, no collector running (Props: concurrent_no_collector_partial)
        ("writers-and-deleter", ConcCase { chunk: 2, pre: vec![Op::Put(vec![1, 2, 3])], threads: vec![TSpec::Put(vec![1, 2, 3, 4]), TSpec::Put(vec![1, 2]), TSpec::Del(0)], script: Some(vec![]), post: vec![] }),
    ];
    for (name, case) in cases {
        let out = run_conc(m, rep, "conc.directed", &case, rng);
        report_conc(rep, "conc.directed", Some(name), &case, &out);
        if rep.samples.len() < 14 {
            rep.sample(json!({"stream": "conc.directed", "name": name, "model_line": out.model_line}));
        }
    }
}

fn conc_stream(m: &mut Model, rep: &mut Report, r: &mut Rng, rounds: u64) {
    for _ in 0..rounds {
        let c = *r.pick(&[1usize, 1, 2, 2, 3]);
        let p = pool(r, c);
        let small = |r: &mut Rng| -> Vec<u8> {
            let nb = r.below(3) as usize;
            let mut d = Vec::new();
            let rep_block = r.chance(1, 3);
            let b0 = r.below(p.blocks.len() as u64) as usize;
            for _ in 0..nb {
                let b = if rep_block { b0 } else { r.below(p.blocks.len() as u64) as usize };
                d.extend_from_slice(&p.blocks[b]);
            }
            if nb == 0 || r.chance(1, 3) {
                d.extend_from_slice(&p.tails[r.below(p.tails.len() as u64) as usize]);
            }
            d
        };
        let mut pre = Vec::new();
        let mut alive: Vec<u32> = Vec::new();
        let mut made = 0u32;
        for _ in 0..r.below(5) {
            match r.below(10) {
                0..=6 => {
                    pre.push(Op::Put(small(r)));
                    alive.push(made);
                    made += 1;
                }
                7 | 8 if !alive.is_empty() => {
                    let i = r.below(alive.len() as u64) as usize;
                    pre.push(Op::Delete(alive.remove(i)));
                }
                _ => pre.push(Op::Abandon(vec![small(r)])),
            }
        }
        let mut threads = Vec::new();
        let nd = if alive.is_empty() { 0 } else { r.below(3) as usize };
        let nw = if nd == 0 { 1 + r.below(3) as usize } else { r.below(3) as usize };
        for _ in 0..nw {
            threads.push(TSpec::Put(small(r)));
        }
        let mut pool_t = alive.clone();
        for _ in 0..nd {
            if pool_t.is_empty() {
                break;
            }
            let i = r.below(pool_t.len() as u64) as usize;
            let a = pool_t[i];
            // now and then two deleters of the same artifact
            if !r.chance(1, 5) {
                pool_t.remove(i);
            }
            threads.push(TSpec::Del(a));
        }
        if !alive.is_empty() && r.chance(1, 5) {
            threads.push(TSpec::Touch(*r.pick(&alive)));
        }
        match r.below(10) {
            0..=2 => threads.push(TSpec::Gc),
            3..=5 => threads.push(TSpec::FullGc),
            6 => {
                threads.push(TSpec::Gc);
                threads.push(TSpec::FullGc);
            }
            _ => {}
        }
        if threads.len() < 2 {
            threads.push(TSpec::Put(small(r)));
        }
        r.shuffle(&mut threads);
        let post = if r.chance(1, 2) { vec![Op::Gc { back: 0, age: 0 }] } else if r.chance(1, 2) { vec![Op::FullGc] } else { vec![] };
        let case = ConcCase { chunk: c, pre, threads, script: None, post };
        let out = run_conc(m, rep, "conc", &case, r);
        report_conc(rep, "conc", None, &case, &out);
        let kinds: BTreeSet<&str> = case.threads.iter().map(|t| match t { TSpec::Put(_) => "w", TSpec::Del(_) => "d", TSpec::Touch(_) => "t", TSpec::Gc => "g", TSpec::FullGc => "f" }).collect();
        rep.hit(&format!("conc.mix.{}.n{}", kinds.into_iter().collect::<Vec<_>>().join(""), case.threads.len()));
        rep.hit(&format!("conc.sched_len.{}", match out.sched.len() { 0..=9 => "0-9", 10..=19 => "10-19", 20..=39 => "20-39", _ => "40+" }));
        if rep.samples.len() < 14 && r.chance(1, 60) {
            rep.sample(json!({"stream": "conc", "model_line": out.model_line}));
        }
    }
}

// ---------------------------------------------------------------- a long-lived store under the wall clock (`aging`)
//
// Every other stream builds a FRESH BlobStore (hence a fresh GarbageCollector) for each gc() call, with a `min_age`
// computed for that call, and moves time by rewriting `_created`.  Here ONE BlobStore with a fixed `gc_min_age` serves a
// whole case — put / writers / delete / gc() / the background task / full_gc() / repair() — and time is the wall clock:
// `tick n` waits until n more seconds have passed.  Many cases run in lockstep (each executes its operations up to its
// next tick, then all wait for the next second together), so a batch costs a few seconds whatever its size.
// Model: Blob/Aging.lean (`applyC`; the driver's `clock` / `c <op>` lines); the model clock follows the seconds the real
// operations ran in.  A case in which the second changed DURING a clock-reading operation is dropped (ambiguous clock).

#[derive(Clone, Debug, PartialEq)]
enum AOp {
    Put(Vec<u8>),
    Stream(Vec<Vec<u8>>),
    Abandon(Vec<Vec<u8>>),
    WOpen(u32),
    WWrite(u32, Vec<u8>),
    WFinish(u32),
    WDrop(u32),
    Delete(u32),
    Get(u32),
    Verify(u32),
    /// `BlobStore::gc()` on the long-lived store
    Gc,
    /// `start()`, at least one tick of the background task (same GarbageCollector), `shutdown()`
    BgGc,
    FullGc,
    Repair,
    /// n wall-clock seconds pass
    Tick(u32),
}

#[derive(Clone, Debug)]
struct ACase {
    name: Option<String>,
    chunk: usize,
    min_age: u64,
    /// gc_batch_size below the chunk count: each cycle looks at a part of the scan
    batch: Option<usize>,
    ops: Vec<AOp>,
}

fn aop_json(op: &AOp) -> Value {
    match op {
        AOp::Put(d) => json!({"put": hex(d)}),
        AOp::Stream(p) => json!({"stream": pieces_txt(p)}),
        AOp::Abandon(p) => json!({"abandon": pieces_txt(p)}),
        AOp::WOpen(w) => json!({"wopen": w}),
        AOp::WWrite(w, d) => json!({"wwrite": w, "data": hex(d)}),
        AOp::WFinish(w) => json!({"wfinish": w}),
        AOp::WDrop(w) => json!({"wdrop": w}),
        AOp::Delete(a) => json!({"delete": a}),
        AOp::Get(a) => json!({"get": a}),
        AOp::Verify(a) => json!({"verify": a}),
        AOp::Gc => json!("gc"),
        AOp::BgGc => json!("background_gc_tick"),
        AOp::FullGc => json!("full_gc"),
        AOp::Repair => json!("repair"),
        AOp::Tick(n) => json!({"seconds_pass": n}),
    }
}

fn acase_json(c: &ACase) -> Value {
    json!({"stream": "aging", "name": c.name, "store": "ONE BlobStore for the whole case (wall clock, no restamping)",
        "chunk_size": c.chunk, "gc_min_age_secs": c.min_age, "gc_batch_size": c.batch,
        "ops": c.ops.iter().map(aop_json).collect::<Vec<_>>()})
}

/// full_gc / repair only while no writer is open (the known findings are not this stream's subject)
fn aging_quiet(ops: &[AOp]) -> bool {
    let mut open: BTreeSet<u32> = BTreeSet::new();
    for op in ops {
        match op {
            AOp::WOpen(w) => {
                open.insert(*w);
            }
            AOp::WFinish(w) | AOp::WDrop(w) => {
                open.remove(w);
            }
            AOp::FullGc | AOp::Repair if !open.is_empty() => return false,
            _ => {}
        }
    }
    true
}

struct ARec {
    /// clock lines for the model before the operation (`c tick n`)
    pre: Vec<String>,
    line: String,
    imp: String,
    image: String,
    bg: bool,
}

/// chunk records as the collector sees them: key -> (refs, created, size)
fn chunk_snap(ts: &TensorStore) -> BTreeMap<String, (i64, i64, i64, Vec<u8>)> {
    ts.scan(CHUNK_PREFIX)
        .into_iter()
        .filter_map(|k| ts.get(&k).ok().map(|t| (k, (t_int(&t, "_refs").unwrap_or(-1), t_int(&t, "_created").unwrap_or(-1), t_int(&t, "_size").unwrap_or(-1), t_bytes(&t, "_data").unwrap_or_default()))))
        .collect()
}

struct ARun {
    case: ACase,
    r: Real,
    pos: usize,
    /// do not run before this second (a tick is pending)
    wake_at: u64,
    last_sec: u64,
    recs: Vec<ARec>,
    /// (class, what, index of the operation)
    vios: Vec<(String, String, usize)>,
    discarded: Option<&'static str>,
    wrote: bool,
    changed: bool,
    hits: Vec<String>,
    /// keys a cycle found unreferenced and too young; those of them that were referenced again afterwards
    seen_young: BTreeSet<String>,
    rereferenced: BTreeSet<String>,
    /// chunk key -> the part of (listings + open-writer holds - `_refs`) that has been reported already
    deficit: BTreeMap<String, i64>,
    done: bool,
}

impl ARun {
    fn new(case: &ACase) -> ARun {
        let conf = cfg(case.chunk, None)
            .with_gc_min_age(Duration::from_secs(case.min_age))
            .with_gc_batch_size(case.batch.unwrap_or(1 << 20))
            .with_gc_interval(Duration::from_millis(1));
        ARun {
            case: case.clone(),
            r: Real::with_config(case.chunk, None, conf),
            pos: 0,
            wake_at: 0,
            last_sec: 0,
            recs: vec![],
            vios: vec![],
            discarded: None,
            wrote: false,
            changed: false,
            hits: vec![],
            seen_young: BTreeSet::new(),
            rereferenced: BTreeSet::new(),
            deficit: BTreeMap::new(),
            done: false,
        }
    }

    fn v(&mut self, class: &str, what: &str) {
        let at = self.pos;
        if !self.vios.iter().any(|x| x.0 == class) {
            self.vios.push((class.to_string(), what.to_string(), at));
        }
    }

    /// run the operations up to (and including) the next tick
    fn advance(&mut self) {
        if self.done || now_secs() < self.wake_at {
            return;
        }
        while self.pos < self.case.ops.len() {
            let op = self.case.ops[self.pos].clone();
            if let AOp::Tick(n) = op {
                self.wake_at = now_secs() + n as u64;
                self.pos += 1;
                return;
            }
            self.step(&op);
            self.pos += 1;
            if self.discarded.is_some() {
                self.done = true;
                return;
            }
        }
        // O4: after deleting every artifact a full collection leaves no chunks
        if self.vios.is_empty() {
            self.r.writers.clear();
            for id in bo(self.r.blob.list(None)).unwrap_or_default() {
                let _ = bo(self.r.blob.delete(&id));
            }
            let _ = bo(self.r.blob.full_gc());
            if !self.r.ts.scan(CHUNK_PREFIX).is_empty() || !self.r.ts.scan(META_PREFIX).is_empty() {
                self.v("tensor_blob.full_gc/chunks_left_after_delete_all", "chunks remain after deleting every artifact and running full_gc");
            }
        }
        self.done = true;
    }

    fn step(&mut self, op: &AOp) {
        let chunk = self.case.chunk;
        let min_age = self.case.min_age;
        let s0 = now_secs();
        let mut pre = vec![];
        if self.r.epoch.is_none() {
            self.r.epoch = Some(s0);
            self.last_sec = s0;
        }
        if s0 > self.last_sec {
            pre.push(format!("c tick {}", s0 - self.last_sec));
            self.last_sec = s0;
        }
        let before = chunk_snap(&self.r.ts);
        let occ_before = occurrences(&self.r.ts);
        let holds_before = self.r.holds();
        let mut collector: Option<&'static str> = None;
        let mut reads_clock = false;
        let mut wrote_now: Option<(usize, Vec<u8>)> = None;
        let mut finished_now = false;
        let mut bg = false;
        let (line, imp): (String, String) = match op {
            AOp::Put(d) => {
                reads_clock = true;
                let a = match bo(self.r.blob.put("f", d, PutOptions::default())) {
                    Ok(id) => {
                        let ix = self.r.alpha(&id);
                        wrote_now = Some((ix, d.clone()));
                        format!("ok a{ix}")
                    }
                    Err(e) => err_class(&e).to_string(),
                };
                (format!("put {}", hex(d)), a)
            }
            AOp::Stream(ps) | AOp::Abandon(ps) => {
                reads_clock = true;
                let fin = matches!(op, AOp::Stream(_));
                let mut w = bo(self.r.blob.writer("f", PutOptions::default())).unwrap();
                let mut all = Vec::new();
                let mut err = None;
                for p in ps {
                    all.extend_from_slice(p);
                    if let Err(e) = bo(w.write(p)) {
                        err = Some(err_class(&e).to_string());
                    }
                }
                if fin {
                    let a = match bo(w.finish()) {
                        Ok(id) => {
                            let ix = self.r.alpha(&id);
                            wrote_now = Some((ix, all));
                            format!("ok a{ix}")
                        }
                        Err(e) => err_class(&e).to_string(),
                    };
                    (format!("stream {}", pieces_txt(ps)), err.unwrap_or(a))
                } else {
                    drop(w);
                    self.r.slack = true;
                    (format!("abandon {}", pieces_txt(ps)), err.unwrap_or_else(|| "ok".into()))
                }
            }
            AOp::WOpen(wid) => {
                let w = bo(self.r.blob.writer("f", PutOptions::default())).unwrap();
                self.r.writers.insert(*wid, OpenWriter { w, bytes: vec![] });
                self.r.slack = true;
                (format!("wopen {wid}"), "ok".into())
            }
            AOp::WWrite(wid, d) => {
                reads_clock = true;
                let line = format!("wwrite {wid} {}", hex(d));
                match self.r.writers.get_mut(wid) {
                    None => (line, "bad-op".into()),
                    Some(ow) => {
                        ow.bytes.extend_from_slice(d);
                        let a = match bo(ow.w.write(d)) {
                            Ok(()) => format!("ok {} {}", ow.w.chunks_written(), ow.w.bytes_written()),
                            Err(e) => err_class(&e).to_string(),
                        };
                        (line, a)
                    }
                }
            }
            AOp::WFinish(wid) => {
                reads_clock = true;
                let line = format!("wfinish {wid}");
                match self.r.writers.remove(wid) {
                    None => (line, "bad-op".into()),
                    Some(ow) => (line, match bo(ow.w.finish()) {
                        Ok(id) => {
                            let ix = self.r.alpha(&id);
                            finished_now = true;
                            wrote_now = Some((ix, ow.bytes.clone()));
                            format!("ok a{ix}")
                        }
                        Err(e) => err_class(&e).to_string(),
                    }),
                }
            }
            AOp::WDrop(wid) => {
                self.r.writers.remove(wid);
                (format!("wdrop {wid}"), "ok".into())
            }
            AOp::Get(a) => {
                let id = self.r.uuid_of(*a);
                (format!("get a{a}"), match bo(self.r.blob.get(&id)) {
                    Ok(d) => format!("ok {}", hex(&d)),
                    Err(e) => err_class(&e).to_string(),
                })
            }
            AOp::Verify(a) => {
                let id = self.r.uuid_of(*a);
                (format!("verify a{a}"), match self.r.blob.verify(&id) {
                    Ok(b) => format!("ok {b}"),
                    Err(e) => err_class(&e).to_string(),
                })
            }
            AOp::Delete(a) => {
                let id = self.r.uuid_of(*a);
                (format!("delete a{a}"), match bo(self.r.blob.delete(&id)) {
                    Ok(()) => {
                        self.r.expect.insert(*a as usize, None);
                        self.changed = true;
                        "ok".to_string()
                    }
                    Err(e) => err_class(&e).to_string(),
                })
            }
            AOp::Gc => {
                collector = Some("gc");
                reads_clock = true;
                let blob = &self.r.blob;
                let (s, calls) = record_calls(|| bo(blob.gc()).unwrap());
                if s.deleted > 0 {
                    self.changed = true;
                }
                let line = match self.case.batch {
                    None => "gc".to_string(),
                    Some(b) => {
                        // the keys the cycle looked at: its `get` calls, in the (arbitrary) order of the scan
                        let seen: Vec<String> = calls.iter().filter(|(site, k)| *site == "store.get" && k.starts_with(CHUNK_PREFIX)).map(|x| x.1.clone()).collect();
                        let uniq: BTreeSet<&String> = seen.iter().collect();
                        if seen.len() != before.len().min(b) || uniq.len() != seen.len() || seen.iter().any(|k| !before.contains_key(k)) {
                            self.v("tensor_blob.gc/batch_not_a_part_of_the_scan", "gc_cycle did not look at min(batch_size, chunk count) distinct existing chunk keys");
                        }
                        self.hits.push(format!("aging.gc_batch.{}", if b < before.len() { "partial" } else { "whole" }));
                        let ks: Vec<String> = seen.iter().map(|k| self.r.known.get(k).map(|d| hex(d)).unwrap_or_else(|| "?".into())).collect();
                        format!("gcsel {}", if ks.is_empty() { ".".to_string() } else { ks.join(",") })
                    }
                };
                (line, format!("ok {} {}", s.deleted, s.freed_bytes))
            }
            AOp::BgGc => {
                collector = Some("gc");
                reads_clock = true;
                bg = true;
                let rt = self.r.rt;
                let ts2 = self.r.ts.clone();
                let blob = &mut self.r.blob;
                // the task's own scans of the chunk records tell that at least one cycle has run
                let cycles = Arc::new(Mutex::new(0usize));
                let probing = Arc::new(std::sync::atomic::AtomicBool::new(false));
                let (c2, p2) = (cycles.clone(), probing.clone());
                tensor_store::verif::set_yield_hook(Some(Box::new(move |site, k| {
                    if site == "store.scan" && k.starts_with(CHUNK_PREFIX) && !p2.load(std::sync::atomic::Ordering::SeqCst) {
                        *c2.lock().unwrap() += 1;
                    }
                })));
                rt.block_on(async {
                    blob.start().await.unwrap();
                    blob.start().await.unwrap(); // second start is a no-op
                    for _ in 0..400 {
                        tokio::time::sleep(Duration::from_millis(2)).await;
                        let mc = now_secs().saturating_sub(min_age) as i64;
                        probing.store(true, std::sync::atomic::Ordering::SeqCst);
                        let pending = ts2.scan(CHUNK_PREFIX).iter().any(|k| {
                            ts2.get(k).map(|t| t_int(&t, "_refs") == Some(0) && t_int(&t, "_created").unwrap_or(i64::MAX) < mc).unwrap_or(false)
                        });
                        probing.store(false, std::sync::atomic::Ordering::SeqCst);
                        if !pending && *cycles.lock().unwrap() >= 1 {
                            break;
                        }
                    }
                    blob.shutdown().await.unwrap();
                });
                tensor_store::verif::set_yield_hook(None);
                if *cycles.lock().unwrap() == 0 {
                    self.discarded = Some("background_task_never_ticked");
                    return;
                }
                ("gc".to_string(), "ok".to_string())
            }
            AOp::FullGc => {
                collector = Some("full_gc");
                ("fullgc".into(), match bo(self.r.blob.full_gc()) {
                    Ok(s) => {
                        if s.deleted > 0 {
                            self.changed = true;
                        }
                        format!("ok {} {}", s.deleted, s.freed_bytes)
                    }
                    Err(e) => err_class(&e).to_string(),
                })
            }
            AOp::Repair => {
                collector = Some("repair");
                ("repair".into(), match self.r.blob.repair() {
                    Ok(s) => format!("ok {} {} {} {}", s.artifacts_checked, s.chunks_verified, s.refs_fixed, s.orphans_deleted),
                    Err(e) => err_class(&e).to_string(),
                })
            }
            AOp::Tick(_) => unreachable!(),
        };
        let s1 = now_secs();
        if reads_clock && s1 != s0 {
            // the operation read the clock while the second changed: which second it saw is not observable
            self.discarded = Some("second_changed_during_operation");
            return;
        }
        // learn the content of new records (no restamping: `epoch` is set)
        let mut scratch = Report::new("");
        let case_for_input = self.case.clone();
        self.r.restamp(0, &mut scratch, &|| acase_json(&case_for_input));
        if !scratch.violations.is_empty() {
            self.v("tensor_blob.store_chunk/key_not_content_hash", "a new chunk record is not keyed by the hash of its data");
        }
        let tag = line.split(' ').next().unwrap_or("?").to_string();
        let res_class = imp.split(' ').take(if imp.starts_with("err") { 2 } else { 1 }).collect::<Vec<_>>().join("_");
        self.hits.push(format!("aging.op.{}.{res_class}", if bg { "background_gc" } else { tag.as_str() }));
        let image = self.r.image();
        self.recs.push(ARec { pre, line: line.clone(), imp, image, bg });

        // ---- oracles on the implementation's own outputs
        let after = chunk_snap(&self.r.ts);
        let occ_after = occurrences(&self.r.ts);
        let holds_after = self.r.holds();
        let demand_before = |k: &String| occ_before.get(k).copied().unwrap_or(0) + holds_before.get(k).copied().unwrap_or(0);
        if collector == Some("gc") {
            // CycleSpec (Blob/Aging.lean; Props2: cycle_removing_only_currently_unreferenced_records_is_safe): one cycle only
            // removes records, and only records whose `_refs` is 0 in the store AS IT IS WHEN THE CYCLE RUNS — whatever the
            // collector saw in earlier cycles.
            let mc = (s0 as i64).saturating_sub(min_age as i64);
            for (k, (refs, created, _, _)) in &before {
                if !after.contains_key(k) {
                    if *refs != 0 {
                        self.v("tensor_blob.gc/removed_record_with_references", "an incremental gc cycle on a long-lived store removed a chunk record whose `_refs` was not 0 when the cycle ran");
                    }
                    if demand_before(k) > 0 {
                        self.v("tensor_blob.gc/referenced_chunk_collected_sequentially", "sequential history: incremental gc() removed a chunk that an open writer had written or that a finished artifact lists");
                    }
                    if *created >= mc {
                        self.v("tensor_blob.gc/young_chunk_collected", "an incremental gc cycle removed a chunk record younger than gc_min_age");
                    }
                } else if *refs == 0 && *created >= mc {
                    self.seen_young.insert(k.clone());
                } else if *refs > 0 && *created < mc && self.rereferenced.contains(k) {
                    self.hits.push("aging.shape.young_orphan_seen_then_rereferenced_then_cycle_after_it_aged".to_string());
                }
            }
            for (k, rec) in &after {
                if before.get(k) != Some(rec) {
                    self.v("tensor_blob.gc/cycle_altered_record", "an incremental gc cycle added or altered a chunk record");
                }
            }
            if occ_after != occ_before {
                self.v("tensor_blob.gc/cycle_altered_metadata", "an incremental gc cycle changed the artifacts' chunk lists");
            }
        }
        for k in self.seen_young.clone() {
            if after.get(&k).map(|x| x.0 > 0).unwrap_or(false) {
                self.rereferenced.insert(k);
            }
        }
        // reference accounting: every chunk written by an open writer or listed by a finished artifact exists and has
        // `_refs` >= listings + open-writer holds (full_gc / repair never run while a writer is open in this stream)
        // (a deficit is reported by the operation that causes or widens it, not again by the operations after it)
        let mut keys: BTreeSet<String> = occ_after.keys().chain(holds_after.keys()).cloned().collect();
        keys.extend(self.deficit.keys().cloned());
        for k in &keys {
            let demand = occ_after.get(k).copied().unwrap_or(0) + holds_after.get(k).copied().unwrap_or(0);
            let refs = after.get(k).map(|x| x.0).unwrap_or(0);
            let d = (demand - refs).max(0);
            if d > self.deficit.get(k).copied().unwrap_or(0) {
                let removed = before.contains_key(k) && !after.contains_key(k);
                let class = match collector {
                    Some("gc") if removed => "tensor_blob.gc/referenced_chunk_collected_sequentially".to_string(),
                    Some("gc") => "tensor_blob.gc/refs_below_references".to_string(),
                    Some(site) => format!("tensor_blob.{site}/listed_chunk_damaged"),
                    None if matches!(tag.as_str(), "put" | "stream" | "abandon" | "wwrite" | "wfinish") => "tensor_blob.store_chunk/reference_not_taken".to_string(),
                    None => format!("tensor_blob.{tag}/refs_below_references"),
                };
                self.v(&class, "long-lived store, one thread: after this operation a chunk's `_refs` (0 if the record is gone) is below its listings by finished artifacts plus its occurrences in the chunk lists of open writers");
            }
            if d > 0 {
                self.deficit.insert(k.clone(), d);
            } else {
                self.deficit.remove(k);
            }
        }
        if let Some((ix, bytes)) = wrote_now {
            self.wrote = true;
            let id = self.r.ids[ix].clone();
            if bo(self.r.blob.get(&id)).ok().as_ref() != Some(&bytes) {
                if finished_now {
                    self.v("tensor_blob.writer/finished_artifact_unreadable", "an artifact whose streaming writer stayed open across other operations finished successfully but cannot be read back");
                } else {
                    self.v("tensor_blob.get/read_differs_from_written", "get() right after a successful write does not return the written bytes");
                }
            } else {
                self.r.expect.insert(ix, Some(bytes));
            }
        }
        // every artifact that was not deleted still reads back as written, through get, the streaming reader and verify
        for (ix, e) in self.r.expect.clone() {
            let Some(bytes) = e else { continue };
            let id = self.r.ids[ix].clone();
            if bo(self.r.blob.get(&id)).ok().as_ref() != Some(&bytes) {
                let class = match collector {
                    Some("gc") => "tensor_blob.gc/referenced_chunk_collected_sequentially".to_string(),
                    Some(site) => format!("tensor_blob.{site}/live_artifact_unreadable"),
                    None => format!("tensor_blob.{tag}/other_artifact_damaged"),
                };
                self.v(&class, "long-lived store: an artifact that was not deleted no longer reads back as written");
                self.r.expect.insert(ix, None);
                continue;
            }
            if (self.pos + ix) % 3 == 0 {
                let bufsz = 1 + (self.pos * 7 + ix * 3) % (2 * chunk + 2);
                if read_by_buffers(&self.r.blob, &id, bufsz).ok().as_ref() != Some(&bytes) {
                    self.v("tensor_blob.reader/read_differs_from_written", "BlobReader::read() with a fixed buffer size, repeated until it returns 0, does not return the written bytes");
                }
                if check_chunks_exist(&self.r.ts, &id).ok().map(|l| l.is_empty()) != Some(true) {
                    self.v("tensor_blob.check_chunks_exist/false_alarm", "check_chunks_exist() reports a missing chunk of an undamaged artifact");
                }
            }
            if self.r.blob.verify(&id).ok() != Some(true) {
                self.v("tensor_blob.verify/false_alarm", "verify() is not Ok(true) on an undamaged artifact");
            }
        }
    }
}

fn wait_for_second_after(sec: u64) -> u64 {
    loop {
        let n = now_secs();
        if n > sec {
            return n;
        }
        std::thread::sleep(Duration::from_millis(3));
    }
}

/// Run the cases in lockstep on the wall clock: each phase starts right after a second boundary; every case executes its
/// operations up to its next tick.
fn run_aging_batch(cases: &[ACase]) -> Vec<ARun> {
    let mut runs: Vec<ARun> = cases.iter().map(ARun::new).collect();
    let mut sec = wait_for_second_after(now_secs());
    for _phase in 0..64 {
        for run in runs.iter_mut() {
            run.advance();
        }
        if runs.iter().all(|r| r.done) {
            break;
        }
        sec = wait_for_second_after(sec);
    }
    runs
}

/// smaller versions of a failing case: contiguous blocks of operations removed (halves, quarters, .., single ones),
/// shorter waits, smaller min_age
fn aging_candidates(c: &ACase) -> Vec<ACase> {
    let mut out: Vec<ACase> = vec![];
    let n = c.ops.len();
    let mut g = n / 2;
    while g >= 1 {
        let mut i = 0;
        while i < n {
            let mut ops = c.ops.clone();
            ops.drain(i..(i + g).min(n));
            if aging_quiet(&ops) && !out.iter().any(|x| x.ops == ops && x.min_age == c.min_age) {
                out.push(ACase { ops, name: None, ..c.clone() });
            }
            i += g;
        }
        g /= 2;
    }
    for (i, op) in c.ops.iter().enumerate() {
        if let AOp::Tick(k) = op {
            if *k > 1 {
                let mut ops = c.ops.clone();
                ops[i] = AOp::Tick(k - 1);
                out.push(ACase { ops, name: None, ..c.clone() });
            }
        }
    }
    if c.batch.is_some() {
        out.push(ACase { batch: None, name: None, ..c.clone() });
    }
    out
}

fn ticks_of(c: &ACase) -> u32 {
    c.ops.iter().map(|o| if let AOp::Tick(n) = o { *n } else { 0 }).sum()
}

/// shrink a failing case; every round runs all candidates in lockstep (one batch = a few seconds)
fn shrink_aging(case: &ACase, class: &str) -> ACase {
    let mut cur = case.clone();
    for _round in 0..10 {
        let cands = aging_candidates(&cur);
        if cands.is_empty() {
            break;
        }
        let runs = run_aging_batch(&cands);
        let best = cands
            .iter()
            .zip(runs.iter())
            .filter(|(_, run)| run.discarded.is_none() && run.vios.iter().any(|v| v.0 == class))
            .map(|(c, _)| c)
            .min_by_key(|c| (c.ops.len(), ticks_of(c), c.batch.is_some()));
        match best {
            Some(c) => cur = c.clone(),
            None => break,
        }
    }
    cur
}

fn aging_directed_cases() -> Vec<ACase> {
    let x = vec![1u8, 2, 3, 4, 5]; // chunk size 2: [1,2] [3,4] [5]
    let mk = |name: &str, min_age: u64, batch: Option<usize>, ops: Vec<AOp>| ACase { name: Some(name.to_string()), chunk: 2, min_age, batch, ops };
    use AOp::*;
    vec![
        // The shortest history in which "a cycle decides on the records as they are when it runs" is the only thing between
        // a live artifact and the collector: the chunks lose their last reference, a cycle sees them too young, the same
        // content is written again (deduplicated onto them), they age, a later cycle of the SAME collector runs
        // (Props2: gc_cycle_removes_only_records_unreferenced_when_it_runs, put_reads_back_on_long_lived_store,
        // remembered_young_orphans_collect_rereferenced_chunk_witness).
        mk("young-orphan-rereferenced-aged-gc", 0, None, vec![Put(x.clone()), Delete(0), Gc, Put(x.clone()), Tick(1), Gc, Get(1), Verify(1)]),
        mk("young-orphan-rereferenced-aged-gc-min-age-2", 2, None, vec![Put(x.clone()), Delete(0), Gc, Put(x.clone()), Tick(1), Gc, Tick(2), Gc, Get(1), Verify(1)]),
        // controls and neighbours
        mk("young-orphan-aged-gc-collects", 0, None, vec![Put(x.clone()), Delete(0), Gc, Tick(1), Gc, Put(x.clone()), Get(1)]),
        mk("young-orphan-min-age-1-boundary", 1, None, vec![Put(x.clone()), Delete(0), Gc, Tick(1), Gc, Tick(1), Gc]),
        mk("young-orphan-seen-twice-rereferenced", 0, None, vec![Put(x.clone()), Delete(0), Gc, Gc, Put(vec![1, 2, 9]), Tick(1), Gc, Gc, Get(1)]),
        mk("young-orphan-partly-rereferenced", 0, None, vec![Put(x.clone()), Delete(0), Gc, Put(vec![3, 4, 7, 7]), Tick(1), Gc, Get(1), Verify(1)]),
        mk("young-orphan-rereferenced-deleted-again", 0, None, vec![Put(x.clone()), Delete(0), Gc, Put(x.clone()), Delete(1), Tick(1), Gc, Put(x.clone()), Get(2)]),
        mk("young-orphan-rereferenced-by-open-writer", 0, None, vec![Put(x.clone()), Delete(0), Gc, WOpen(0), WWrite(0, vec![1, 2, 3, 4]), Tick(1), Gc, WWrite(0, vec![5]), WFinish(0), Get(1), Verify(1)]),
        mk("young-orphan-rereferenced-by-stream", 0, None, vec![Put(x.clone()), Delete(0), Gc, Stream(vec![vec![1], vec![2, 3, 4, 5]]), Tick(1), Gc, Get(1)]),
        mk("young-orphan-rereferenced-by-abandoned-writer", 0, None, vec![Put(x.clone()), Delete(0), Gc, Abandon(vec![vec![1, 2, 3, 4]]), Tick(1), Gc, Put(x.clone()), Get(1)]),
        mk("shared-chunk-second-owner-deleted-later", 0, None, vec![Put(x.clone()), Put(vec![1, 2, 8]), Delete(0), Gc, Tick(1), Gc, Delete(1), Gc, Put(vec![1, 2]), Tick(1), Gc, Get(2)]),
        // the background task runs on the same collector as gc()
        mk("background-young-orphan-rereferenced-aged", 0, None, vec![Put(x.clone()), Delete(0), BgGc, Put(x.clone()), Tick(1), BgGc, Get(1), Verify(1)]),
        mk("gc-then-background-young-orphan-rereferenced", 0, None, vec![Put(x.clone()), Delete(0), Gc, Put(x.clone()), Tick(1), BgGc, Get(1)]),
        // a batch below the chunk count: cycles that see a part of the scan
        mk("partial-batches-young-orphan-rereferenced", 0, Some(2), vec![Put(x.clone()), Delete(0), Gc, Gc, Put(x.clone()), Tick(1), Gc, Gc, Gc, Get(1)]),
        mk("full-gc-and-repair-between-cycles", 1, None, vec![Put(x.clone()), Delete(0), Gc, Put(vec![1, 2]), FullGc, Put(x.clone()), Repair, Tick(2), Gc, Get(1), Get(2)]),
    ]
}

/// Random histories on a long-lived store, biased towards: content that lost its last reference, a cycle while it is too
/// young, the same or overlapping content written again, seconds passing, later cycles.
fn gen_aging(r: &mut Rng, max_ticks: u32) -> ACase {
    let c = *r.pick(&[1usize, 2, 2, 3, 4]);
    let p = pool(r, c);
    let min_age = *r.pick(&[0u64, 0, 0, 1, 1, 2]);
    let batch = if r.chance(1, 7) { Some(1 + r.below(3) as usize) } else { None };
    let small = |r: &mut Rng| -> Vec<u8> {
        let mut d = Vec::new();
        for _ in 0..r.below(4) {
            d.extend_from_slice(&p.blocks[r.below(p.blocks.len() as u64) as usize]);
        }
        if d.is_empty() || r.chance(1, 3) {
            d.extend_from_slice(&p.tails[r.below(p.tails.len() as u64) as usize]);
        }
        d
    };
    let mut ops: Vec<AOp> = vec![];
    let mut datas: Vec<Vec<u8>> = vec![]; // by artifact index (empty when unknown)
    let mut live: Vec<u32> = vec![];
    let mut dead: Vec<Vec<u8>> = vec![];
    let mut open: Vec<u32> = vec![];
    let mut next_w = 0u32;
    let mut ticks = 0u32;
    let len = 6 + r.below(10) as usize;
    let again = |r: &mut Rng, dead: &Vec<Vec<u8>>, small: &dyn Fn(&mut Rng) -> Vec<u8>| -> Vec<u8> {
        if !dead.is_empty() && r.chance(2, 3) {
            let mut d = r.pick(dead).clone();
            match r.below(4) {
                0 if d.len() > c => d.truncate(d.len() / c * c), // whole chunks only
                1 => d.extend_from_slice(&small(r)),
                _ => {}
            }
            d
        } else {
            small(r)
        }
    };
    for _ in 0..1 + r.below(2) {
        let d = small(r);
        live.push(datas.len() as u32);
        datas.push(d.clone());
        ops.push(AOp::Put(d));
    }
    while ops.len() < len {
        let op = match r.below(100) {
            0..=15 => {
                let d = again(r, &dead, &small);
                live.push(datas.len() as u32);
                datas.push(d.clone());
                AOp::Put(d)
            }
            16..=20 => {
                let d = again(r, &dead, &small);
                live.push(datas.len() as u32);
                datas.push(d.clone());
                AOp::Stream(split_pieces(r, c, &d))
            }
            21..=23 => {
                let d = again(r, &dead, &small);
                AOp::Abandon(split_pieces(r, c, &d))
            }
            24..=43 if !live.is_empty() => {
                let a = live.remove(r.below(live.len() as u64) as usize);
                if !datas[a as usize].is_empty() {
                    dead.push(datas[a as usize].clone());
                }
                AOp::Delete(a)
            }
            44..=66 => AOp::Gc,
            67..=70 if batch.is_none() => AOp::BgGc,
            71..=82 if ticks < max_ticks => {
                let n = (*r.pick(&[1u32, 1, 1, 2])).min(max_ticks - ticks);
                ticks += n;
                AOp::Tick(n)
            }
            83..=85 if open.len() < 2 => {
                let w = next_w;
                next_w += 1;
                open.push(w);
                AOp::WOpen(w)
            }
            86..=90 if !open.is_empty() => {
                let d = again(r, &dead, &small);
                AOp::WWrite(*r.pick(&open), d)
            }
            91..=93 if !open.is_empty() => {
                live.push(datas.len() as u32);
                datas.push(vec![]);
                AOp::WFinish(open.remove(r.below(open.len() as u64) as usize))
            }
            94 if !open.is_empty() => AOp::WDrop(open.remove(r.below(open.len() as u64) as usize)),
            95 if open.is_empty() => AOp::FullGc,
            96 if open.is_empty() => AOp::Repair,
            97 if !datas.is_empty() => AOp::Verify(r.below(datas.len() as u64) as u32),
            _ if !datas.is_empty() => AOp::Get(r.below(datas.len() as u64 + 1) as u32),
            _ => AOp::Gc,
        };
        ops.push(op);
    }
    for w in open {
        ops.push(AOp::WFinish(w));
    }
    if ticks < max_ticks && r.chance(3, 4) {
        ops.push(AOp::Tick((1 + min_age as u32).min(max_ticks - ticks)));
    }
    ops.push(AOp::Gc);
    ACase { name: None, chunk: c, min_age, batch, ops }
}

/// One batch: run the cases on the wall clock, compare every operation with the clocked model, report the oracles.
fn aging_batch(m: &mut Model, rep: &mut Report, stream: &str, cases: &[ACase], shrunk: &mut BTreeSet<String>) {
    let runs = run_aging_batch(cases);
    for run in runs {
        for h in &run.hits {
            rep.hit(h);
        }
        if let Some(why) = run.discarded {
            rep.hit(&format!("aging.case_dropped.{why}"));
            continue;
        }
        let case = &run.case;
        let input = || acase_json(case);
        // ---- correspondence: answer + full image after every operation, the model clock following the real seconds
        let mut lines: Vec<String> = vec![format!("reset {} -", case.chunk), format!("clock {CLOCK0} {}", case.min_age)];
        m.ask(&lines[0]);
        m.ask(&lines[1]);
        for (i, rec) in run.recs.iter().enumerate() {
            for t in &rec.pre {
                m.ask(t);
                lines.push(t.clone());
            }
            let both = m.ask(&format!("! c {}", rec.line));
            lines.push(format!("c {}", rec.line));
            let (mut mo, mimg) = match both.split_once('\t') {
                Some((a, b)) => (a.to_string(), b.to_string()),
                None => (both.clone(), "<no image>".to_string()),
            };
            if rec.bg && mo.starts_with("ok ") {
                mo = "ok".to_string(); // the task drops the cycles' statistics
            }
            let a = rep.compare(&format!("{stream}.answer"), || json!({"case": input(), "at": i, "line": rec.line}), &rec.imp, &mo);
            let b = rep.compare(&format!("{stream}.image"), || json!({"case": input(), "at": i, "line": rec.line}), &rec.image, &mimg);
            if !(a && b) {
                break; // the oracles below were evaluated on the real store alone, over the whole case
            }
        }
        let key = lines.join(";");
        rep.case(stream, if run.wrote && run.changed { Some(&key) } else { None });
        if let Some(n) = &case.name {
            rep.hit(&format!("aging.directed.{n}.{}", run.vios.first().map(|v| v.0.clone()).unwrap_or_else(|| "pass".into())));
            if rep.samples.len() < 12 && n == "young-orphan-rereferenced-aged-gc" {
                rep.sample(json!({"stream": stream, "name": n, "lines": lines}));
            }
        }
        // ---- oracle failures, with a shrunk input for the first case of every class
        for (class, what, at) in &run.vios {
            let inp = if shrunk.len() < 4 && shrunk.insert(class.clone()) {
                let small = shrink_aging(case, class);
                rep.hit("shrunk.aging");
                let mut j = acase_json(&small);
                j["shrunk_from"] = json!({"ops": case.ops.len(), "name": case.name});
                j
            } else {
                let mut j = input();
                j["failed_at_op"] = json!(at);
                j
            };
            vio(rep, class, what, inp);
        }
    }
}

fn aging_stream(m: &mut Model, rep: &mut Report, r: &mut Rng, batches: u64, per_batch: usize, max_ticks: u32, with_directed: bool) {
    let mut shrunk: BTreeSet<String> = BTreeSet::new();
    let t0 = std::time::Instant::now();
    for b in 0..batches {
        // the directed cases come first in their batch: they run right after each second boundary
        let mut cases: Vec<ACase> = if b == 0 && with_directed { aging_directed_cases() } else { vec![] };
        while cases.len() < per_batch {
            cases.push(gen_aging(r, max_ticks));
        }
        aging_batch(m, rep, "aging", &cases, &mut shrunk);
    }
    rep.note(&format!("stream `aging`: {batches} batch(es) of {per_batch} cases took {:.1} s of wall clock (mostly waiting for second boundaries)", t0.elapsed().as_secs_f64()));
}

fn main() {
    let args = parse_args();
    let mut rep = Report::new(
        "one case = one op sequence on a fresh store (model answer and full store image compared after every op); \
         non-trivial = at least one successful write and at least one successful delete or collecting gc; \
         distinct = distinct canonical line sequence",
    );
    rep.expected_branches = [
        // every operation of the model with each of its outcomes
        "op.put.ok", "op.put.err_empty_data", "op.put.err_too_large", "op.stream.ok", "op.abandon.ok", "op.wopen.ok", "op.wwrite.ok", "op.wfinish.ok", "op.wdrop.ok",
        "op.get.ok", "op.get.err_not_found", "op.get.err_chunk_missing", "op.delete.ok", "op.delete.err_not_found",
        "op.verify.ok", "op.verify.err_not_found", "op.verify.err_chunk_missing", "op.gc.ok", "op.gcsel.ok", "gc_batch.partial", "gc_batch.whole", "op.background_gc",
        "op.fullgc.ok", "op.repair.ok", "op.corrupt.ok", "op.drop.ok", "op.exists.ok", "op.stats.ok", "op.vchunk.ok", "op.vchunk.err_chunk_missing",
        "op.cexist.ok", "op.cexist.err_not_found", "op.orphans.ok", "op.touch.ok", "op.touch.err_not_found",
        "op.ropen.ok", "op.ropen.err_not_found", "op.rnext.ok", "op.rnext.err_chunk_missing", "op.rread.ok", "op.rread.err_chunk_missing",
        "op.rall.ok", "op.rall.err_chunk_missing", "op.rverify.ok", "op.rverify.err_chunk_missing", "op.rdrop.ok",
        "verify.damaged.ok_false", "verify.damaged.err_chunk_missing",
        // every store call of every thread kind of the concurrent model
        "conc.call.writer.e", "conc.call.writer.g", "conc.call.writer.p", "conc.call.writer.pm",
        "conc.call.deleter.gm", "conc.call.deleter.g", "conc.call.deleter.p", "conc.call.deleter.dm",
        "conc.call.updater.gm", "conc.call.updater.pm",
        "conc.call.gc.sc", "conc.call.gc.g", "conc.call.gc.d",
        "conc.call.full_gc.sm", "conc.call.full_gc.gm", "conc.call.full_gc.sc", "conc.call.full_gc.g", "conc.call.full_gc.d",
        "conc.double_decrement.reproduced",
        // the long-lived store under the wall clock
        "aging.op.put.ok", "aging.op.stream.ok", "aging.op.abandon.ok", "aging.op.wwrite.ok", "aging.op.wfinish.ok", "aging.op.delete.ok", "aging.op.gc.ok", "aging.op.gcsel.ok",
        "aging.op.background_gc.ok", "aging.op.fullgc.ok", "aging.op.repair.ok", "aging.op.get.ok", "aging.gc_batch.partial",
        "aging.shape.young_orphan_seen_then_rereferenced_then_cycle_after_it_aged",
    ]
    .iter()
    .map(|x| x.to_string())
    .collect();
    let mut m = Model::spawn(&args.driver);
    let root = Rng::new(args.seed);
    let scale: u64 = if args.thorough { 12 } else { 1 };

    directed(&mut m, &mut rep);
    // one long-lived store per case under the wall clock: directed cases first, then the random cases of the same batch
    aging_stream(&mut m, &mut rep, &mut root.fork("aging"), if args.thorough { 14 } else { 1 }, if args.thorough { 160 } else { 110 }, if args.thorough { 4 } else { 3 }, true);
    // the witness interleavings of the known findings (and the safe mixes) run before every random stream
    conc_directed(&mut m, &mut rep, &mut root.fork("conc-directed"));
    chunker_stream(&mut m, &mut rep, &mut root.fork("chunker"), 1500 * scale);
    run_stream(&mut m, &mut rep, &mut root.fork("seq"), "seq", 1200 * scale, false, false, false);
    run_stream(&mut m, &mut rep, &mut root.fork("writers"), "writers", 450 * scale, true, false, false);
    run_stream(&mut m, &mut rep, &mut root.fork("open-writers"), "open-writers", 300 * scale, true, false, false);
    run_stream(&mut m, &mut rep, &mut root.fork("damage"), "damage", 400 * scale, false, true, false);
    run_stream(&mut m, &mut rep, &mut root.fork("api"), "api", 350 * scale, false, false, true);
    run_stream(&mut m, &mut rep, &mut root.fork("api-damage"), "api-damage", 150 * scale, false, true, true);
    thread_stream(&mut rep, &mut root.fork("threads"), 300 * scale);
    conc_stream(&mut m, &mut rep, &mut root.fork("conc"), 250 * scale);

    rep.note("SHA-256 is opaque: the model is keyed by the chunk bytes themselves; the harness checks every new chunk record is keyed by compute_hash(data)");
    rep.note("`_created` stamps are rewritten to logical ticks by the harness (no clock hook); the strict `<` of gc_cycle is therefore exercised in ticks, not in wall-clock seconds");
    rep.note("stream `aging`: ONE BlobStore (one GarbageCollector, fixed gc_min_age 0..2 s) per case, `_created` left as written, time = the wall clock (cases run in lockstep, one second boundary per tick); the model clock follows the seconds the real operations ran in; a case in which the second changed during a clock-reading operation is dropped (aging.case_dropped.*)");
    rep.note("gc_cycle batch_size is kept above the number of chunks in compared streams (scan order is unspecified)");
    rep.write(&args.out);
}
